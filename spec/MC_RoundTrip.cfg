CONSTANTS
  Variant = "asis"
SPECIFICATION MSpec
INVARIANT ReadWriteId
INVARIANT SecondCycleIdempotent
INVARIANT EditsAreWritten
CHECK_DEADLOCK FALSE

--------------------------- MODULE Trace_RoundTrip ---------------------------
(* One trace per network: header = the reactions with every value as the text the native format prints for it (computed by the
   driver's own formatter), and the printing table Pr over those texts (printing a printed text again).  Events: what the REAL
   code wrote / read in two write-read cycles, and — per reaction of an exported project — whether re-rendering it from its own
   files was refused or gave the same rate coefficient as the direct rendering (numerically, at random parameter points). *)
EXTENDS RoundTrip, Json, IOUtils, TLCExt
VARIABLES tid, l
JTrace == JsonDeserialize(IOEnv.TRACE_FILE)
Traces == JTrace.traces
NT     == Len(Traces)
Ev     == Traces[tid].ev[l]
ASSUME \A i \in 1..NT : TLCSet(i, 0)
Chk(nm, c) == IF c THEN TRUE ELSE PrintT(<<"MISMATCH", Traces[tid].tid, l, nm>>) /\ FALSE
PrOf(tr) == [x \in {tr.pr[k][1] : k \in DOMAIN tr.pr} |-> tr.pr[CHOOSE k \in DOMAIN tr.pr : tr.pr[k][1] = x][2]]
TInit == tid \in 1..NT /\ l = 1 /\ TInit0(PrOf(Traces[tid]), Traces[tid].net)
IsEv(a) == l <= Len(Traces[tid].ev) /\ Ev.act = a /\ l' = l + 1 /\ UNCHANGED tid
AsRec(o) == [idx |-> o.idx, r |-> SeqBag(o.r), p |-> SeqBag(o.p), a |-> o.a, b |-> o.b, c |-> o.c, tmin |-> o.tmin, tmax |-> o.tmax, ty |-> o.ty, src |-> o.src]
Same(obs, model) ==
  /\ Chk("ReactionCount", Len(obs) = Len(model))
  /\ \A k \in DOMAIN model : k \in DOMAIN obs =>
       /\ Chk("SpeciesWithMultiplicity", AsRec(obs[k]).r = model[k].r /\ AsRec(obs[k]).p = model[k].p)
       /\ Chk("Coefficients", obs[k].a = model[k].a /\ obs[k].b = model[k].b /\ obs[k].c = model[k].c)
       /\ Chk("Window", obs[k].tmin = model[k].tmin /\ obs[k].tmax = model[k].tmax)
       /\ Chk("TypeCode", obs[k].ty = model[k].ty)
       /\ Chk("Index", obs[k].idx = model[k].idx)
       /\ Chk("SourceTag", obs[k].src = model[k].src)
TWrite1 == IsEv("Write1") /\ Write1 /\ Chk("WriteSucceeds", Ev.ok) /\ Same(Ev.recs, file1')
TRead1  == IsEv("Read1")  /\ Read1  /\ Chk("ReadSucceeds", Ev.ok)  /\ Same(Ev.recs, net2')
TModify == IsEv("Modify") /\ Modify(Ev.k, Ev.v, Ev.reindex) /\ Chk("EditApplied", Ev.ok)
TWrite2 == IsEv("Write2") /\ Write2 /\ Chk("WriteSucceeds", Ev.ok) /\ Same(Ev.recs, file2') /\ Chk("SecondFileIdentical", modified \/ Ev.same_text)
TRead2  == IsEv("Read2")  /\ Read2  /\ Chk("ReadSucceeds", Ev.ok)  /\ Same(Ev.recs, net3')
TRerender ==
  /\ IsEv("Rerender") /\ pc = "done"
  /\ Chk("DirectRenderingWorks", Ev.direct_ok)
  /\ Chk("LawAgreement", Ev.refused \/ Ev.same_law)
  /\ UNCHANGED tvars
(* Network.export(...) followed by `naunet render --force` on the exported project IN A FRESH PROCESS (nothing but the project's own
   files carries the description over): the re-rendering is refused, or its rate statements and constants are those of the export *)
TExport ==
  /\ IsEv("Export")
  /\ Chk("ExportSucceeds", Ev.exported)
  /\ Chk("ExportedProjectRerendersTheSame", Ev.refused \/ Ev.same)
  /\ UNCHANGED tvars
(* beyond the listed properties (C18 speaks of the native format): the KROME copy of the same network, read back by the KROME reader.
   Every clause is a NOTE: reported in the evidence, never blocking, never a violation. *)
Note(nm, c) == IF c THEN TRUE ELSE PrintT(<<"NOTE", Traces[tid].tid, l, nm>>)
TKromeCopy ==
  /\ IsEv("KromeCopy")
  /\ Note("KromeCopyWritten", Ev.ok)
  /\ IF Ev.ok
       THEN LET m == KromeCopy(net) IN
            /\ Note("KromeCopy:ReactionCount", Len(Ev.recs) = Len(m))
            /\ \A k \in DOMAIN m : k \in DOMAIN Ev.recs =>
                 /\ Note("KromeCopy:SpeciesWithMultiplicity", SeqBag(Ev.recs[k].r) = m[k].r /\ SeqBag(Ev.recs[k].p) = m[k].p)
                 /\ Note("KromeCopy:Window", Ev.recs[k].tmin = m[k].tmin /\ Ev.recs[k].tmax = m[k].tmax)
                 /\ Note("KromeCopy:Index", Ev.recs[k].idx = m[k].idx)
                 /\ Note("KromeCopy:RateValue", Ev.same_rate[k])
       ELSE TRUE
  /\ UNCHANGED tvars
(* beyond the listed properties, notes only: the UCLCHEM copy.  Reaction.__format__("uclchem") accepts a reaction or raises; an accepted
   reaction read back by the UCLCHEM reader has the same species with multiplicity and the same window (the two bounds are printed in full) *)
TUclchemCopy ==
  /\ IsEv("UclchemCopy")
  /\ \A k \in DOMAIN Ev.written :
       /\ Note("UclchemCopy:Written", Ev.written[k])
       /\ Ev.written[k] => /\ Note("UclchemCopy:SpeciesWithMultiplicity", Ev.same_species[k])
                           /\ Note("UclchemCopy:Window", Ev.same_window[k])
  /\ UNCHANGED tvars
(* a network holding a reaction WITHOUT a native type code (a Leeds type the exchange format has no code for) may be refused by the writer --
   loudly, before anything is written; a refusal of any other network is not covered by this *)
TWriteRefused ==
  /\ IsEv("WriteRefused") /\ pc = "write1"
  /\ Chk("WriteSucceeds", \E k \in DOMAIN net : net[k].ty = -1)
  /\ UNCHANGED tvars
TNext == TWriteRefused \/ TWrite1 \/ TRead1 \/ TModify \/ TWrite2 \/ TRead2 \/ TRerender \/ TExport \/ TKromeCopy \/ TUclchemCopy
TSpec == TInit /\ [][TNext]_<<tvars, tid, l>>
Track ==
  /\ Chk("Inv:ReadWriteId", ReadWriteId)
  /\ Chk("Inv:SecondCycleIdempotent", SecondCycleIdempotent)
  /\ Chk("Inv:EditsAreWritten", EditsAreWritten)
  /\ TLCSet(tid, IF l > TLCGet(tid) THEN l ELSE TLCGet(tid))
Verdicts == \A i \in 1..NT : PrintT(<<"VERDICT", Traces[i].tid, TLCGet(i), Len(Traces[i].ev) + 1>>)
=============================================================================

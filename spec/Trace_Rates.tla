----------------------------- MODULE Trace_Rates -----------------------------
(* One trace per rendered network: header = the DECLARED windows / indices (what the driver encoded into the input files) and
   the rate-modifier keys; one Assign event per statement of the emitted EvalRates (guard as parsed by the strict reader, and
   whether the assigned expression is a modifier's text); Finish = zero-initialisation of k[] in every consumer, statement
   count, and the groups of reactions the driver declared as adjacent piecewise fits. *)
EXTENDS Rates, Json, IOUtils, TLCExt
VARIABLES tid, l
JTrace == JsonDeserialize(IOEnv.TRACE_FILE)
Traces == JTrace.traces
NT     == Len(Traces)
Ev     == Traces[tid].ev[l]
ASSUME \A i \in 1..NT : TLCSet(i, 0)
Chk(name, c) == IF c THEN TRUE ELSE PrintT(<<"MISMATCH", Traces[tid].tid, l, name>>) /\ FALSE
ToSetOf(s) == {s[n] : n \in DOMAIN s}

Cmp(op, a, b) == CASE op = ">=" -> a >= b [] op = ">" -> a > b [] op = "<" -> a < b [] op = "<=" -> a <= b
ObsActive(g, t) == (g.has_lo => Cmp(g.lo_op, t, g.lo)) /\ (g.has_hi => Cmp(g.hi_op, t, g.hi))
Probes(r) == {t \in {0, 1, 100000000, r.tmin - 1, r.tmin, r.tmin + 1, r.tmax - 1, r.tmax, r.tmax + 1} : t >= 0}

TInit == tid \in 1..NT /\ l = 1 /\ RInit(Traces[tid].R, ToSetOf(Traces[tid].mods), 0)
IsEv(a) == l <= Len(Traces[tid].ev) /\ Ev.act = a /\ l' = l + 1 /\ UNCHANGED tid

TAssign ==
  /\ IsEv("Assign") /\ pos <= Len(R)
  /\ Chk("StatementOrder", Ev.i = pos - 1)
  /\ Chk("OnlyTargetsOverridden", Ev.overridden = Overridden(R, Mods, pos))
  /\ Chk("OverrideValueIsTheKeys", Ev.overridden => Ev.modkey = EffIdx(R, pos))
  /\ Chk("OverrideIsUnguarded", Ev.overridden => (~Ev.guard.has_lo /\ ~Ev.guard.has_hi))   \* the given value IS the coefficient, at every temperature
  /\ Chk("GuardMeansWindow", ~Ev.overridden => \A t \in Probes(R[pos]) : ObsActive(Ev.guard, t) = Active(R[pos].tmin, R[pos].tmax, t))
  /\ Assign

TFinish ==
  /\ IsEv("Finish") /\ Done
  /\ Chk("EveryReactionAssignedOnce", Ev.nstatements = Len(R))
  /\ Chk("RateArrayZeroInitialised", Ev.k_init_ok)
  /\ Chk("ReindexWhenUnindexed", Ev.reindexed = reindexed)
  /\ UNCHANGED rvars

(* run-time observation: the compiled generated Fex was called at temperature Ev.T (scaled by 100) in ONE process, after other
   temperatures; Ev.active = the reactions whose rate coefficient was non-zero in that call *)
TEval ==
  /\ IsEv("Eval")
  /\ Chk("ActiveExactlyInsideWindow", \A i \in DOMAIN R : (i \in ToSetOf(Ev.active)) = (Overridden(R, Mods, i) \/ Active(R[i].tmin, R[i].tmax, Ev.T)))
  /\ UNCHANGED rvars
(* the batched GPU kernels (text): every system evaluates its rate coefficients -- hence its temperature windows -- from ITS OWN
   parameter record and ITS OWN slice of the state, in the right-hand-side kernel and in the Jacobian kernel alike *)
TBatch ==
  /\ IsEv("Batch")
  /\ Chk("EachSystemEvaluatesItsOwnRates", Ev.calls > 0 /\ Ev.own_params /\ Ev.own_state)
  /\ Chk("RateArrayZeroInitialisedPerSystem", Ev.cleared)    \* (a thread works on several systems one after the other)
  /\ UNCHANGED rvars
TNext == TAssign \/ TFinish \/ TEval \/ TBatch
TSpec == TInit /\ [][TNext]_<<rvars, tid, l>>
Track ==
  /\ Chk("Inv:OnlyTargetsChanged", OnlyTargetsChanged)
  /\ Chk("Inv:NoWindowAlwaysActive", NoWindowAlwaysActive)
  /\ TLCSet(tid, IF l > TLCGet(tid) THEN l ELSE TLCGet(tid))
Verdicts == \A i \in 1..NT : PrintT(<<"VERDICT", Traces[i].tid, TLCGet(i), Len(Traces[i].ev) + 1>>)
=============================================================================

---- MODULE MC_Formats ----
EXTENDS Formats
CONSTANTS MaxLines
Rec1 == [r |-> <<"H2", "CRP">>, p |-> <<"H", "H">>, a |-> "1.0", b |-> "0.0", c |-> "0.0", tmin |-> "10.0", tmax |-> "300.0", idx |-> 7, code |-> 1]
Rec2 == [r |-> <<"C", "H">>, p |-> <<"CH">>, a |-> "2.0", b |-> "0.5", c |-> "-3.0", tmin |-> "-1.0", tmax |-> "-1.0", idx |-> 8, code |-> 3]
Classes(f) == IF f = "krome" THEN {"blank", "ws", "comment", "format", "var", "common", "data"} ELSE {"blank", "ws", "data"}
LinesOf(f) == {[cls |-> c, rec |-> Rec1] : c \in Classes(f) \ {"data"}} \cup {[cls |-> "data", rec |-> Rec1], [cls |-> "data", rec |-> Rec2]}
SeqsUpTo(S, n) == UNION {[1..m -> S] : m \in 0..n}
MInit == \E f \in {"kida", "krome"} : \E lines \in SeqsUpTo(LinesOf(f), MaxLines) : FInit(f, lines)
MSpec == MInit /\ [][Line]_fvars
====

SPECIFICATION LSpec
CONSTANTS
  Method = "sparse"
  NEQ = 3
  NNZ = 5
  Tols <- MCTols
  Variant = "asis"
INVARIANT TypeOK
INVARIANT Balanced
INVARIANT SolverSeesDeclaredLayout
INVARIANT JacobianReadAsFilled
INVARIANT AppliedIsRequested
CHECK_DEADLOCK FALSE

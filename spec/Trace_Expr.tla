------------------------------ MODULE Trace_Expr ------------------------------
(* One trace per expression.  kind "tree": the tree was chosen by TLC / the generator, printed as Fortran with MINIMAL parentheses
   by an independent printer, handed to the real KROMEReaction(...).rateexpr(); its C output was parsed strictly and canonicalised.
   kind "text": a rate expression of a bundled KROME network; its Fortran value (Python's ** has Fortran's precedence and
   associativity) and the value of the C output were compared at random points by the recorder. *)
EXTENDS Expr, Json, IOUtils, TLCExt
VARIABLES tid, l
JTrace == JsonDeserialize(IOEnv.TRACE_FILE)
Traces == JTrace.traces
NT     == Len(Traces)
ASSUME \A i \in 1..NT : TLCSet(i, 0)
Chk(nm, c) == IF c THEN TRUE ELSE PrintT(<<"MISMATCH", Traces[tid].tid, l, nm>>) /\ FALSE
TInit == tid \in 1..NT /\ l = 1
TCase ==
  /\ l = 1 /\ l' = 2 /\ UNCHANGED tid
  /\ LET tr == Traces[tid] IN
     IF tr.kind = "tree"
       THEN /\ Chk("OutputIsValidC", tr.obs.accepted => tr.obs.valid)
            /\ Chk("TranslationKeepsMeaning", tr.obs.accepted => tr.obs.tree = Translate(tr.t, JTrace.alias))
       ELSE /\ Chk("OutputIsValidC", tr.obs.accepted => tr.obs.valid)
            /\ Chk("SameValueAtSamplePoints", tr.obs.accepted => tr.obs.same_value)
TSpec == TInit /\ [][TCase]_<<tid, l>>
Track == TLCSet(tid, IF l > TLCGet(tid) THEN l ELSE TLCGet(tid))
Verdicts == \A i \in 1..NT : PrintT(<<"VERDICT", Traces[i].tid, TLCGet(i), 2>>)
=============================================================================

---------------------------- MODULE Trace_GrainLaws ----------------------------
(* One trace per (dust model, grain / surface reaction): the reaction line was encoded independently (Leeds or UCLCHEM format),
   parsed by the real reader; rateexpr(grain) of the real dust-model object gave the expression (or raised); the expression was
   parsed strictly and canonicalised.  The case record carries the reacting species' own data as the driver knows them
   independently (mass number from composition, binding energy by the documented lookup order, yield). *)
EXTENDS GrainLaws, Json, IOUtils, TLCExt
VARIABLES tid, l, explicit, user      \* explicit / user: binding energy set on the object / in the user table (0 = not set); thousandths of a kelvin
JTrace == JsonDeserialize(IOEnv.TRACE_FILE)
Traces == JTrace.traces
NT     == Len(Traces)
ASSUME \A i \in 1..NT : TLCSet(i, 0)
Chk(nm, c) == IF c THEN TRUE ELSE PrintT(<<"MISMATCH", Traces[tid].tid, l, nm>>) /\ FALSE
TInit == tid \in 1..NT /\ l = 1 /\ explicit = 0 /\ user = 0
(* Species.binding_energy: explicit value, else the user table, else the RATE12 table; reading changes nothing *)
Lookup(table) == IF explicit # 0 THEN explicit ELSE IF user # 0 THEN user ELSE table
TEb ==
  /\ Traces[tid].kind = "eb" /\ l <= Len(Traces[tid].ev) /\ l' = l + 1 /\ UNCHANGED tid
  /\ LET e == Traces[tid].ev[l] IN
     CASE e.op = "read" -> Chk("BindingEnergyLookupOrder", e.value = Lookup(Traces[tid].table)) /\ UNCHANGED <<explicit, user>>
       \* the constant eb_<species> the generated naunet_constants.cpp defines for a network read under the tables as they are now
       [] e.op = "emitted" -> Chk("EmittedConstantIsTheLookup", e.value = Lookup(Traces[tid].table)) /\ UNCHANGED <<explicit, user>>
       [] e.op = "user" -> user' = e.value /\ UNCHANGED explicit
       [] e.op = "explicit" -> explicit' = e.value /\ UNCHANGED user
TCase ==
  /\ Traces[tid].kind = "law" /\ l = 1 /\ l' = 2 /\ UNCHANGED <<tid, explicit, user>>
  /\ LET t == Traces[tid]
         law == GrainLaw(t.model, t.ty, t.a, t.c)
     IN IF law = Refused \/ t.fmt_refuses        \* (UCLCHEM's reader itself refuses surface diffusion / reactive desorption)
          THEN Chk("RefusedNotRendered", t.obs.refused)
          ELSE /\ Chk("KnownModel", law # <<"undefined">>)
               /\ Chk("Rendered", ~t.obs.refused)
               /\ Chk("ValidC", t.obs.valid)
               /\ Chk("GrainLaw", t.obs.tree = law)
               /\ Chk("BindingEnergyConstant", t.obs.eb_ok)
(* the grain density a population's rates are written with (the derived quantity gdens<g> of the network's own grain object) is the sum of
   the abundances of THAT population's grain species, each once -- whatever other populations the network holds *)
TDensity ==
  /\ Traces[tid].kind = "density" /\ l = 1 /\ l' = 2 /\ UNCHANGED <<tid, explicit, user>>
  /\ LET t == Traces[tid] IN
       /\ Chk("Rendered", ~t.obs.refused)
       /\ Chk("GrainDensityIsItsOwnPopulation", t.ev[1].summands = t.ev[1].own /\ t.ev[1].each_once)
TSpec == TInit /\ [][TCase \/ TEb \/ TDensity]_<<tid, l, explicit, user>>
Track == TLCSet(tid, IF l > TLCGet(tid) THEN l ELSE TLCGet(tid))
Verdicts == \A i \in 1..NT : PrintT(<<"VERDICT", Traces[i].tid, TLCGet(i), IF Traces[i].kind = "eb" THEN Len(Traces[i].ev) + 1 ELSE 2>>)
=============================================================================

---- MODULE Trace_Globals_MC ----
EXTENDS Trace_Globals
AllCustom == [n \in {1, 2} |-> TRUE]
Mixed     == [n \in {1, 2} |-> n = 1]
NoneCustom == [n \in {1, 2} |-> FALSE]
====

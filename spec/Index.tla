------------------------------- MODULE Index -------------------------------
(***************************************************************************)
(* Layer L2: one slot per species, one identifier per slot, the same in    *)
(* every artefact (C09).                                                   *)
(* A species class s (class of Species.__eq__) is a record                 *)
(*   [rank   : position of its name in Python string order,                *)
(*    degree : number of species it shares a reaction with (incl. itself), *)
(*    base   : Seq of characters - the name without surface prefix/group   *)
(*    key    : Seq of characters - the species' identity apart from how it  *)
(*             is spelled (= base, except for dust grains)                 *)
(*             and without charge signs, element case normalised,          *)
(*    surface: BOOLEAN, sgroup : Nat, charge : Int]                        *)
(* Sort orders the classes by (degree, rank) as Network.species does;      *)
(* EmitView records what one generated artefact says: a sequence of        *)
(* <<identifier, slot>> pairs and its species count.                       *)
(***************************************************************************)
EXTENDS Integers, Sequences, FiniteSets, TLC

CONSTANTS Variant     \* "asis" (repaired) | "raw_alias" | "no_group" | "one_M"

VARIABLES SP, order, views, pc
ivars == <<SP, order, views, pc>>

IdChars == {"A","B","C","D","E","F","G","H","I","J","K","L","M","N","O","P","Q","R","S","T","U","V","W","X","Y","Z",
            "a","b","c","d","e","f","g","h","i","j","k","l","m","n","o","p","q","r","s","t","u","v","w","x","y","z",
            "0","1","2","3","4","5","6","7","8","9","_"}
Legal(id) == id # <<>> /\ \A k \in DOMAIN id : id[k] \in IdChars      \* after the "IDX_" prefix any of these may come first

Rep(c, n) == [k \in 1..n |-> c]
DigitChr(d) == CASE d = 0 -> "0" [] d = 1 -> "1" [] d = 2 -> "2" [] d = 3 -> "3" [] d = 4 -> "4" [] d = 5 -> "5" [] d = 6 -> "6"
                 [] d = 7 -> "7" [] d = 8 -> "8" [] d = 9 -> "9"
RECURSIVE NumStr(_)
NumStr(n) == IF n < 10 THEN <<DigitChr(n)>> ELSE NumStr(n \div 10) \o <<DigitChr(n % 10)>>

(* Species.alias *)
San(b) == IF Variant = "raw_alias" THEN b ELSE [k \in DOMAIN b |-> IF b[k] \in IdChars THEN b[k] ELSE "_"]
AliasOf(s) ==
     (IF s.surface THEN <<"G">> \o (IF s.sgroup > 0 /\ Variant # "no_group" THEN NumStr(s.sgroup) ELSE <<>>) ELSE <<>>)
  \o San(s.base)
  \o (IF s.charge >= 0 THEN Rep("I", s.charge + 1) ELSE IF Variant = "one_M" THEN <<"M">> ELSE Rep("M", -s.charge))

Before(a, b) == a.degree < b.degree \/ (a.degree = b.degree /\ a.rank < b.rank)

RECURSIVE SortSet(_)
SortSet(S) == IF S = {} THEN <<>>
              ELSE LET m == CHOOSE x \in S : \A y \in S \ {x} : Before(x, y) IN <<m>> \o SortSet(S \ {m})

IInit(sp) == SP = sp /\ order = <<>> /\ views = <<>> /\ pc = "sort"

(* Network.species: sorted by (connectivity, name) *)
Sort ==
  /\ pc = "sort"
  /\ order' = SortSet(SP)
  /\ pc' = "emit" /\ UNCHANGED <<SP, views>>

(* one artefact: the identifiers it defines, in slot order *)
EmitView(kind) ==
  /\ pc = "emit"
  /\ views' = Append(views, [kind |-> kind, n |-> Len(order), pairs |-> [k \in DOMAIN order |-> <<AliasOf(order[k]), k - 1>>]])
  /\ UNCHANGED <<SP, order, pc>>

INext == Sort \/ \E kd \in {"macros", "pyindex", "pylists", "summary", "enzo"} : EmitView(kd)

SlotOf(s) == CHOOSE k \in DOMAIN order : order[k] = s
Bijection      == pc = "emit" => /\ Len(order) = Cardinality(SP) /\ \A s \in SP : \E k \in DOMAIN order : order[k] = s
AliasLegal     == \A s \in SP : Legal(AliasOf(s))
AliasInjective == \A a, b \in SP : a # b => AliasOf(a) # AliasOf(b)
(* one record -- hence one slot -- per species: two spellings of one species (GRAIN / GRAIN0, e- / E) never stay two records.  `key`
   is the species' identity apart from spelling (the base name; for dust grains the grain symbol) *)
OneRecordPerSpecies == \A a, b \in SP : a # b => <<a.key, a.surface, a.sgroup, a.charge>> # <<b.key, b.surface, b.sgroup, b.charge>>
ViewsAgree     == \A a, b \in DOMAIN views : views[a].pairs = views[b].pairs /\ views[a].n = views[b].n
=============================================================================

CONSTANTS
  MaxT = 7
  MaxN = 2
SPECIFICATION MSpec
INVARIANT OutsideIsZero
INVARIANT InsideIsLaw
INVARIANT NoWindowAlwaysActive
INVARIANT Partition
INVARIANT OnlyTargetsChanged
CHECK_DEADLOCK FALSE

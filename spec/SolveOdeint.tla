---------------------------- MODULE SolveOdeint ----------------------------
(***************************************************************************)
(* Layer L3, Odeint back-end: Naunet::Solve (templates/odeint/src/         *)
(* naunet.cpp.j2) + Observer (naunet_ode.cpp.j2) + the Python wrapper      *)
(* PyWrapSolve.  integrate_adaptive is the environment: it calls the       *)
(* observer once before the first step and once after each of the N steps  *)
(* it needs to reach dt; the observer throws when its call counter exceeds *)
(* the budget mxsteps; Solve catches, logs and returns NAUNET_FAIL; the    *)
(* wrapper must turn NAUNET_FAIL into an exception (as the CVODE one does).*)
(***************************************************************************)
EXTENDS Integers, TLC

CONSTANTS MaxN,      \* steps the integrator may need: 1..MaxN
          MaxBudget, \* mxsteps in 0..MaxBudget
          Variant    \* "asis" | "catch_returns_success" | "budget_off_by_one" | "wrapper_ignores"

VARIABLES pc, need, budget, calls, done, ret, logged, raised, viaWrapper

ovars == <<pc, need, budget, calls, done, ret, logged, raised, viaWrapper>>

OInit ==
  /\ pc = "start" /\ need \in 1..MaxN /\ budget \in 0..MaxBudget /\ viaWrapper \in BOOLEAN
  /\ calls = 0 /\ done = 0 /\ ret = "none" /\ logged = FALSE /\ raised = FALSE

(* Observer::operator(): step_ += 1; if (step_ > mxsteps_) throw *)
Observe ==
  /\ pc \in {"start", "stepped"}
  /\ calls' = calls + 1
  /\ pc' = IF (IF Variant = "budget_off_by_one" THEN calls' > budget + 1 ELSE calls' > budget)
             THEN "thrown"
             ELSE IF done = need THEN "finished" ELSE "observed"
  /\ UNCHANGED <<need, budget, done, ret, logged, raised, viaWrapper>>

Step ==
  /\ pc = "observed"
  /\ done' = done + 1 /\ pc' = "stepped"
  /\ UNCHANGED <<need, budget, calls, ret, logged, raised, viaWrapper>>

(* catch (const std::runtime_error &e) { fprintf(errfp_, ...); flag = NAUNET_FAIL; } *)
Catch ==
  /\ pc = "thrown"
  /\ logged' = TRUE
  /\ ret' = IF Variant = "catch_returns_success" THEN "SUCCESS" ELSE "FAIL"
  /\ pc' = "returned"
  /\ UNCHANGED <<need, budget, calls, done, raised, viaWrapper>>

Finish ==
  /\ pc = "finished"
  /\ ret' = "SUCCESS" /\ pc' = "returned"
  /\ UNCHANGED <<need, budget, calls, done, logged, raised, viaWrapper>>

(* PyWrapSolve: int flag = Solve(...); if (flag == NAUNET_FAIL) throw std::runtime_error *)
Wrapper ==
  /\ pc = "returned"
  /\ raised' = (viaWrapper /\ ret = "FAIL" /\ Variant # "wrapper_ignores")
  /\ pc' = "done"
  /\ UNCHANGED <<need, budget, calls, done, ret, logged, viaWrapper>>

ONext == Observe \/ Step \/ Catch \/ Finish \/ Wrapper
OSpec == OInit /\ [][ONext]_ovars

ExactSpan       == ret = "SUCCESS" => done = need
BudgetRespected == ret = "SUCCESS" => calls <= budget
OverBudgetFails == (pc \in {"returned", "done"} /\ need + 1 > budget) => ret = "FAIL"
FailLogged      == ret = "FAIL" => logged
WrapperReports  == (pc = "done" /\ viaWrapper /\ ret = "FAIL") => raised
=============================================================================

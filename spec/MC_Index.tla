---- MODULE MC_Index ----
EXTENDS Index
CONSTANTS MaxS
U == { [rank |-> 1,  base |-> <<"C","O">>, key |-> <<"C","O">>, surface |-> TRUE,  sgroup |-> 0, charge |-> 0],      \* #CO
       [rank |-> 2,  base |-> <<"C","O">>, key |-> <<"C","O">>, surface |-> TRUE,  sgroup |-> 2, charge |-> 0],      \* #2CO
       [rank |-> 3,  base |-> <<"C","O">>, key |-> <<"C","O">>, surface |-> FALSE, sgroup |-> 0, charge |-> 0],      \* CO
       [rank |-> 4,  base |-> <<"G","R","A","I","N">>, key |-> <<"G","R","A","I","N">>, surface |-> FALSE, sgroup |-> 0, charge |-> -1],  \* GRAIN-
       [rank |-> 5,  base |-> <<"G","R","A","I","N">>, key |-> <<"G","R","A","I","N">>, surface |-> FALSE, sgroup |-> 0, charge |-> -2],  \* GRAIN--
       [rank |-> 6,  base |-> <<"H","2","*">>, key |-> <<"H","2","*">>, surface |-> FALSE, sgroup |-> 0, charge |-> 0],   \* H2*
       [rank |-> 7,  base |-> <<"H","e">>, key |-> <<"H","e">>, surface |-> FALSE, sgroup |-> 0, charge |-> 2],       \* He++
       [rank |-> 8,  base |-> <<"c","-","C","3","H","2">>, key |-> <<"c","-","C","3","H","2">>, surface |-> FALSE, sgroup |-> 0, charge |-> 0], \* c-C3H2
       [rank |-> 9,  base |-> <<"e">>, key |-> <<"e">>, surface |-> FALSE, sgroup |-> 0, charge |-> -1],          \* e-
       [rank |-> 10, base |-> <<"o","H","2","D">>, key |-> <<"o","H","2","D">>, surface |-> FALSE, sgroup |-> 0, charge |-> 1] } \* oH2D+
WithDegree == UNION { {[rank |-> u.rank, base |-> u.base, key |-> u.key, surface |-> u.surface, sgroup |-> u.sgroup, charge |-> u.charge, degree |-> d] : d \in 0..2} : u \in U }
Pairs2 == UNION { {{a, b} : b \in {x \in WithDegree : x.rank > a.rank}} : a \in WithDegree }
Triples == UNION { UNION { {{a, b, c} : c \in {x \in WithDegree : x.rank > b.rank /\ x.degree = 1}} : b \in {x \in WithDegree : x.rank > a.rank /\ x.degree = 0} } : a \in WithDegree }
Sets == {{a} : a \in WithDegree} \cup (IF MaxS >= 2 THEN Pairs2 ELSE {}) \cup (IF MaxS >= 3 THEN Triples ELSE {})
MInit == \E S \in Sets : IInit(S)
Bound == Len(views) <= 2
MSpec == MInit /\ [][INext]_ivars
====

------------------------------- MODULE Solve -------------------------------
(***************************************************************************)
(* Layer L3: the generated Naunet::Solve / Naunet::HandleError of the      *)
(* CVODE back-ends (templates/cvode/src/naunet.cpp.j2), one action per     *)
(* statement group.  Time is measured in integer ticks.                    *)
(*                                                                         *)
(*   tau   integrated time embodied in the abundance vector `ab` (which    *)
(*         is also the integrator's vector: N_VSetArrayPointer(ab, cv_y_)) *)
(*         measured from the caller's t = 0.  It is what the property      *)
(*         talks about: SUCCESS must mean tau = T.                         *)
(*   base  value of tau at the last CVodeInit / CVodeReInit                *)
(*   t     the code's t0: integrator time since the last (re)init, as      *)
(*         returned by the last CVode call                                 *)
(*   rem   the code's dt inside HandleError (remaining interval)           *)
(*   tmp   ab_tmp_ expressed as a tau value (0 = ab_init_)                 *)
(*   flag  the code's cvflag                                               *)
(*                                                                         *)
(* The integrator is the environment: a call towards `target` either       *)
(* succeeds (t' = target) or fails with a negative flag after reaching     *)
(* some p with t <= p < target.  Intermediate log-spaced targets are       *)
(* irrational in the code; only their order and "< rem" matter, so they    *)
(* are abstracted to any tick in t..rem-1.  The LAST target of a level is  *)
(* rem itself (10^(log10 dt)), which is what makes the span exact.         *)
(***************************************************************************)
EXTENDS Integers, Sequences, TLC

CONSTANTS T,            \* requested interval (ticks), T >= 1
          MaxLevel,     \* 5 in the code: for (level = 1; level < 6; level++)
          SubPerLevel,  \* nsubsteps = SubPerLevel * level (10 in the code)
          Variant       \* "asis" = the code as written; others are seeded design
                        \* bugs used only to show the invariants are not vacuous

VARIABLES pc, level, step, flag, t, rem, tau, base, tmp, ret, logged

vars == <<pc, level, step, flag, t, rem, tau, base, tmp, ret, logged>>

Recoverable   == {-1, -2, -3, -4}      \* cvflag < 0 && cvflag > -5
ResetFlag     == -6                    \* CV_LSETUP_FAIL: restart from ab_init_
Unrecoverable == {-5, -7, -22}         \* representatives of "any other negative flag"
NegFlags      == Recoverable \cup {ResetFlag} \cup Unrecoverable
ReInitFailFlag == -22                  \* CV_ILL_INPUT from CVodeReInit

NSub(lv) == SubPerLevel * lv

TypeOK ==
  /\ pc \in {"call0", "handle", "enter", "reinit", "sub", "ret", "done"}
  /\ level \in 0..MaxLevel /\ step \in 0..NSub(MaxLevel)
  /\ flag \in NegFlags \cup {0}
  /\ t \in 0..T /\ rem \in -T..(2*T) /\ tau \in 0..(3*T) /\ base \in 0..(3*T) /\ tmp \in 0..(3*T)
  /\ ret \in {"none", "SUCCESS", "FAIL"} /\ logged \in BOOLEAN

Init ==
  /\ pc = "call0" /\ level = 0 /\ step = 0 /\ flag = 0
  /\ t = 0 /\ rem = T /\ tau = 0 /\ base = 0 /\ tmp = 0      \* ab_init_ = ab_tmp_ = ab
  /\ ret = "none" /\ logged = FALSE

(* Solve: cvflag = CVode(cv_mem_, dt, cv_y_, &t0, CV_NORMAL) *)
Call0(f, p) ==
  /\ pc = "call0"
  /\ \/ f >= 0 /\ p = T
     \/ f < 0 /\ p \in 0..(T-1)
  /\ flag' = f /\ t' = p /\ tau' = base + p
  /\ pc' = "handle"
  /\ UNCHANGED <<level, step, rem, base, tmp, ret, logged>>

(* HandleError entry: if (cvflag >= 0) return NAUNET_SUCCESS; else level = 1 *)
SetRet(r) == /\ ret' = r /\ pc' = "ret"

Handle ==
  /\ pc = "handle"
  /\ IF flag >= 0
       THEN SetRet("SUCCESS") /\ UNCHANGED level
       ELSE pc' = "enter" /\ level' = 1 /\ UNCHANGED ret
  /\ UNCHANGED <<step, flag, t, rem, tau, base, tmp, logged>>

(* top of the level loop: classify the flag *)
Enter ==
  /\ pc = "enter"
  /\ CASE flag \in Recoverable ->
            /\ tmp' = tau                                     \* ab_tmp_[i] = ab[i]
            /\ rem' = IF Variant = "skip_dt_sub" THEN rem ELSE rem - t   \* dt -= t0
            /\ pc' = "reinit" /\ UNCHANGED ret
       [] flag = ResetFlag ->
            /\ tmp' = 0                                       \* ab_tmp_[i] = ab_init_[i]
            /\ rem' = IF Variant = "reset_keeps_dt" THEN rem ELSE T      \* dt = dt_init
            /\ pc' = "reinit" /\ UNCHANGED ret
       [] OTHER ->
            /\ IF Variant = "swallow_unrecoverable"
                 THEN tmp' = tau /\ rem' = rem - t /\ pc' = "reinit" /\ UNCHANGED ret
                 ELSE SetRet("FAIL") /\ UNCHANGED <<tmp, rem>>
  /\ UNCHANGED <<level, step, flag, t, tau, base, logged>>

(* t0 = 0; ab = ab_tmp_; cvflag = CVodeReInit(cv_mem_, t0, cv_y_); CheckFlag *)
ReInit(ok) ==
  /\ pc = "reinit"
  /\ tau' = tmp /\ base' = tmp /\ t' = 0
  /\ IF ok THEN pc' = "sub" /\ step' = 1 /\ UNCHANGED <<flag, ret>>
           ELSE flag' = ReInitFailFlag /\ SetRet("FAIL") /\ UNCHANGED step
  /\ UNCHANGED <<level, rem, tmp, logged>>

(* one CVode call of the sub-step loop.  `last` says whether its target is rem. *)
SubStep(f, p, last) ==
  /\ pc = "sub"
  /\ flag' = f
  /\ IF f >= 0
       THEN /\ IF last THEN p = rem ELSE p \in t..(rem-1)
            /\ t' = p /\ tau' = base + p
            /\ IF last
                 THEN SetRet("SUCCESS") /\ UNCHANGED <<level, step>>      \* if (cvflag >= 0) return SUCCESS
                 ELSE step' = step + 1 /\ UNCHANGED <<pc, level, ret>>
       ELSE /\ p \in t..(rem-1)                              \* failed before reaching the target
            /\ t' = p /\ tau' = base + p
            /\ IF level < MaxLevel
                 THEN pc' = "enter" /\ level' = level + 1 /\ UNCHANGED <<step, ret>>
                 ELSE IF Variant = "success_after_last_level"
                        THEN SetRet("SUCCESS") /\ UNCHANGED <<level, step>>
                        ELSE SetRet("FAIL") /\ UNCHANGED <<level, step>>
  /\ UNCHANGED <<rem, base, tmp, logged>>

Sub(f, p) == SubStep(f, p, step = NSub(level))

(* Solve: if (flag == NAUNET_FAIL) { ... fprintf ab_init_ ... }; CVodeFree; return flag *)
Return ==
  /\ pc = "ret"
  /\ logged' = IF Variant = "no_log" THEN FALSE ELSE (ret = "FAIL")
  /\ pc' = "done"
  /\ UNCHANGED <<level, step, flag, t, rem, tau, base, tmp, ret>>

Next ==
  \/ \E f \in NegFlags \cup {0}, p \in 0..T : Call0(f, p)
  \/ Handle
  \/ Enter
  \/ \E ok \in BOOLEAN : ReInit(ok)
  \/ \E f \in NegFlags \cup {0}, p \in 0..T : Sub(f, p)
  \/ Return

Spec     == Init /\ [][Next]_vars
FairSpec == Spec /\ WF_vars(Next)

-----------------------------------------------------------------------------
(* The property C19, clause by clause *)

ExactSpan     == ret = "SUCCESS" => tau = T
NoOvershoot   == tau <= T
Remaining     == pc = "sub" => (base + rem = T /\ rem >= 1)      \* the inductive core
SuccessHasGoodFlag == ret = "SUCCESS" => flag >= 0
FailOnBadFlag == (pc \in {"ret", "done"} /\ flag < 0) => ret = "FAIL"
InitialLogged == pc = "done" => (logged <=> ret = "FAIL")
(* an unrecoverable flag is never followed by another integrator call *)
UnrecoverableStops == [][ (pc = "enter" /\ flag \notin Recoverable \cup {ResetFlag}) => pc' = "ret" /\ ret' = "FAIL" ]_vars
(* integrated time only moves forward except at a reset to the initial state *)
NoRewind == [][ tau' >= tau \/ (pc = "reinit" /\ tmp = 0) ]_vars
Terminates == <>(pc = "done")
=============================================================================

------------------------------ MODULE APA_Rates ------------------------------
(***************************************************************************)
(* Rates.tla for EVERY integer temperature and EVERY choice of cut points  *)
(* (TLC enumerates small ranges): three adjacent piecewise fits            *)
(* [c1,c2) [c2,c3) [c3,c4) plus one reaction without window and one with   *)
(* only a lower bound and one with only an upper bound, evaluated at a symbolic temperature t0.  Apalache   *)
(* unrolls the six statements of EvalRates (--length=6) with c1..c4, t0   *)
(* left symbolic:  --cinit=ConstInit --init=Init --next=Next --inv=Inv     *)
(***************************************************************************)
EXTENDS Integers, Sequences, FiniteSets

CONSTANTS
  \* @type: Int;
  c1,
  \* @type: Int;
  c2,
  \* @type: Int;
  c3,
  \* @type: Int;
  c4,
  \* @type: Int;
  t0

VARIABLES
  \* @type: Seq({tmin: Int, tmax: Int, idx: Int});
  R,
  \* @type: Set(Int);
  Mods,
  \* @type: Int;
  T,
  \* @type: Int -> Str;
  k,
  \* @type: Int;
  pos,
  \* @type: Bool;
  reindexed

M == INSTANCE Rates

ConstInit == c1 \in Int /\ c2 \in Int /\ c3 \in Int /\ c4 \in Int /\ t0 \in Int /\ 0 < c1 /\ c1 < c2 /\ c2 < c3 /\ c3 < c4

\* @type: Seq({tmin: Int, tmax: Int, idx: Int});
Net == << [tmin |-> c1, tmax |-> c2, idx |-> 1], [tmin |-> c2, tmax |-> c3, idx |-> 2], [tmin |-> c3, tmax |-> c4, idx |-> 3],
          [tmin |-> -1, tmax |-> -1, idx |-> 4], [tmin |-> c2, tmax |-> 0, idx |-> 5], [tmin |-> 0, tmax |-> c3, idx |-> 6] >>
Init == M!RInit(Net, {}, t0)
Next == M!Assign

Pieces == {1, 2, 3}
Inv ==
  /\ M!OutsideIsZero /\ M!InsideIsLaw /\ M!NoWindowAlwaysActive
  /\ M!Done => /\ Cardinality({i \in Pieces : k[i] = "law"}) = (IF c1 <= t0 /\ t0 < c4 THEN 1 ELSE 0)     \* exactly one piece inside, none outside
               /\ (k[1] = "law") = (c1 <= t0 /\ t0 < c2)                                                  \* boundaries belong to the upper piece
               /\ (k[2] = "law") = (c2 <= t0 /\ t0 < c3)
               /\ k[4] = "law"
               /\ (k[5] = "law") = (t0 >= c2)                                                             \* a zero bound is no bound
               /\ (k[6] = "law") = (t0 < c3)
=============================================================================

----------------------------- MODULE MC_Project -----------------------------
EXTENDS Project, TLC
VARIABLE last
MCInit == PInit /\ last = <<"Start">>
MCNext ==
  \/ \E d \in Descs : InitCmd(d) /\ last' = <<"Init", d>>
  \/ \E d \in Descs : Edit(d) /\ last' = <<"Edit", d>>
  \/ \E f \in BOOLEAN : Render(f) /\ last' = <<"Render", f>>
  \/ RenderPatch /\ last' = <<"RenderPatch">>
  \/ NewCmd /\ last' = <<"New">>
  \/ \E d \in InitRenderDescs, f \in BOOLEAN : InitRender(d, f) /\ last' = <<"InitRender", d, f>>
  \/ \E d \in ExportDescs, ow \in BOOLEAN : Export(d, ow) /\ last' = <<"Export", d, ow>>
MCSpec == MCInit /\ [][MCNext]_<<pvars, last>>
(* an unforced render never changes sources that exist (stated on the command just issued) *)
UnforcedRenderKeeps == [][(last'[1] = "Render" /\ ~last'[2] /\ tree # 0) => tree' = tree]_<<pvars, last>>
(* a second `naunet init` changes nothing at all *)
SecondInitIsInert == [][(last'[1] \in {"Init", "InitRender"} /\ cfg # 0) => UNCHANGED pvars]_<<pvars, last>>
(* an export without overwrite never touches an existing project *)
PlainExportKeeps == [][(last'[1] = "Export" /\ ~last'[3] /\ cfg # 0) => UNCHANGED pvars]_<<pvars, last>>
(* `naunet new` never touches a directory that holds a project *)
NewOnlyIntoEmpty == [][(last'[1] = "New" /\ cfg # 0) => UNCHANGED pvars]_<<pvars, last>>
=============================================================================

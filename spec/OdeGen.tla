------------------------------- MODULE OdeGen -------------------------------
(***************************************************************************)
(* Layer L2: TemplateLoader._prepare_ode_content — the construction of the *)
(* right-hand side, the analytic Jacobian and its CSR form (C01, C02, C03, *)
(* the ODE part of C13; C04 is evaluated on the same state).               *)
(*                                                                         *)
(* A network N (fixed during a behaviour):                                 *)
(*   N.n      number of species slots 0..n-1                               *)
(*   N.th     TRUE iff a temperature equation exists (slot n)              *)
(*   N.R      Seq of reactions [r, p : Seq of slots]  (k[0], k[1], ...)    *)
(*   N.M      Seq of ODE-modifier terms [t : slot, f : factor id,          *)
(*            d : Seq of slots]                                            *)
(*   N.H, N.C Seq of heating / cooling processes [r : Seq of slots]        *)
(*                                                                         *)
(* Polynomials are finite maps  key -> non-zero integer  with              *)
(*   key = << <<kind, index>>, sorted Seq of slots >>,                     *)
(*   kind in {"k","kh","kc","f"}: one rate symbol times a monomial.        *)
(* Rate coefficients are symbols, so equality of polynomials is equality   *)
(* for every abundance vector and every value of the coefficients.         *)
(***************************************************************************)
EXTENDS Integers, Sequences, FiniteSets, FiniteSetsExt, SequencesExt, TLC

VARIABLES N, pc, pos, rhs, jac, touched, wrappedRow

ovars == <<N, pc, pos, rhs, jac, touched, wrappedRow>>

NEq(net)  == IF net.n + (IF net.th THEN 1 ELSE 0) = 0 THEN 1 ELSE net.n + (IF net.th THEN 1 ELSE 0)
Eqs(net)  == 0..(NEq(net) - 1)
TRow(net) == net.n                       \* row of the temperature equation

Sorted(s) == SortSeq(s, <)
DropAt(s, b) == [k \in 1..(Len(s) - 1) |-> IF k < b THEN s[k] ELSE s[k + 1]]
Cnt(s, x) == Cardinality({k \in DOMAIN s : s[k] = x})

EmptyPoly == [k \in {} |-> 0]
(* polynomial of a set of contributions <<tag, key, coef>> (tags keep equal contributions apart) *)
PolyOf(S) ==
  LET K == {c[2] : c \in S}
      co(k) == FoldSet(LAMBDA c, acc : acc + c[3], 0, {c \in S : c[2] = k})
  IN [k \in {x \in K : co(x) # 0} |-> co(k)]
PAdd(p, q) ==
  LET K == DOMAIN p \cup DOMAIN q
      co(k) == (IF k \in DOMAIN p THEN p[k] ELSE 0) + (IF k \in DOMAIN q THEN q[k] ELSE 0)
  IN [k \in {x \in K : co(x) # 0} |-> co(k)]

(* d/dy_j of a polynomial: a monomial with e occurrences of j gives e copies with one occurrence removed *)
FirstPos(s, x) == CHOOSE k \in DOMAIN s : s[k] = x /\ \A m \in DOMAIN s : s[m] = x => k <= m
D(j, p) ==
  PolyOf({ <<k, <<k[1], DropAt(k[2], FirstPos(k[2], j))>>, p[k] * Cnt(k[2], j)>> : k \in {x \in DOMAIN p : Cnt(x[2], j) > 0} })

-----------------------------------------------------------------------------
(* contributions of one reaction, AS CODED: one term per reactant / product occurrence *)
RKey(kind, i, s) == << <<kind, i>>, Sorted(s) >>

RhsContribs(kind, i, r, p, eq) ==          \* `i` is the 0-based index of the rate symbol
     { <<"l", a, RKey(kind, i, r), -1>> : a \in {x \in DOMAIN r : r[x] = eq} }
  \cup { <<"g", a, RKey(kind, i, r), 1>>  : a \in {x \in DOMAIN p : p[x] = eq} }

JacContribs(kind, i, r, p, row, col) ==
     { <<"l", a, b, RKey(kind, i, DropAt(r, b)), -1>> : a \in {x \in DOMAIN r : r[x] = row}, b \in {x \in DOMAIN r : r[x] = col} }
  \cup { <<"g", a, b, RKey(kind, i, DropAt(r, b)), 1>>  : a \in {x \in DOMAIN p : p[x] = row}, b \in {x \in DOMAIN r : r[x] = col} }

Strip4(S) == {<<<<c[1], c[2]>>, c[3], c[4]>> : c \in S}
Strip5(S) == {<<<<c[1], c[2], c[3]>>, c[4], c[5]>> : c \in S}

DeltaRhsReaction(net, rl, eq) == PolyOf(Strip4(RhsContribs("k", rl - 1, net.R[rl].r, net.R[rl].p, eq)))
DeltaJacReaction(net, rl, row, col) == PolyOf(Strip5(JacContribs("k", rl - 1, net.R[rl].r, net.R[rl].p, row, col)))
TouchReaction(net, rl) == (ToSet(net.R[rl].r) \cup ToSet(net.R[rl].p)) \X ToSet(net.R[rl].r)

(* ODE modifier m: + (fact) * prod(deps) on the target; derivative term per dependency occurrence *)
DeltaRhsModifier(net, m, eq) ==
  IF eq = net.M[m].t THEN PolyOf({<<1, RKey("f", net.M[m].f, net.M[m].d), 1>>}) ELSE EmptyPoly
DeltaJacModifier(net, m, row, col) ==
  IF row # net.M[m].t THEN EmptyPoly
  ELSE PolyOf({ <<b, RKey("f", net.M[m].f, DropAt(net.M[m].d, b)), 1>> : b \in {x \in DOMAIN net.M[m].d : net.M[m].d[x] = col} })
TouchModifier(net, m) == {<<net.M[m].t, net.M[m].d[b]>> : b \in DOMAIN net.M[m].d}

(* heating (+) / cooling (-) process h on the temperature row *)
DeltaRhsThermal(net, kind, h, r, eq) ==
  IF eq = TRow(net) THEN PolyOf({<<1, RKey(kind, h - 1, r), IF kind = "kh" THEN 1 ELSE -1>>}) ELSE EmptyPoly
DeltaJacThermal(net, kind, h, r, row, col) ==
  IF row # TRow(net) THEN EmptyPoly
  ELSE PolyOf({ <<b, RKey(kind, h - 1, DropAt(r, b)), IF kind = "kh" THEN 1 ELSE -1>> : b \in {x \in DOMAIN r : r[x] = col} })
TouchThermal(net, r) == {<<TRow(net), r[b]>> : b \in DOMAIN r}

-----------------------------------------------------------------------------
Init0(net) ==
  /\ N = net /\ pc = "reactions" /\ pos = 1
  /\ rhs = [e \in Eqs(net) |-> EmptyPoly]
  /\ jac = [c \in {} |-> EmptyPoly]          \* sparse: defined exactly on the cells some term was appended to
  /\ touched = {} /\ wrappedRow = FALSE

JacAt(c) == IF c \in DOMAIN jac THEN jac[c] ELSE EmptyPoly
Accumulate(es, dr(_), dj(_, _), t) ==      \* es: the equations this step can contribute to
  /\ rhs' = [e \in Eqs(N) |-> IF e \in es THEN PAdd(rhs[e], dr(e)) ELSE rhs[e]]
  /\ jac' = [c \in DOMAIN jac \cup t |-> IF c \in t THEN PAdd(JacAt(c), dj(c[1], c[2])) ELSE jac[c]]
  /\ touched' = touched \cup t

Advance(len, nextpc) ==
  IF pos < len THEN pos' = pos + 1 /\ pc' = pc ELSE pos' = 1 /\ pc' = nextpc

SkipEmpty ==      \* phases with nothing to do
  \/ pc = "reactions" /\ Len(N.R) = 0 /\ pc' = "modifiers" /\ UNCHANGED <<N, pos, rhs, jac, touched, wrappedRow>>
  \/ pc = "modifiers" /\ Len(N.M) = 0 /\ pc' = "heating"   /\ UNCHANGED <<N, pos, rhs, jac, touched, wrappedRow>>
  \/ pc = "heating"   /\ Len(N.H) = 0 /\ pc' = "cooling"   /\ UNCHANGED <<N, pos, rhs, jac, touched, wrappedRow>>
  \/ pc = "cooling"   /\ Len(N.C) = 0 /\ pc' = "wrap"      /\ UNCHANGED <<N, pos, rhs, jac, touched, wrappedRow>>

Reaction ==
  /\ pc = "reactions" /\ pos <= Len(N.R)
  /\ Accumulate(ToSet(N.R[pos].r) \cup ToSet(N.R[pos].p),
                LAMBDA e : DeltaRhsReaction(N, pos, e), LAMBDA a, b : DeltaJacReaction(N, pos, a, b), TouchReaction(N, pos))
  /\ Advance(Len(N.R), "modifiers") /\ UNCHANGED <<N, wrappedRow>>

Modifier ==
  /\ pc = "modifiers" /\ pos <= Len(N.M)
  /\ Accumulate({N.M[pos].t}, LAMBDA e : DeltaRhsModifier(N, pos, e), LAMBDA a, b : DeltaJacModifier(N, pos, a, b), TouchModifier(N, pos))
  /\ Advance(Len(N.M), "heating") /\ UNCHANGED <<N, wrappedRow>>

Heat ==
  /\ pc = "heating" /\ pos <= Len(N.H)
  /\ Accumulate({TRow(N)}, LAMBDA e : DeltaRhsThermal(N, "kh", pos, N.H[pos].r, e),
                LAMBDA a, b : DeltaJacThermal(N, "kh", pos, N.H[pos].r, a, b), TouchThermal(N, N.H[pos].r))
  /\ Advance(Len(N.H), "cooling") /\ UNCHANGED <<N, wrappedRow>>

Cool ==
  /\ pc = "cooling" /\ pos <= Len(N.C)
  /\ Accumulate({TRow(N)}, LAMBDA e : DeltaRhsThermal(N, "kc", pos, N.C[pos].r, e),
                LAMBDA a, b : DeltaJacThermal(N, "kc", pos, N.C[pos].r, a, b), TouchThermal(N, N.C[pos].r))
  /\ Advance(Len(N.C), "wrap") /\ UNCHANGED <<N, wrappedRow>>

(* rhs[n_spec] = (gamma - 1.0) * ( ... ) / kerg / npar, and the same wrapper on the non-zero entries of its Jacobian row *)
Wrap ==
  /\ pc = "wrap" /\ wrappedRow' = N.th /\ pc' = "done"
  /\ UNCHANGED <<N, pos, rhs, jac, touched>>

Next == SkipEmpty \/ Reaction \/ Modifier \/ Heat \/ Cool \/ Wrap

-----------------------------------------------------------------------------
(* the CSR form built from the dense string table: a cell is stored iff any term was ever appended to it *)
RowCells(net, t, row) == SetToSortSeq({c[2] : c \in {x \in t : x[1] = row}}, <)
RECURSIVE CsrRows(_, _, _)
CsrRows(net, t, row) ==    \* <<rowptr, colval>> for rows row..NEq-1 given entries so far
  IF row = NEq(net) THEN <<<<>>, <<>>>>
  ELSE LET rest == CsrRows(net, t, row + 1)
           cs == RowCells(net, t, row)
       IN <<<<Len(cs)>> \o rest[1], cs \o rest[2]>>
Csr(net, t) ==
  LET rc == CsrRows(net, t, 0)
      F[k \in 0..Len(rc[1])] == IF k = 0 THEN 0 ELSE F[k - 1] + rc[1][k]
  IN [rowptr |-> [k \in 1..(Len(rc[1]) + 1) |-> F[k - 1]], colval |-> rc[2], nnz |-> Len(rc[2])]

CsrWellFormed(rowptr, colval, nnz, neq) ==
  /\ Len(rowptr) = neq + 1 /\ rowptr[1] = 0 /\ rowptr[neq + 1] = nnz /\ Len(colval) = nnz
  /\ \A k \in 1..neq : rowptr[k] <= rowptr[k + 1]
  /\ \A k \in 1..nnz : colval[k] \in 0..(neq - 1)
  /\ \A r \in 1..neq : \A a, b \in (rowptr[r] + 1)..rowptr[r + 1] : a < b => colval[a] < colval[b]
CsrCells(rowptr, colval) ==
  UNION { {<<r - 1, colval[k]>> : k \in {x \in 1..Len(colval) : rowptr[r] < x /\ x <= rowptr[r + 1]}} : r \in 1..(Len(rowptr) - 1) }

-----------------------------------------------------------------------------
(* C01: the accumulated right-hand side is the mass-action law *)
Law(net, eq) ==
  LET chem == { <<<<"R", rl>>, RKey("k", rl - 1, net.R[rl].r), Cnt(net.R[rl].p, eq) - Cnt(net.R[rl].r, eq)>> : rl \in DOMAIN net.R }
      modi == { <<<<"M", m>>, RKey("f", net.M[m].f, net.M[m].d), IF net.M[m].t = eq THEN 1 ELSE 0>> : m \in DOMAIN net.M }
      heat == { <<<<"H", h>>, RKey("kh", h - 1, net.H[h].r), IF net.th /\ eq = TRow(net) THEN 1 ELSE 0>> : h \in DOMAIN net.H }
      cool == { <<<<"C", h>>, RKey("kc", h - 1, net.C[h].r), IF net.th /\ eq = TRow(net) THEN -1 ELSE 0>> : h \in DOMAIN net.C }
  IN PolyOf(chem \cup modi \cup heat \cup cool)
RhsIsMassAction == pc = "done" => \A e \in Eqs(N) : rhs[e] = Law(N, e)
UnreactiveIsZero == pc = "done" => \A e \in 0..(N.n - 1) :
     (\A rl \in DOMAIN N.R : e \notin ToSet(N.R[rl].r) \cup ToSet(N.R[rl].p)) /\ (\A m \in DOMAIN N.M : N.M[m].t # e) => rhs[e] = EmptyPoly
(* C02: the accumulated Jacobian is the derivative of the accumulated right-hand side; omitted cells are zero *)
JacIsDerivative == pc = "done" => \A c \in Eqs(N) \X Eqs(N) : JacAt(c) = D(c[2], rhs[c[1]])
OmittedIsZero   == pc = "done" => \A c \in (Eqs(N) \X Eqs(N)) \ touched : D(c[2], rhs[c[1]]) = EmptyPoly
(* C03: the CSR form of the touched cells is well formed *)
CsrOK == pc = "done" => LET c == Csr(N, touched) IN CsrWellFormed(c.rowptr, c.colval, c.nnz, NEq(N)) /\ CsrCells(c.rowptr, c.colval) = touched
(* C04: with per-species weights w (element counts or charge), a balanced network conserves the weighted sum *)
Balanced(net, w) == \A rl \in DOMAIN net.R :
   FoldSet(LAMBDA k, acc : acc + w[net.R[rl].r[k] + 1], 0, DOMAIN net.R[rl].r) = FoldSet(LAMBDA k, acc : acc + w[net.R[rl].p[k] + 1], 0, DOMAIN net.R[rl].p)
WeightedRhs(net, w) ==
  LET S == UNION { {<<<<e, k>>, k, w[e + 1] * rhs[e][k]>> : k \in DOMAIN rhs[e]} : e \in 0..(net.n - 1) } IN PolyOf(S)
ChemOnly(p) == [k \in {x \in DOMAIN p : x[1][1] = "k"} |-> p[k]]
Conserves(net, w) == ChemOnly(WeightedRhs(net, w)) = EmptyPoly
=============================================================================

---------------------------- MODULE PatchSpecies ----------------------------
(***************************************************************************)
(* Species bookkeeping of the simulation-code patch (naunet/patches.py,    *)
(* EnzoPatch.render): the host code predefines a fixed list of species     *)
(* (Enzo), a sub-list of which the cooling library also carries (Grackle). *)
(* A network species that IS one of the predefined ones -- whatever its    *)
(* spelling -- reuses the predefined field; every other network species    *)
(* gets exactly one new field type, numbered contiguously from Base; the   *)
(* species count of the patched code is |network U Grackle| - 1 (the       *)
(* electron is not advected as a species).                                 *)
(*                                                                         *)
(* A species is a record [c |-> class, s |-> spelling]; classes are those  *)
(* of Species.__eq__ (e-, E and E- are one class).  C09: "two spellings of *)
(* the same species never yield two slots ... the per-species tables of a  *)
(* rendered simulation-code patch".                                        *)
(***************************************************************************)
EXTENDS Naturals, Sequences, FiniteSets

CONSTANTS EnzoC,      \* classes predefined by the host code
          GrackleC,   \* classes the cooling library carries (subset of EnzoC)
          Canon,      \* [class -> the spelling under which the host code lists it]
          Base,       \* number of the first new field type (104 in the template)
          SVariant    \* "asis" | "by_name" (seeded: predefined species recognised by spelling)

VARIABLES net, fields, nspecies, undefined
pvars2 == <<net, fields, nspecies, undefined>>

Classes(S) == {x.c : x \in S}
Predefined(x) == IF SVariant = "by_name" THEN x.c \in EnzoC /\ x.s = Canon[x.c] ELSE x.c \in EnzoC
InGrackle(x) == IF SVariant = "by_name" THEN x.c \in GrackleC /\ x.s = Canon[x.c] ELSE x.c \in GrackleC

SInit == net = <<>> /\ fields = <<>> /\ nspecies = 0 /\ undefined = Base

(* render the patch for the network whose species, in index order, are ns (one entry per class: C09's own subject) *)
RenderPatch(ns) ==
  /\ net' = ns
  /\ fields' = SelectSeq(ns, LAMBDA x : ~Predefined(x))
  /\ nspecies' = Len(ns) + Cardinality(GrackleC) - Cardinality({k \in DOMAIN ns : InGrackle(ns[k])}) - 1
  /\ undefined' = Base + Len(SelectSeq(ns, LAMBDA x : ~Predefined(x)))

NetSet == {net[k] : k \in DOMAIN net}
FieldSet == {fields[k] : k \in DOMAIN fields}
(* no new field for a species the host code already has, whatever it is called in the network *)
NoFieldForPredefinedClass == \A f \in FieldSet : f.c \notin EnzoC
(* every other species has exactly one field, in index order *)
OneFieldPerOtherSpecies == fields = SelectSeq(net, LAMBDA x : x.c \notin EnzoC)
(* the patched code counts every species of the union once, minus the electron *)
CountIsUnion == net # <<>> => nspecies = Cardinality(Classes(NetSet) \cup GrackleC) - 1
FieldNumbersContiguous == undefined = Base + Len(fields)
=============================================================================

--------------------------- MODULE MC_PatchSpecies ---------------------------
(* classes 1 (electron), 2, 3 predefined, 1 and 2 in the cooling library, 4 and 5 foreign; spelling 0 = canonical, 1 = another one *)
EXTENDS PatchSpecies
MCEnzo == {1, 2, 3}
MCGrackle == {1, 2}
MCCanon == [c \in 1..5 |-> 0]
Spec1 == {[c |-> c, s |-> s] : c \in 1..5, s \in {0, 1}}
(* networks: sequences without a repeated class *)
Nets == UNION {{q \in [1..n -> Spec1] : \A i, j \in 1..n : i # j => q[i].c # q[j].c} : n \in 1..3}
MCNext == \E ns \in Nets : RenderPatch(ns)
MCSpec == SInit /\ [][MCNext]_pvars2
=============================================================================

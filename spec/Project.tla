------------------------------ MODULE Project ------------------------------
(***************************************************************************)
(* A naunet project directory over its life: `naunet init`, hand edits of  *)
(* naunet_config.toml, `naunet render` with and without --force, `naunet   *)
(* render --patch`, a second `naunet init`, and `Network.export` into the   *)
(* same directory (with and without overwrite=True), and `naunet new`     *)
(* (a blank project: no network files, an empty network).  Extends C20 ("what *)
(* is configured is what is rendered") from one init+render to histories.  *)
(*                                                                         *)
(*   cfg     the network description currently in naunet_config.toml       *)
(*           (an id from Descs; 0 = no project yet)                        *)
(*   tree    the description the files under include/ src/ python/ were    *)
(*           generated from (0 = nothing rendered yet)                     *)
(*   summ    the description the [summary] table of the configuration file *)
(*           was computed from (0 = no summary)                            *)
(*   patch   the description the patch directory was generated from        *)
(*                                                                         *)
(* The commands run non-interactively: a confirmation question is answered *)
(* with its default ("no"), as cleo does without a terminal.               *)
(***************************************************************************)
EXTENDS Naturals

CONSTANTS Descs,       \* set of description ids (positive naturals)
          ExportDescs, \* the descriptions an EXPORTED project can hold (its network file is the native reactions.naunet)
          GpuDescs,    \* the descriptions whose solver runs on the gpu device (their sources are other FILES: *.cu)
          BlankDescs,  \* the descriptions a BLANK project (`naunet new`: no network files, the empty network) can hold
          InitRenderDescs, \* the descriptions `naunet init ... --render` reaches by command-line options alone (a subset of InitDescs)
          NewDesc,     \* the description `naunet new` writes (the defaults of BaseConfiguration), a member of BlankDescs
          PVariant     \* "asis" | seeded design variants
InitDescs == (Descs \ ExportDescs) \ BlankDescs
SameKind(a, b) == (a \in ExportDescs) = (b \in ExportDescs) /\ (a \in BlankDescs) = (b \in BlankDescs)
(* a directory is not re-purposed for another device here: the old device's source files would stay next to the new ones *)
SameDevice(a, b) == (a \in GpuDescs) = (b \in GpuDescs)

VARIABLES cfg, tree, summ, patch
pvars == <<cfg, tree, summ, patch>>

PInit == cfg = 0 /\ tree = 0 /\ summ = 0 /\ patch = 0

(* naunet init <options of d>   (no --render) *)
InitCmd(d) ==
  /\ d \in InitDescs
  /\ IF cfg = 0 \/ PVariant = "init_overwrites"
       THEN cfg' = d /\ summ' = 0
       ELSE UNCHANGED <<cfg, summ>>          \* "Project configure file exists. Overwrite?" -> no -> exit
  /\ UNCHANGED <<tree, patch>>

(* naunet init <options of d> --render [--render-force]: ONE command that configures and then calls `render` on what it has just written;
   refused as a whole (nothing rendered either) when a configuration file is already there *)
InitRender(d, force) ==
  /\ d \in InitRenderDescs
  /\ IF cfg = 0 \/ PVariant = "init_render_overwrites"
       THEN /\ cfg' = d
            /\ IF tree = 0 \/ force THEN tree' = d /\ summ' = d ELSE UNCHANGED <<tree, summ>>
       ELSE UNCHANGED <<cfg, tree, summ>>
  /\ UNCHANGED patch

(* naunet new <dir>: a blank project, only into a directory that does not exist or is empty (anything else: RuntimeError, nothing
   touched).  The directory of this model is non-empty exactly when something was configured, rendered or patched. *)
NewCmd ==
  /\ IF (cfg = 0 /\ tree = 0 /\ patch = 0) \/ PVariant = "new_overwrites"
       THEN cfg' = NewDesc /\ summ' = 0       \* (the [summary] table of a blank project is all-empty, which is what "no summary" looks like)
       ELSE UNCHANGED <<cfg, summ>>
  /\ UNCHANGED <<tree, patch>>

(* the user edits the chemistry / solver tables of the configuration file; the [summary] table, if any, stays as it is *)
Edit(d) == cfg # 0 /\ d \in Descs /\ SameKind(d, cfg) /\ SameDevice(d, cfg) /\ cfg' = d /\ UNCHANGED <<tree, summ, patch>>

(* naunet render [--force]: refuses to touch non-empty directories unless forced *)
Render(force) ==
  /\ cfg # 0
  /\ IF tree = 0 \/ force \/ PVariant = "render_always"
       THEN /\ tree' = cfg
            /\ summ' = IF PVariant = "summary_once" /\ summ # 0 THEN summ ELSE cfg
       ELSE UNCHANGED <<tree, summ>>
  /\ UNCHANGED <<cfg, patch>>

(* naunet render --patch=<code>: writes the patch directory only *)
RenderPatch ==
  /\ cfg # 0
  /\ patch' = cfg
  /\ IF PVariant = "patch_renders_all" THEN tree' = cfg /\ summ' = cfg ELSE UNCHANGED <<tree, summ>>
  /\ UNCHANGED cfg

(* Network.export(name, ..., overwrite=ow) of a network with description d: a new directory gets the network file, the configuration
   (with its summary) and the sources of d; an existing one is left alone unless overwrite is set, and then ALL of them are replaced *)
Export(d, ow) ==
  /\ d \in ExportDescs
  /\ cfg = 0 \/ ~ow \/ SameDevice(d, cfg)
  /\ IF cfg = 0 \/ ow
       THEN IF PVariant = "export_keeps_config" /\ cfg # 0
              THEN tree' = d /\ UNCHANGED <<cfg, summ>>
              ELSE cfg' = d /\ tree' = d /\ summ' = d
       ELSE UNCHANGED <<cfg, tree, summ>>
  /\ UNCHANGED patch

PNext == (\E d \in Descs : InitCmd(d) \/ Edit(d)) \/ NewCmd \/ (\E d \in InitRenderDescs, f \in BOOLEAN : InitRender(d, f)) \/ (\E f \in BOOLEAN : Render(f)) \/ RenderPatch
           \/ (\E d \in ExportDescs, ow \in BOOLEAN : Export(d, ow))
PSpec == PInit /\ [][PNext]_pvars

-----------------------------------------------------------------------------
TypeOK == cfg \in Descs \cup {0} /\ tree \in Descs \cup {0} /\ summ \in Descs \cup {0} /\ patch \in Descs \cup {0}
(* the summary written into the configuration file always describes the sources that are on disk *)
SummaryDescribesSources == summ = tree
(* nothing is rendered from a description that was never configured, and a project is never un-configured *)
ConfiguredOnce == [][cfg # 0 => cfg' # 0]_pvars
(* sources only ever change to the description that is configured at that moment *)
RenderedFromCurrentConfig == [][tree' # tree => tree' = cfg']_pvars
(* a configuration is replaced either with nothing else (a hand edit) or together with sources and summary (an overwriting export) *)
InitNeverOverwrites == [][(cfg # 0 /\ cfg' # cfg) => (UNCHANGED <<tree, summ, patch>> \/ (tree' = cfg' /\ summ' = cfg'))]_pvars
(* the patch command leaves the sources alone: only stated as a step property of the action itself *)
PatchLeavesSources == [][(patch' # patch) => UNCHANGED <<tree, summ>>]_pvars
=============================================================================

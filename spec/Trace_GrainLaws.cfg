SPECIFICATION TSpec
CONSTRAINT Track
POSTCONDITION Verdicts
CHECK_DEADLOCK FALSE

---- MODULE MC_Rates ----
EXTENDS Rates
CONSTANTS MaxT, MaxN
Bounds == {-1, 0, 2, 4, 6}
Idx == {-1, 5, 7}
Reacs == [tmin : Bounds, tmax : Bounds, idx : Idx]
SeqsUpTo(S, n) == UNION {[1..m -> S] : m \in 1..n}
ModSets == { {}, {5}, {0, 7}, {1, 9} }
MInit == \E rs \in SeqsUpTo(Reacs, MaxN), mods \in ModSets, t \in 0..MaxT : RInit(rs, mods, t)
MSpec == MInit /\ [][Assign]_rvars
====

CONSTANTS
  T = 3
  MaxLevel = 5
  SubPerLevel = 2
  Variant = "asis"
SPECIFICATION FairSpec
PROPERTY Terminates
CHECK_DEADLOCK FALSE

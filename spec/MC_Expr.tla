---- MODULE MC_Expr ----
EXTENDS Expr
VARIABLE t
Leaves == {<<"num", "2">>, <<"num", "3">>, <<"var", "Tgas">>, <<"ab", "H">>}
Ops == {"+", "-", "*", "/", "**"}
D1 == Leaves \cup {<<"bin", op, a, b>> : op \in Ops, a \in Leaves, b \in Leaves} \cup {<<"neg", a>> : a \in Leaves} \cup {<<"call", "exp", a>> : a \in Leaves}
D2 == D1 \cup {<<"bin", op, a, b>> : op \in Ops, a \in D1, b \in D1} \cup {<<"neg", a>> : a \in D1}
Alias == [s \in {"H"} |-> "IDX_HI"]
Init == t \in D2
Next == UNCHANGED t
SameValue == Evaluable(t) => EvalC(Translate(t, Alias)) = EvalF(t)
====

----------------------------- MODULE RoundTrip -----------------------------
(***************************************************************************)
(* Layer L1/L2: Network.write(native) / read back, twice, and export +     *)
(* re-render (C18).  A reaction is a record of field VALUES; Write prints  *)
(* each numeric value with the precision of the native format, Read takes  *)
(* the printed value.  Pr is the printing function on values (rounding to  *)
(* the printed precision): the format is faithful iff Pr is idempotent,    *)
(* which is what makes a second cycle reproduce the first file.            *)
(***************************************************************************)
EXTENDS Integers, Sequences, FiniteSets, TLC

CONSTANTS Variant        \* "asis" (repaired) | "source_keeps_newline"

VARIABLES Pr, net, file1, net2, file2, net3, pc, modified
tvars == <<Pr, net, file1, net2, file2, net3, pc, modified>>

SeqBag(s) == [x \in {s[k] : k \in DOMAIN s} |-> Cardinality({k \in DOMAIN s : s[k] = x})]

(* Reaction.__format__("naunet") *)
WriteR(r) == [idx |-> r.idx, r |-> SeqBag(r.r), p |-> SeqBag(r.p), a |-> Pr[r.a], b |-> Pr[r.b], c |-> Pr[r.c],
              tmin |-> Pr[r.tmin], tmax |-> Pr[r.tmax], ty |-> r.ty, src |-> r.src]
(* Reaction._parse_string *)
ReadR(w) == [idx |-> w.idx, r |-> w.r, p |-> w.p, a |-> w.a, b |-> w.b, c |-> w.c, tmin |-> w.tmin, tmax |-> w.tmax, ty |-> w.ty,
             src |-> IF Variant = "source_keeps_newline" THEN w.src \o "+newline" ELSE w.src]
(* a reaction that was read back, written again: its reactant lists are already bags *)
WriteR2(r) == [idx |-> r.idx, r |-> r.r, p |-> r.p, a |-> Pr[r.a], b |-> Pr[r.b], c |-> Pr[r.c],
               tmin |-> Pr[r.tmin], tmax |-> Pr[r.tmax], ty |-> r.ty, src |-> r.src]

(* Network.write(..., "krome") followed by the KROME reader: the copy keeps index, species with multiplicity and the window (printed with
   two decimals); the rate law travels as a Fortran expression (judged numerically by the driver), type and coefficients do not travel *)
KromeCopy(n) == [k \in DOMAIN n |-> [idx |-> n[k].idx, r |-> SeqBag(n[k].r), p |-> SeqBag(n[k].p), tmin |-> Pr[n[k].tmin], tmax |-> Pr[n[k].tmax]]]

TInit0(pr, n) == Pr = pr /\ net = n /\ file1 = <<>> /\ net2 = <<>> /\ file2 = <<>> /\ net3 = <<>> /\ pc = "write1" /\ modified = FALSE

Write1 == pc = "write1" /\ file1' = [k \in DOMAIN net |-> WriteR(net[k])] /\ pc' = "read1" /\ UNCHANGED <<Pr, net, net2, file2, net3, modified>>
Read1  == pc = "read1"  /\ net2' = [k \in DOMAIN file1 |-> ReadR(file1[k])] /\ pc' = "write2" /\ UNCHANGED <<Pr, net, file1, file2, net3, modified>>
(* the network that was read back is edited through the API before it is written again: a coefficient of reaction k is set
   to the value v (a text in the domain of Pr) and / or the network is re-indexed *)
Modify(k, v, reidx) ==
  /\ pc = "write2" /\ k \in DOMAIN net2 /\ v \in DOMAIN Pr
  /\ net2' = [j \in DOMAIN net2 |-> [net2[j] EXCEPT !.a = IF j = k THEN v ELSE @, !.idx = IF reidx THEN j - 1 ELSE @]]
  /\ modified' = TRUE
  /\ UNCHANGED <<Pr, net, file1, file2, net3, pc>>
Write2 == pc = "write2" /\ file2' = [k \in DOMAIN net2 |-> WriteR2(net2[k])] /\ pc' = "read2" /\ UNCHANGED <<Pr, net, file1, net2, net3, modified>>
Read2  == pc = "read2"  /\ net3' = [k \in DOMAIN file2 |-> ReadR(file2[k])] /\ pc' = "done" /\ UNCHANGED <<Pr, net, file1, net2, file2, modified>>
TNext0 == Write1 \/ Read1 \/ Write2 \/ Read2 \/ (\E k \in DOMAIN net2, v \in DOMAIN Pr, b \in BOOLEAN : ~modified /\ Modify(k, v, b))

Idempotent(f) == \A x \in DOMAIN f : f[x] \in DOMAIN f /\ f[f[x]] = f[x]
(* C18, first half *)
ReadWriteId == (pc \in {"write2", "read2", "done"} /\ ~modified) =>
     /\ Len(net2) = Len(net)
     /\ \A k \in DOMAIN net : /\ net2[k].r = SeqBag(net[k].r) /\ net2[k].p = SeqBag(net[k].p)
                              /\ net2[k].a = Pr[net[k].a] /\ net2[k].b = Pr[net[k].b] /\ net2[k].c = Pr[net[k].c]
                              /\ net2[k].tmin = Pr[net[k].tmin] /\ net2[k].tmax = Pr[net[k].tmax]
                              /\ net2[k].ty = net[k].ty /\ net2[k].idx = net[k].idx /\ net2[k].src = net[k].src
SecondCycleIdempotent == pc = "done" => (Idempotent(Pr) => ((~modified => file2 = file1) /\ net3 = [k \in DOMAIN net2 |-> ReadR(WriteR2(net2[k]))]))
(* an edit made through the API is what the next file holds *)
EditsAreWritten == pc \in {"read2", "done"} => file2 = [k \in DOMAIN net2 |-> WriteR2(net2[k])]
=============================================================================

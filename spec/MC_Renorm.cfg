CONSTANTS
  Variant = "asis"
SPECIFICATION MSpec
CONSTRAINT Bound2
INVARIANT StaticOK
INVARIANT Lemma
INVARIANT Identity
INVARIANT ReferenceSurvives
PROPERTY RenormRestores
CHECK_DEADLOCK FALSE

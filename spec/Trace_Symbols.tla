---------------------------- MODULE Trace_Symbols ----------------------------
(* One trace per rendered project (format mix x grain model x back-end).  Header: the symbol registries of the REAL component
   objects in template order (public state, read from outside).  Events: one per translation unit / function: the
   declarations found in the emitted text in order (name + identifiers its initialiser uses), the identifiers of every
   statement that follows, the unit's globals (builtins, helper functions and constants the headers declare, index macros),
   which component groups the unit is declared from; finally what g++ -fsyntax-only said about the rendered sources. *)
EXTENDS Symbols, Json, IOUtils, TLCExt
VARIABLES tid, l
JTrace == JsonDeserialize(IOEnv.TRACE_FILE)
Traces == JTrace.traces
NT     == Len(Traces)
Ev     == Traces[tid].ev[l]
ASSUME \A i \in 1..NT : TLCSet(i, 0)
Chk(nm, c) == IF c THEN TRUE ELSE PrintT(<<"MISMATCH", Traces[tid].tid, l, nm>>) /\ FALSE
TInit == tid \in 1..NT /\ l = 1
IsEv(a) == l <= Len(Traces[tid].ev) /\ Ev.act = a /\ l' = l + 1 /\ UNCHANGED tid
CompsOf(groups) == LET all == Traces[tid].comps IN SelectSeq(all, LAMBDA c : c.group \in ToSetOf(groups))
Regs(groups) == [k \in DOMAIN CompsOf(groups) |-> CompsOf(groups)[k].reg]
TUnit ==
  /\ IsEv("Unit")
  /\ LET params == Syms(Merge(Regs(Ev.groups), "param"))
         deriv  == Syms(Merge(Regs(Ev.groups), "derived"))
         names  == [k \in DOMAIN Ev.decls |-> Ev.decls[k].name]
         glob   == ToSetOf(Ev.globals) \cup ToSetOf(JTrace.builtins)
     IN /\ Chk("DeclaredOnce", Distinct(names))
        /\ Chk("DeclarationsAreTheMergedRegistry", names = params \o deriv)
        /\ Chk("DeclaredBeforeUse", Closed(Ev.decls, Ev.stmts, glob))
TData ==
  /\ IsEv("Data")
  /\ Chk("DataFieldsAreAllParameters", Ev.fields = Syms(Merge(Regs(Ev.groups), "param")))
  /\ Chk("DeclaredOnce", Distinct(Ev.fields))
TConst ==
  /\ IsEv("Constants")
  /\ Chk("ConstantsDeclaredOnce", Distinct(Ev.declared))
  /\ Chk("MergedConstantsDeclared", ToSetOf(Syms(Merge(Regs(Ev.groups), "constant"))) \subseteq ToSetOf(Ev.declared))
  /\ Chk("ConstantsDefinedWhereDeclared", ToSetOf(Ev.declared) = ToSetOf(Ev.defined))
TCompile ==
  /\ IsEv("Compile")
  /\ Chk("CompilesWithoutUndeclaredOrRedefinedNames", Ev.undeclared = <<>> /\ Ev.redefined = <<>>)
TNext == TUnit \/ TData \/ TConst \/ TCompile
TSpec == TInit /\ [][TNext]_<<tid, l>>
Track == TLCSet(tid, IF l > TLCGet(tid) THEN l ELSE TLCGet(tid))
Verdicts == \A i \in 1..NT : PrintT(<<"VERDICT", Traces[i].tid, TLCGet(i), Len(Traces[i].ev) + 1>>)
=============================================================================

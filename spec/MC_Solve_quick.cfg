CONSTANTS
  T = 4
  MaxLevel = 5
  SubPerLevel = 2
  Variant = "asis"
SPECIFICATION Spec
INVARIANT TypeOK
INVARIANT ExactSpan
INVARIANT NoOvershoot
INVARIANT Remaining
INVARIANT SuccessHasGoodFlag
INVARIANT FailOnBadFlag
INVARIANT InitialLogged
PROPERTY UnrecoverableStops
PROPERTY NoRewind
CHECK_DEADLOCK FALSE

------------------------------ MODULE APA_Solve ------------------------------
(***************************************************************************)
(* Unbounded safety of Solve.tla with Apalache: an inductive invariant     *)
(* for EVERY requested interval T >= 1 (TLC explores fixed small T).       *)
(*   1. Init => IndInv                  --init=Init    --inv=IndInv  --length=0 *)
(*   2. IndInv /\ Next => IndInv'       --init=IndInit --inv=IndInv  --length=1 *)
(*   3. IndInv => the clauses of C19    --init=IndInit --inv=Clauses --length=0 *)
(*   4. the step clauses from IndInv    --init=IndInit --inv=StepClauses --length=1 *)
(* The ladder constants are the code's (5 levels, 10 sub-steps per level). *)
(***************************************************************************)
EXTENDS Integers

CONSTANT
  \* @type: Int;
  T

VARIABLES
  \* @type: Str;
  pc,
  \* @type: Int;
  level,
  \* @type: Int;
  step,
  \* @type: Int;
  flag,
  \* @type: Int;
  t,
  \* @type: Int;
  rem,
  \* @type: Int;
  tau,
  \* @type: Int;
  base,
  \* @type: Int;
  tmp,
  \* @type: Str;
  ret,
  \* @type: Bool;
  logged

S == INSTANCE Solve WITH MaxLevel <- 5, SubPerLevel <- 10, Variant <- "asis"

ConstInit == T \in Int /\ T >= 1

Init == S!Init
Next == S!Next

NegF == {-1, -2, -3, -4, -5, -6, -7, -22}

IndInv ==
  /\ pc \in {"call0", "handle", "enter", "reinit", "sub", "ret", "done"}
  /\ ret \in {"none", "SUCCESS", "FAIL"}
  /\ flag \in NegF \cup {0}
  /\ level \in 0..5 /\ step \in 0..50
  /\ t >= 0 /\ tau = base + t /\ tau <= T /\ base >= 0 /\ tmp >= 0
  /\ (pc \in {"call0", "handle", "enter", "reinit", "sub"}) => ret = "none"
  /\ pc = "call0"  => (base = 0 /\ rem = T /\ t = 0 /\ tmp = 0)
  /\ pc = "handle" => (base = 0 /\ rem = T /\ tmp = 0 /\ (flag >= 0 => t = T) /\ (flag < 0 => t <= T - 1))
  /\ pc = "enter"  => (flag < 0 /\ base + rem = T /\ t <= rem - 1 /\ level \in 1..5)
  /\ pc = "reinit" => (tmp + rem = T /\ rem >= 1 /\ level \in 1..5 /\ flag < 0 /\ (tmp = tau \/ tmp = 0))
  /\ pc = "sub"    => (base + rem = T /\ rem >= 1 /\ t <= rem - 1 /\ level \in 1..5 /\ step \in 1..(10 * level))
  /\ pc \in {"ret", "done"} => /\ ret # "none"
                               /\ (ret = "SUCCESS" => (flag >= 0 /\ tau = T))
                               /\ (ret = "FAIL" => flag < 0)
  /\ pc = "done" => (logged <=> ret = "FAIL")
  /\ pc # "done" => logged = FALSE

IndInit ==
  /\ pc \in {"call0", "handle", "enter", "reinit", "sub", "ret", "done"}
  /\ ret \in {"none", "SUCCESS", "FAIL"}
  /\ logged \in BOOLEAN
  /\ level \in Int /\ step \in Int /\ flag \in Int /\ t \in Int /\ rem \in Int /\ tau \in Int /\ base \in Int /\ tmp \in Int
  /\ IndInv

(* the clauses of C19 that are state predicates *)
Clauses ==
  /\ S!ExactSpan /\ S!NoOvershoot /\ S!Remaining /\ S!SuccessHasGoodFlag /\ S!FailOnBadFlag /\ S!InitialLogged

(* the clauses of C19 that are step predicates (action invariants: evaluated on every transition out of an IndInv state) *)
StepClauses ==
  /\ (pc = "enter" /\ flag \notin {-1, -2, -3, -4, -6}) => (pc' = "ret" /\ ret' = "FAIL")      \* S!UnrecoverableStops
  /\ (tau' >= tau \/ (pc = "reinit" /\ tmp = 0))                                              \* S!NoRewind
=============================================================================

---- MODULE MC_Symbols ----
EXTENDS Symbols
VARIABLES regs, steps
Names == {"n1", "n2"}
SymsU == {"x", "y"}
Ent == [name : Names, sym : SymsU, val : {"1", "2"}, ty : {"param", "derived"}]
Init == regs = << <<>>, <<>> >> /\ steps = 0
Next == /\ steps < 4 /\ steps' = steps + 1
        /\ \E c \in 1..2 : \/ \E e \in Ent, f \in BOOLEAN : regs' = [regs EXCEPT ![c] = Register(@, e, f)]
                           \/ \E nm \in Names : regs' = [regs EXCEPT ![c] = Unregister(@, nm)]
Spec == Init /\ [][Next]_<<regs, steps>>
NamesUniquePerRegistry == \A c \in 1..2 : Distinct([k \in DOMAIN regs[c] |-> regs[c][k].name])
MergedSymbolsUnique == \A ty \in {"param", "derived"} : Distinct(Syms(Merge(regs, ty)))
MergeCoversAll == \A ty \in {"param", "derived"} : ToSetOf(Syms(Merge(regs, ty))) = {regs[c][k].sym : c \in 1..2, k \in {x \in DOMAIN regs[1] \cup DOMAIN regs[2] : FALSE}} \cup UNION {{regs[c][k].sym : k \in {x \in DOMAIN regs[c] : regs[c][x].ty = ty}} : c \in 1..2}
LastWriterWins == \A ty \in {"param", "derived"} : \A k \in DOMAIN Merge(regs, ty) :
     LET s == Merge(regs, ty)[k][1]
         last == IF \E j \in DOMAIN OfType(regs[2], ty) : OfType(regs[2], ty)[j].sym = s THEN OfType(regs[2], ty) ELSE OfType(regs[1], ty)
         lastk == CHOOSE j \in DOMAIN last : last[j].sym = s /\ \A m \in DOMAIN last : last[m].sym = s => m <= j
     IN Merge(regs, ty)[k][2] = last[lastk].val
====

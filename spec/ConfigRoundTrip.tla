--------------------------- MODULE ConfigRoundTrip ---------------------------
(***************************************************************************)
(* Layer L1/L2: naunet init -> naunet_config.toml -> naunet render ->      *)
(* Network(...) / TemplateLoader(...) (C20).  An option value is a         *)
(* sequence of TOKENS; a token has a shape:                                *)
(*   "plain"  text without separators or outer blanks                      *)
(*   "padded" the same text with blanks around it (the CLI strips them)    *)
(*   "inner"  text with a blank inside (kept)                              *)
(*   "empty"  nothing between two separators (dropped)                     *)
(*   "number" a Python number, not a text (only the Python entry has them) *)
(* Requested[opt] is the token sequence the user typed for option opt.     *)
(* The four stages are actions; the description that reaches Network(...)  *)
(* must be the normalised request.  There are two ENTRIES: the command     *)
(* line (`naunet init`: split, strip, drop) and the Python classes         *)
(* (BaseConfiguration / NetworkConfiguration, as Network.export and        *)
(* scripts use them: nothing is split or stripped, what is given is what   *)
(* is written).                                                            *)
(***************************************************************************)
EXTENDS Integers, Sequences, TLC

CONSTANTS Variant      \* "asis" (repaired) | "bulk_key_typo" | "keep_padding" | "numbers_shortened"

VARIABLES req, parsed, toml, args, pc, entry
cvars == <<req, parsed, toml, args, pc, entry>>

ListOpts  == {"elements", "pseudo_elements", "allowed", "required", "files", "formats", "heating", "cooling"}
TableOpts == {"replacement", "binding", "yield", "shielding", "rate_modifier", "ode_modifier"}   \* (an ODE-modifier token = species, position, factor and the dependency LIST with its repeats)
ScalarOpts == {"surface", "bulk", "grain", "grain_model", "solver", "device", "method"}

Norm(tok) == [shape |-> IF tok.shape = "padded" /\ Variant # "keep_padding" THEN "plain" ELSE tok.shape, id |-> tok.id]
Kept(s) == SelectSeq(s, LAMBDA t : t.shape # "empty")
Expected(r) == [o \in DOMAIN r |-> IF o \in ScalarOpts THEN r[o] ELSE [k \in DOMAIN Kept(r[o]) |-> Norm(Kept(r[o])[k])]]

CInit(r) == req = r /\ parsed = <<>> /\ toml = <<>> /\ args = <<>> /\ pc = "init" /\ entry = "none"
(* InitCommand.handle: split on the separator, strip, drop empties *)
InitParse == pc = "init" /\ parsed' = Expected(req) /\ pc' = "content" /\ entry' = "cli" /\ UNCHANGED <<req, toml, args>>
(* BaseConfiguration(...) called from Python with values *)
DirectWrite == pc = "init" /\ parsed' = req /\ pc' = "content" /\ entry' = "python" /\ UNCHANGED <<req, toml, args>>
Shortened(d) == [o \in DOMAIN d |-> [k \in DOMAIN d[o] |-> IF d[o][k].shape = "number" THEN [shape |-> "plain", id |-> 0] ELSE d[o][k]]]
(* BaseConfiguration.content *)
Content == /\ pc = "content"
           /\ toml' = IF Variant = "bulk_key_typo" THEN [parsed EXCEPT !["bulk"] = <<[shape |-> "plain", id |-> 0]>>]
                      ELSE IF Variant = "numbers_shortened" THEN Shortened(parsed) ELSE parsed
           /\ pc' = "render" /\ UNCHANGED <<req, parsed, args, entry>>
(* RenderCommand.handle: read the TOML, build the keyword arguments *)
RenderRead == pc = "render" /\ args' = toml /\ pc' = "done" /\ UNCHANGED <<req, parsed, toml, entry>>
CNext == InitParse \/ DirectWrite \/ Content \/ RenderRead
Wanted == IF entry = "python" THEN req ELSE Expected(req)
RoundTripId == pc = "done" => args = Wanted
=============================================================================

--------------------------- MODULE ConfigRoundTrip ---------------------------
(***************************************************************************)
(* Layer L1/L2: naunet init -> naunet_config.toml -> naunet render ->      *)
(* Network(...) / TemplateLoader(...) (C20).  An option value is a         *)
(* sequence of TOKENS; a token has a shape:                                *)
(*   "plain"  text without separators or outer blanks                      *)
(*   "padded" the same text with blanks around it (the CLI strips them)    *)
(*   "inner"  text with a blank inside (kept)                              *)
(*   "empty"  nothing between two separators (dropped)                     *)
(* Requested[opt] is the token sequence the user typed for option opt.     *)
(* The four stages are actions; the description that reaches Network(...)  *)
(* must be the normalised request.                                         *)
(***************************************************************************)
EXTENDS Integers, Sequences, TLC

CONSTANTS Variant      \* "asis" (repaired) | "bulk_key_typo" | "keep_padding"

VARIABLES req, parsed, toml, args, pc
cvars == <<req, parsed, toml, args, pc>>

ListOpts  == {"elements", "pseudo_elements", "allowed", "required", "files", "formats", "heating", "cooling"}
TableOpts == {"replacement", "binding", "yield", "shielding", "rate_modifier", "ode_modifier"}   \* (an ODE-modifier token = species, position, factor and the dependency LIST with its repeats)
ScalarOpts == {"surface", "bulk", "grain", "grain_model", "solver", "device", "method"}

Norm(tok) == [shape |-> IF tok.shape = "padded" /\ Variant # "keep_padding" THEN "plain" ELSE tok.shape, id |-> tok.id]
Kept(s) == SelectSeq(s, LAMBDA t : t.shape # "empty")
Expected(r) == [o \in DOMAIN r |-> IF o \in ScalarOpts THEN r[o] ELSE [k \in DOMAIN Kept(r[o]) |-> Norm(Kept(r[o])[k])]]

CInit(r) == req = r /\ parsed = <<>> /\ toml = <<>> /\ args = <<>> /\ pc = "init"
(* InitCommand.handle: split on the separator, strip, drop empties *)
InitParse == pc = "init" /\ parsed' = Expected(req) /\ pc' = "content" /\ UNCHANGED <<req, toml, args>>
(* BaseConfiguration.content *)
Content == /\ pc = "content"
           /\ toml' = IF Variant = "bulk_key_typo" THEN [parsed EXCEPT !["bulk"] = <<[shape |-> "plain", id |-> 0]>>] ELSE parsed
           /\ pc' = "render" /\ UNCHANGED <<req, parsed, args>>
(* RenderCommand.handle: read the TOML, build the keyword arguments *)
RenderRead == pc = "render" /\ args' = toml /\ pc' = "done" /\ UNCHANGED <<req, parsed, toml>>
CNext == InitParse \/ Content \/ RenderRead
RoundTripId == pc = "done" => args = Expected(req)
=============================================================================

---- MODULE MC_Renorm ----
EXTENDS Renorm
(* the lemma on exact integers: species H (1), H2 (2), X (1 element X of mass 3), HX, e-;  abundances ab, reference ref.
   Everything is multiplied out so that only integers occur:  solve M r = ref by Cramer's rule with the common factor kept. *)
Net == [comp |-> << <<1, 0>>, <<2, 0>>, <<0, 1>>, <<1, 1>>, <<0, 0>> >>, A |-> <<1, 3>>, As |-> <<1, 2, 3, 4, 0>>,
        electron |-> <<FALSE, FALSE, FALSE, FALSE, TRUE>>]
AbChoices == [1..4 -> 1..2]
StaticOK == Coupling(Net) /\ Additive(Net)
(* totals and the coupling matrix scaled by lcm(As) = 12 and by Hn *)
L == 12
Tot(ab, i) == SumOver(LAMBDA s : Net.comp[s][i] * ab[s], 4)
Mx(ab, i, j) == SumOver(LAMBDA s : IF Net.comp[s][i] > 0 /\ Net.comp[s][j] > 0 THEN (Net.comp[s][i] * Net.comp[s][j] * Net.A[j] * ab[s] * L) \div Net.As[s] ELSE 0, 4)
(* Cramer: r_j = Dj / D with D = det(Mx), scaled right-hand side b_i = L * ref_i *)
Det(ab) == Mx(ab, 1, 1) * Mx(ab, 2, 2) - Mx(ab, 1, 2) * Mx(ab, 2, 1)
D1(ab, b) == b[1] * Mx(ab, 2, 2) - Mx(ab, 1, 2) * b[2]
D2(ab, b) == Mx(ab, 1, 1) * b[2] - b[1] * Mx(ab, 2, 1)
(* new abundance of species s times (As[s] * Det): ab_s * sum_j c_sj A_j Dj *)
NewNum(ab, b, s) == ab[s] * (Net.comp[s][1] * Net.A[1] * D1(ab, b) + Net.comp[s][2] * Net.A[2] * D2(ab, b))
(* new total of element i times (L * Det): sum_s c_si * NewNum * (L / As) *)
NewTot(ab, b, i) == SumOver(LAMBDA s : Net.comp[s][i] * NewNum(ab, b, s) * (L \div Net.As[s]), 4)
Lemma == \A ab \in AbChoices : \A r1 \in 1..3, r2 \in 1..3 :
           LET b == <<L * r1, L * r2>> IN
           Det(ab) # 0 => /\ NewTot(ab, b, 1) = L * Det(ab) * r1          \* element totals (in units of the old Hn) are the reference
                          /\ NewTot(ab, b, 2) = L * Det(ab) * r2
Identity == \A ab \in AbChoices :
           LET b == <<L * Tot(ab, 1), L * Tot(ab, 2)>> IN                  \* the reference already equals the totals
           Det(ab) # 0 => \A s \in 1..4 : NewNum(ab, b, s) = ab[s] * Net.As[s] * Det(ab)
MInit == RInit2
MSpec == MInit /\ [][RNext2]_rvars2
====

CONSTANTS
  T = 1048576
  MaxLevel = 5
  SubPerLevel = 10
  Variant = "asis"
SPECIFICATION TSpec
CONSTRAINT Track
POSTCONDITION Verdicts
CHECK_DEADLOCK FALSE

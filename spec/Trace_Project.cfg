CONSTANTS
  Descs = {1, 2, 3, 4}
  PVariant = "asis"
SPECIFICATION TSpec
CONSTRAINT Track
POSTCONDITION Verdicts
CHECK_DEADLOCK FALSE

CONSTANTS
  Descs = {1, 2, 3, 4, 5, 6, 7, 8, 9, 10}
  BlankDescs = {9, 10}
  NewDesc = 9
  InitRenderDescs = {1, 2, 4}
  ExportDescs = {5, 6, 7, 8}
  GpuDescs = {7}
  PVariant = "asis"
SPECIFICATION TSpec
CONSTRAINT Track
POSTCONDITION Verdicts
CHECK_DEADLOCK FALSE

---------------------------- MODULE Trace_OdeGen ----------------------------
(***************************************************************************)
(* Validates what the REAL generator emitted for one network and one       *)
(* back-end against OdeGen.tla.  The strict C reader (harness/creader.py)  *)
(* turns every ydot[..] / IJth / data[..] / j(r,c) statement into signed   *)
(* monomials over slots; they are grouped by their rate symbol into one    *)
(* event per reaction / modifier / thermal process (a deterministic        *)
(* function of the text).  Each event must equal the delta of the spec     *)
(* action as a polynomial; the Finish event carries the structural facts   *)
(* (statements present, wrapper, cells, CSR arrays, macros, subscripts).   *)
(***************************************************************************)
EXTENDS OdeGen, Json, IOUtils, TLCExt

VARIABLES tid, l
JTrace == JsonDeserialize(IOEnv.TRACE_FILE)
Traces == JTrace.traces
NT     == Len(Traces)
Ev     == Traces[tid].ev[l]
ASSUME \A i \in 1..NT : TLCSet(i, 0)
Chk(name, c) == IF c THEN TRUE ELSE PrintT(<<"MISMATCH", Traces[tid].tid, l, name>>) /\ FALSE

TInit == tid \in 1..NT /\ l = 1 /\ Init0(Traces[tid].net)

IsEv(k) == l <= Len(Traces[tid].ev) /\ Ev.k = k /\ l' = l + 1 /\ UNCHANGED tid

(* observed terms -> polynomials.  rhs term: <<eq, sign, slots>>; jac term: <<row, col, sign, slots>> *)
ObsRhs(kind, i, eq) == PolyOf({ <<n, RKey(kind, i, Ev.rhs[n][3]), Ev.rhs[n][2]>> : n \in {x \in DOMAIN Ev.rhs : Ev.rhs[x][1] = eq} })
ObsJac(kind, i, row, col) == PolyOf({ <<n, RKey(kind, i, Ev.jac[n][4]), Ev.jac[n][3]>> : n \in {x \in DOMAIN Ev.jac : Ev.jac[x][1] = row /\ Ev.jac[x][2] = col} })
ObsEqs   == {Ev.rhs[n][1] : n \in DOMAIN Ev.rhs}
ObsCells == {<<Ev.jac[n][1], Ev.jac[n][2]>> : n \in DOMAIN Ev.jac}

Compare(kind, i, es, cs, dr(_), dj(_, _)) ==
  /\ Chk("TermsOnlyInRange", ObsEqs \subseteq Eqs(N) /\ ObsCells \subseteq Eqs(N) \X Eqs(N))
  /\ Chk("RhsTerms", \A e \in es \cup ObsEqs : ObsRhs(kind, i, e) = dr(e))
  /\ Chk("JacTerms", \A c \in cs \cup ObsCells : ObsJac(kind, i, c[1], c[2]) = dj(c[1], c[2]))

TReaction ==
  /\ IsEv("Reaction")
  /\ pc = "reactions" /\ pos <= Len(N.R)
  /\ Compare("k", pos - 1, ToSet(N.R[pos].r) \cup ToSet(N.R[pos].p), TouchReaction(N, pos),
             LAMBDA e : DeltaRhsReaction(N, pos, e), LAMBDA a, b : DeltaJacReaction(N, pos, a, b))
  /\ Reaction

TModifier ==
  /\ IsEv("Modifier")
  /\ pc = "modifiers" /\ pos <= Len(N.M)
  /\ Compare("f", N.M[pos].f, {N.M[pos].t}, TouchModifier(N, pos),
             LAMBDA e : DeltaRhsModifier(N, pos, e), LAMBDA a, b : DeltaJacModifier(N, pos, a, b))
  /\ Modifier

THeat ==
  /\ IsEv("Heat")
  /\ pc = "heating" /\ pos <= Len(N.H)
  /\ Compare("kh", pos - 1, {TRow(N)}, TouchThermal(N, N.H[pos].r),
             LAMBDA e : DeltaRhsThermal(N, "kh", pos, N.H[pos].r, e), LAMBDA a, b : DeltaJacThermal(N, "kh", pos, N.H[pos].r, a, b))
  /\ Heat

TCool ==
  /\ IsEv("Cool")
  /\ pc = "cooling" /\ pos <= Len(N.C)
  /\ Compare("kc", pos - 1, {TRow(N)}, TouchThermal(N, N.C[pos].r),
             LAMBDA e : DeltaRhsThermal(N, "kc", pos, N.C[pos].r, e), LAMBDA a, b : DeltaJacThermal(N, "kc", pos, N.C[pos].r, a, b))
  /\ Cool

(* "observe" traces: the emitted text alone, without asking whether it is the model's.  rhs term: <<eq, sign, kind, index,
   slots>>, jac term: <<row, col, sign, kind, index, slots>>.  The state becomes what was emitted; the invariants of Track
   (Jacobian = derivative of the EMITTED right-hand side; conservation) are then evaluated on it. *)
TObserved ==
  /\ IsEv("Observed")
  /\ LET e == Ev
         eqs == {e.rhs[n][1] : n \in DOMAIN e.rhs}
         cells == {<<e.jac[n][1], e.jac[n][2]>> : n \in DOMAIN e.jac}
     IN /\ Chk("TermsOnlyInRange", eqs \subseteq Eqs(N) /\ cells \subseteq Eqs(N) \X Eqs(N))
        /\ rhs' = [q \in Eqs(N) |-> PolyOf({ <<n, RKey(e.rhs[n][3], e.rhs[n][4], e.rhs[n][5]), e.rhs[n][2]>> : n \in {x \in DOMAIN e.rhs : e.rhs[x][1] = q} })]
        /\ jac' = [c \in cells |-> PolyOf({ <<n, RKey(e.jac[n][4], e.jac[n][5], e.jac[n][6]), e.jac[n][3]>> : n \in {x \in DOMAIN e.jac : <<e.jac[x][1], e.jac[x][2]>> = c} })]
        /\ touched' = cells
  /\ pc' = "observed" /\ wrappedRow' = N.th /\ UNCHANGED <<N, pos>>

Pairs(s) == {<<s[n][1], s[n][2]>> : n \in DOMAIN s}
ExpectedEqs == (0..(N.n - 1)) \cup (IF N.th THEN {TRow(N)} ELSE {})
Max2(a, b) == IF a > b THEN a ELSE b

(* structural facts of the emitted unit that depend only on the network header and on the text itself (C03) *)
StructuralClauses(e) ==
     /\ Chk("CellsInRange", Pairs(e.cells) \subseteq Eqs(N) \X Eqs(N))
     /\ Chk("NoCellAssignedTwice", Len(e.cells) = Cardinality(Pairs(e.cells)))
     /\ Chk("MacroExpressionsParenthesised", e.unparenthesised = 0)
     /\ Chk("BatchStrideIsSystemSize", e.strides_ok)
     /\ Chk("BatchedMatrixGetsItsStructure", e.structure_uploaded)   \* every block-CSR matrix the solver class creates (Init, Reset) is handed to InitJac
     /\ Chk("MacroNSPECIES", e.nspecies = N.n)
     /\ Chk("MacroNEQUATIONS", e.neq = NEq(N))
     /\ Chk("MacroNREACTIONS", e.nreac = Max2(Len(N.R), 1))
     /\ Chk("MacroThermal", e.nheat = Len(N.H) /\ e.ncool = Len(N.C))
     /\ Chk("RateSubscriptsInBounds", e.max_k_assigned < e.nreac)
     /\ Chk("SubscriptsInBounds", e.max_y < e.neq /\ e.max_ydot < e.neq /\ e.max_k < e.nreac
                                   /\ (e.max_kc < 0 \/ e.max_kc < e.ncool) /\ (e.max_kh < 0 \/ e.max_kh < e.nheat))
     /\ IF "same_values" \in DOMAIN e      \* Structure events: this back-end against the first one, cell by cell (monomials per rate symbol + wrapper)
          THEN Chk("SameValueAtTheSameCell", e.same_values)
          ELSE TRUE
     /\ IF e.has_csr
          THEN /\ Chk("CsrComplete", e.csr_holes = 0)
               /\ Chk("CsrWellFormed", CsrWellFormed(e.rowptr, e.colval, e.nnz, e.neq))
               /\ Chk("CsrDataWithinNNZ", e.ndata = e.nnz)
               /\ Chk("CsrCellsAreTheCells", CsrCells(e.rowptr, e.colval) = Pairs(e.cells))
          ELSE TRUE
     /\ IF e.has_pattern
          THEN Chk("PatternMarksStoredEntries", Pairs(e.pattern) = Pairs(e.cells) /\ e.pattern_shape_ok)
          ELSE TRUE

TFinish ==
  /\ IsEv("Finish")
  /\ pc \in {"done", "observed"}
  /\ LET e == Ev IN
     /\ Chk("NoStrayTerms", e.stray = 0)
     /\ Chk("OneStatementPerEquation", ToSet(e.eqs) = ExpectedEqs /\ Len(e.eqs) = Cardinality(ExpectedEqs))
     /\ Chk("WrapperOnThermalRowOnly", ToSet(e.wrapped_rows) = (IF wrappedRow THEN {TRow(N)} ELSE {}))
     /\ Chk("WrapperOnThermalCellsOnly", Pairs(e.wrapped_cells) = {c \in Pairs(e.cells) : wrappedRow /\ c[1] = TRow(N)})
     /\ Chk("OmittedIsZero", \A c \in DOMAIN jac : jac[c] # EmptyPoly => c \in Pairs(e.cells))
     /\ Chk("JacobianReadsTheSameAbundancesAsTheRhs", ToSet(e.yarr_jac) \subseteq ToSet(e.yarr_fex))
     /\ StructuralClauses(e)
  /\ UNCHANGED ovars

(* "structure" traces (one event): the structural facts alone, so that a term-level mismatch elsewhere cannot hide them *)
TStructure ==
  /\ IsEv("Structure")
  /\ StructuralClauses(Ev)
  /\ UNCHANGED ovars

(* "runtime" traces (one event): the compiled right-hand sides / Jacobians of the cvode-dense and the odeint back-end were evaluated at
   the same states with the same parameters (uncleared output vectors, as the integrators hand them over) and compared entry by entry *)
TRuntime ==
  /\ IsEv("Runtime")
  /\ Chk("BackendsAgreeAtRunTime", Ev.ydot_same)
  /\ Chk("JacobiansAgreeAtRunTime", Ev.jac_same)
  /\ UNCHANGED ovars

TSilent == (SkipEmpty \/ Wrap) /\ UNCHANGED <<tid, l>>

TNext == TReaction \/ TModifier \/ THeat \/ TCool \/ TFinish \/ TStructure \/ TRuntime \/ TSilent \/ TObserved
TSpec == TInit /\ [][TNext]_<<ovars, tid, l>>

(* C04 on the observed, accepted state: weights = what the REAL Species objects report (elements, charge) *)
W == Traces[tid].weights
(* every invariant is judged on its own (a set filter evaluates all of its members): a right-hand side that is not the mass-action law
   (C01) is STILL asked whether it conserves elements and charge (C04) *)
TrackClause(i) ==
  CASE i = 1 -> Chk("Inv:RhsIsMassAction", RhsIsMassAction)
    [] i = 2 -> Chk("Inv:JacIsDerivative", pc \in {"done", "observed"} => \A c \in DOMAIN jac : jac[c] = D(c[2], rhs[c[1]]))
    [] i = 3 -> Chk("Inv:OmittedIsZero", pc = "observed" => \A c \in (Eqs(N) \X Eqs(N)) \ DOMAIN jac : D(c[2], rhs[c[1]]) = EmptyPoly)
    [] i = 4 -> Chk("Inv:Conservation", pc \in {"done", "observed"} => \A n \in DOMAIN W : Balanced(N, W[n]) => Conserves(N, W[n]))
Track ==
  /\ {i \in 1..4 : ~TrackClause(i)} = {}
  /\ TLCSet(tid, IF l > TLCGet(tid) THEN l ELSE TLCGet(tid))

Verdicts == \A i \in 1..NT : PrintT(<<"VERDICT", Traces[i].tid, TLCGet(i), Len(Traces[i].ev) + 1>>)
=============================================================================

----------------------------- MODULE MC_OdeGen -----------------------------
(* All networks within small bounds; every one is run through the accumulation and checked at "done". *)
EXTENDS OdeGen
CONSTANTS NS,        \* species slots 1..NS
          MaxR,      \* at most MaxR reactions
          MaxRLen,   \* reactants per reaction 1..MaxRLen
          MaxPLen,   \* products per reaction 0..MaxPLen
          WithM,     \* allow one ODE modifier (0..3 dependency species, repeats allowed)
          WithT      \* allow the temperature equation with at most one heating and one cooling process

SeqsUpTo(S, lo, hi) == UNION {[1..k -> S] : k \in lo..hi}
Slots(n) == 0..(n - 1)
Reactions(n) == {[r |-> r, p |-> p] : r \in SeqsUpTo(Slots(n), 1, MaxRLen), p \in SeqsUpTo(Slots(n), 0, MaxPLen)}
Mods(n) == IF WithM THEN {<<>>} \cup {<<[t |-> t, f |-> 0, d |-> d]>> : t \in Slots(n), d \in SeqsUpTo(Slots(n), 0, 3)} ELSE {<<>>}
Therm(n) == IF WithT THEN {<<>>} \cup {<<[r |-> r]>> : r \in SeqsUpTo(Slots(n), 1, 2)} ELSE {<<>>}
Nets == UNION { { [n |-> n, th |-> (h # <<>> \/ c # <<>>), R |-> R, M |-> m, H |-> h, C |-> c] :
                    R \in SeqsUpTo(Reactions(n), 0, MaxR), m \in Mods(n), h \in Therm(n), c \in Therm(n) } : n \in 1..NS }

MCInit == \E net \in Nets : Init0(net)
MCSpec == MCInit /\ [][Next]_ovars

Conservation == pc = "done" => \A w \in [1..N.n -> 0..2] : Balanced(N, w) => Conserves(N, w)
=============================================================================

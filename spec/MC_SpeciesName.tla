-------------------------- MODULE MC_SpeciesName --------------------------
(* All names built from <= MaxTok tokens over hazard-rich symbol lists, x surface prefix x charge. *)
EXTENDS SpeciesName
CONSTANTS MaxTok, TableId
VARIABLE toks

S(str) == str          \* symbols are written as tuples of characters below

DefaultTable ==
  [elems |-> << <<"e">>, <<"E">>, <<"H">>, <<"D">>, <<"H","e">>, <<"C">>, <<"N">>, <<"O">>, <<"N","a">>, <<"M","g">>, <<"S","i">>, <<"S">>,
                <<"C","l">>, <<"C","a">>, <<"N","i">> >>,
   pseudo |-> << <<"C","R">>, <<"C","R","P">>, <<"X">>, <<"M">>, <<"p">>, <<"o">>, <<"m">>, <<"c","-">>, <<"l","-">>, <<"*">>, <<"g">> >>,
   pseudoRaw |-> << <<"C","R">>, <<"C","R","P">>, <<"X">>, <<"M">>, <<"p">>, <<"o">>, <<"m">>, <<"c","-">>, <<"l","-">>, <<"\\","*">>, <<"g">> >>,
   grain |-> <<"G","R","A","I","N">>, surf |-> <<"#">>, repl |-> <<>>]
UpperTable ==
  [elems |-> << <<"E">>, <<"H">>, <<"H","E">>, <<"C">>, <<"O">>, <<"S">>, <<"S","I">>, <<"M","G">>, <<"C","L">> >>,
   pseudo |-> << <<"C","R">>, <<"C","R","P">>, <<"M">> >>,
   pseudoRaw |-> << <<"C","R">>, <<"C","R","P">>, <<"M">> >>,
   grain |-> <<"G","R","A","I","N">>, surf |-> <<"G">>,
   repl |-> << << <<"H","E">>, <<"H","e">> >>, << <<"S","I">>, <<"S","i">> >>, << <<"M","G">>, <<"M","g">> >>, << <<"C","L">>, <<"C","l">> >> >>]
Table == IF TableId = "default" THEN DefaultTable ELSE UpperTable

Counts == {0, 2, 12}
ElemTok(t) == {[sym |-> t.elems[k], cnt |-> c, kind |-> "elem"] : k \in DOMAIN t.elems, c \in Counts}
PseudoTok(t) == {[sym |-> t.pseudo[k], cnt |-> 0, kind |-> "pseudo"] : k \in DOMAIN t.pseudo}
BodyTok(t) == ElemTok(t) \cup PseudoTok(t)
SeqsUpTo(Sx, n) == UNION {[1..m -> Sx] : m \in 1..n}
Prefixes(t) == { <<>>, <<[sym |-> t.surf, cnt |-> 0, kind |-> "surf"]>>, <<[sym |-> t.surf, cnt |-> 2, kind |-> "surf"]>> }
GrainNames(t) == { <<[sym |-> t.grain, cnt |-> c, kind |-> "grain"]>> : c \in {0, 1} }
Charges == { <<>>, <<"+">>, <<"+","+">>, <<"-">>, <<"-","-">> }

(* well-formed names: at least one element (or the grain), and a label ending in "-" (c-, l-) is never the last token,
   where its hyphen would be read as a charge sign *)
WellFormed(body) ==
  /\ \E k \in DOMAIN body : body[k].kind \in {"elem", "grain"}
  /\ body[Len(body)].sym[Len(body[Len(body)].sym)] # "-"
MInit == \E body \in SeqsUpTo(BodyTok(Table), MaxTok) \cup GrainNames(Table), pre \in Prefixes(Table), ch \in Charges :
           /\ WellFormed(body)
           /\ (body \in GrainNames(Table) => pre = <<>>)        \* a grain is not an ice species: no surface prefix on it
           /\ toks = pre \o body
           /\ SInit(Table, Encode(pre \o body) \o ch)
MSpec == MInit /\ [][SNext /\ UNCHANGED toks]_<<svars, toks>>

(* C08 on the model of the code *)
RecoversComposition == pc = "done" => (Canonical(Tb, toks) => SameComposition(res, Intended(EmptyRes, Tb, toks)))
=============================================================================

------------------------------ MODULE Formats ------------------------------
(***************************************************************************)
(* Layer L1: Network.add_reaction_from_file as a state machine over the    *)
(* LINES of a reaction file (C07).  A file is a sequence of lines          *)
(*   [cls, rec]   cls in {"blank", "ws", "comment", "format", "var",       *)
(*                        "common", "data"}                                *)
(* and rec (for data lines) is what the line NAMES, written by the         *)
(* independent encoder: reactant / product columns (marker tokens still    *)
(* in them), coefficient texts, window texts, index, format code.          *)
(* Line consumes one line; a data line appends exactly one decoded         *)
(* reaction: marker tokens dropped, the type given by the format's table.  *)
(***************************************************************************)
EXTENDS Integers, Sequences, FiniteSets, TLC

CONSTANTS Variant      \* "asis" (repaired) | "blank_adds_empty" (the base pre-processor passes "\n" through)

VARIABLES fmt, file, pos, rlist
fvars == <<fmt, file, pos, rlist>>

(* marker tokens: the database markers, plus "hv" and "XR" which the driver declares through the `pseudo_elements` argument of the
   networks that use them (a user-declared marker is a marker like any other) *)
Markers == {"CR", "CRP", "PHOTON", "CRPHOT", "Photon", "XRAY", "",
            "FREEZE", "DESOH2", "DESCR", "DEUVCR", "THERM", "DIFF", "CHEMDES", "NAN", "hv", "XR"}
DropMarkers(s) == SelectSeq(s, LAMBDA x : x \notin Markers)

(* format code -> naunet reaction type code *)
KidaType(f)  == CASE f = 1 -> 101 [] f = 2 -> 102 [] f = 3 -> 100 [] f = 4 -> 110 [] f = 5 -> 111 [] f = 6 -> 103 [] OTHER -> 100
UmistType(c) == CASE c = "CP" -> 101 [] c = "CR" -> 120 [] c = "PH" -> 102 [] OTHER -> 100       \* AD CD CE DR IN MN NN RA REA RR
LeedsType(t) == CASE t = 1 -> 100 [] t = 2 -> 101 [] t = 3 -> 120 [] t = 4 -> 102 [] t = 5 -> 130 [] t = 6 -> 220 [] t = 7 -> 200
                  [] t = 8 -> 201 [] t = 9 -> 202 [] t = 10 -> 203 [] t = 11 -> 301 [] t = 12 -> 302 [] t = 13 -> 300 [] t = 14 -> 204
                  [] t = 20 -> 221 [] OTHER -> -1
UclType(k)   == CASE k = "CRP" -> 101 [] k = "PHOTON" -> 102 [] k = "CRPHOT" -> 120 [] k = "FREEZE" -> 200 [] k = "DESOH2" -> 210
                  [] k = "DESCR" -> 202 [] k = "DEUVCR" -> 203 [] k = "THERM" -> 201 [] k = "DIFF" -> 310 [] k = "CHEMDES" -> 204
                  [] OTHER -> 100
TypeOf(f, code) == CASE f = "kida" -> KidaType(code) [] f = "umist" -> UmistType(code) [] f = "leeds" -> LeedsType(code)
                     [] f = "uclchem" -> UclType(code) [] f = "krome" -> 999 [] f = "naunet" -> code

Decode(f, rec) == [r |-> DropMarkers(rec.r), p |-> DropMarkers(rec.p), a |-> rec.a, b |-> rec.b, c |-> rec.c,
                   tmin |-> rec.tmin, tmax |-> rec.tmax, idx |-> rec.idx, ty |-> TypeOf(f, rec.code)]
EmptyReaction == [r |-> <<>>, p |-> <<>>, a |-> "0.0", b |-> "0.0", c |-> "0.0", tmin |-> "-1.0", tmax |-> "-1.0", idx |-> -1, ty |-> 999]

FInit(f, lines) == fmt = f /\ file = lines /\ pos = 1 /\ rlist = <<>>

Line ==
  /\ pos <= Len(file)
  /\ rlist' = CASE file[pos].cls = "data" -> Append(rlist, Decode(fmt, file[pos].rec))
                [] file[pos].cls \in {"blank", "ws"} /\ Variant = "blank_adds_empty" /\ fmt # "krome" -> Append(rlist, EmptyReaction)
                [] OTHER -> rlist                       \* blank, whitespace-only, comment and directive lines add nothing
  /\ pos' = pos + 1
  /\ UNCHANGED <<fmt, file>>

Done == pos = Len(file) + 1
DataLines == SelectSeq(file, LAMBDA ln : ln.cls = "data")
OnePerDataLine  == Done => Len(rlist) = Len(DataLines)
OrderPreserved  == Done => rlist = [k \in DOMAIN DataLines |-> Decode(fmt, DataLines[k].rec)]
NoPseudoSpecies == \A k \in DOMAIN rlist : \A x \in DOMAIN rlist[k].r : rlist[k].r[x] \notin Markers
=============================================================================

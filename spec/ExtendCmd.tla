----------------------------- MODULE ExtendCmd -----------------------------
(***************************************************************************)
(* The network-editing command `naunet extend` (C14: "through the API or   *)
(* the network-editing command ... no reaction is lost or kept contrary to *)
(* the edits"), as naunet/console/commands/extend.py runs it: a fixed      *)
(* pipeline of Network calls selected by the command-line options.  Each   *)
(* phase is ONE action built from the NetworkEdit action of the call it    *)
(* makes, with the arguments the options dictate.                          *)
(*                                                                         *)
(*   opt.red, opt.reduce     --reduce-by-species given / the set of species *)
(*                  NAME ids to keep                                       *)
(*   opt.rm, opt.rmspecies   --remove-species given / the set of species   *)
(*                  classes to remove                                      *)
(*   opt.rmdup      --remove-duplicate                                     *)
(*   opt.phases     the requested append phases, in the order the command  *)
(*                  runs them: Seq of type codes (200 depletion, 201 / 203 *)
(*                  / 202 thermal / photon / cosmic-ray desorption)        *)
(*   input          the reactions of the input file, in file order         *)
(*   core           ghost: the reaction list when the editing phases are   *)
(*                  over (before anything is appended)                     *)
(***************************************************************************)
EXTENDS NetworkEdit

CONSTANT CmdVariant     \* "asis" | "dup_minimal" | "rm_reactants_only" (seeded design variants)

VARIABLES pc, opt, input, core, nph
cvars == <<nvars, pc, opt, input, core, nph>>

CInit(u, in, o) == Init0(u) /\ pc = "construct" /\ opt = o /\ input = in /\ core = <<>> /\ nph = 0
Keep == UNCHANGED <<opt, input>>

NameSet(i) == {D(i).rn[k] : k \in DOMAIN D(i).rn} \cup {D(i).pn[k] : k \in DOMAIN D(i).pn}
(* --reduce-by-species compares NAMES: all(rp.name in allowed_species ...) *)
NameFits(S, i) == NameSet(i) \subseteq S

(* net = Network(filelist=inp, fileformats=informat) *)
Construct == pc = "construct" /\ InitNet({}, {}) /\ pc' = "load" /\ Keep /\ UNCHANGED <<core, nph>>
Load      == pc = "load" /\ AddAll(input) /\ pc' = "reduce" /\ Keep /\ UNCHANGED <<core, nph>>

(* net = Network(newlist): a NEW object holding the reactions whose species names are all in the list, in order *)
Rebuild(newlist) ==
  /\ rlist' = newlist /\ idxs' = [k \in DOMAIN newlist |-> D(newlist[k]).idx]
  /\ skipped' = <<>> /\ sidx' = <<>>
  /\ reactants' = UnionOver(Rs, newlist) /\ products' = UnionOver(Ps, newlist)
  /\ allowed' = {} /\ required' = {} /\ report' = <<>>
  /\ pool' = SeqBag(newlist)
  /\ UNCHANGED U
Reduce ==
  /\ pc = "reduce"
  /\ IF opt.red
       THEN Rebuild(SelectSeq(rlist, LAMBDA i : NameFits(opt.reduce, i)))
       ELSE UNCHANGED nvars
  /\ pc' = "rmspecies" /\ Keep /\ UNCHANGED <<core, nph>>

Mentions(S) == UNION {WhereSpecies(c, IF CmdVariant = "rm_reactants_only" THEN "reactant" ELSE "all") : c \in S}   \* net.where_species(spec) per name
RmSpecies ==
  /\ pc = "rmspecies"
  /\ IF opt.rm THEN RemoveIdxList(Mentions(opt.rmspecies)) ELSE UNCHANGED nvars
  /\ pc' = "finddup" /\ Keep /\ UNCHANGED <<core, nph>>

DupMode == IF CmdVariant = "dup_minimal" THEN "minimal" ELSE "default"
FindDupStep ==
  /\ pc = "finddup"
  /\ IF opt.rmdup THEN FindDup(DupMode) ELSE UNCHANGED nvars
  /\ pc' = "rmdup" /\ Keep /\ UNCHANGED <<core, nph>>
RmDup ==
  /\ pc = "rmdup"
  /\ IF opt.rmdup THEN RemoveDup ELSE UNCHANGED nvars
  /\ core' = rlist'
  /\ pc' = "append" /\ Keep /\ UNCHANGED nph

(* the append phases, one per requested option, in the command's order; then reindex and write *)
AppendPhase(ids) ==
  /\ pc = "append" /\ nph < Len(opt.phases)
  /\ LET ty == opt.phases[nph + 1] IN IF ty = 200 THEN AppendDepletion(ids) ELSE AppendDesorption(ty, ids)
  /\ nph' = nph + 1 /\ Keep /\ UNCHANGED <<pc, core>>
ReindexStep == pc = "append" /\ nph = Len(opt.phases) /\ Reindex /\ pc' = "write" /\ Keep /\ UNCHANGED <<core, nph>>
Write == pc = "write" /\ pc' = "done" /\ UNCHANGED nvars /\ Keep /\ UNCHANGED <<core, nph>>

CNextNoAppend == Construct \/ Load \/ Reduce \/ RmSpecies \/ FindDupStep \/ RmDup \/ ReindexStep \/ Write

-----------------------------------------------------------------------------
(* What the options MEAN, independent of the calls that implement them: the input reactions, in order, whose species names are
   all in the keep-list (if one is given), that mention no removed species, and that do not repeat an earlier survivor *)
RECURSIVE DropRepeats(_, _)
DropRepeats(s, acc) ==
  IF s = <<>> THEN acc
  ELSE IF \E j \in DOMAIN acc : EqDefault(acc[j], Head(s)) THEN DropRepeats(Tail(s), acc) ELSE DropRepeats(Tail(s), Append(acc, Head(s)))
NameSetOnly(i) == NameSet(i)
Expected ==
  LET a == IF opt.red THEN SelectSeq(input, LAMBDA i : NameSetOnly(i) \subseteq opt.reduce) ELSE input
      b == IF opt.rm THEN SelectSeq(a, LAMBDA i : Spc(i) \cap opt.rmspecies = {}) ELSE a
  IN IF opt.rmdup THEN DropRepeats(b, <<>>) ELSE b
PipelineResult == pc \in {"append", "write", "done"} => core = Expected
(* what is written is the edited list followed by what the append phases added, nothing else *)
CorePrefix == pc \in {"append", "write", "done"} => SubSeq(rlist, 1, Len(core)) = core
=============================================================================

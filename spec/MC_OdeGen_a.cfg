CONSTANTS
  NS = 2
  MaxR = 2
  MaxRLen = 2
  MaxPLen = 2
  WithM = FALSE
  WithT = FALSE
SPECIFICATION MCSpec
INVARIANT RhsIsMassAction
INVARIANT UnreactiveIsZero
INVARIANT JacIsDerivative
INVARIANT OmittedIsZero
INVARIANT CsrOK
INVARIANT Conservation
CHECK_DEADLOCK FALSE

--------------------------- MODULE Trace_Project ---------------------------
(***************************************************************************)
(* Validates recorded histories of REAL naunet command runs in a scratch   *)
(* project directory against Project.tla.  After every command the driver  *)
(* inspects the directory from outside: which description the tables of    *)
(* naunet_config.toml hold, which descriptions' reference renderings the   *)
(* files under include/ src/ python/ (and the patch directory) are         *)
(* byte-identical to, and which descriptions' reference summaries equal    *)
(* the [summary] table.  References come from fresh single-shot projects.  *)
(***************************************************************************)
EXTENDS Project, Sequences, TLC, Json, IOUtils, TLCExt

VARIABLES tid, l
JTrace == JsonDeserialize(IOEnv.TRACE_FILE)
Traces == JTrace.traces
NT     == Len(Traces)
Ev     == Traces[tid].ev[l]
ASSUME \A i \in 1..NT : TLCSet(i, 0)
Chk(name, c) == IF c THEN TRUE ELSE PrintT(<<"MISMATCH", Traces[tid].tid, l, name>>) /\ FALSE
ToSetOf(s) == {s[k] : k \in DOMAIN s}

TInit == tid \in 1..NT /\ l = 1 /\ PInit

Step(e) ==
  CASE e.act = "Init"        -> InitCmd(e.d)
    [] e.act = "Edit"        -> Edit(e.d)
    [] e.act = "Render"      -> Render(e.force)
    [] e.act = "RenderPatch" -> RenderPatch
    [] e.act = "Export"      -> Export(e.d, e.force)
    [] e.act = "New"         -> NewCmd
    [] e.act = "InitRender"  -> InitRender(e.d, e.force)

Post(e) ==
  /\ Chk("RenderSucceeds", (e.act \in {"Render", "RenderPatch"} \/ (e.act = "InitRender" /\ cfg = 0)) => e.rc = 0)     \* (a project the tools wrote themselves renders)
  /\ Chk("NewRefusesAProjectDirectory", e.act = "New" => ((e.rc = 0) = (cfg = 0 /\ tree = 0 /\ patch = 0)))
  /\ Chk("ConfigurationOnDisk", cfg' = e.cfg_id)
  /\ Chk("SourcesOnDisk", tree' \in ToSetOf(e.tree_ids))
  /\ Chk("SummaryOnDisk", summ' \in ToSetOf(e.summ_ids))
  /\ Chk("PatchOnDisk", patch' \in ToSetOf(e.patch_ids))

TStep ==
  /\ l <= Len(Traces[tid].ev) /\ l' = l + 1 /\ UNCHANGED tid
  /\ Step(Ev)
  /\ Post(Ev)

TSpec == TInit /\ [][TStep]_<<pvars, tid, l>>

Track ==
  /\ Chk("Inv:SummaryDescribesSources", SummaryDescribesSources)
  /\ TLCSet(tid, IF l > TLCGet(tid) THEN l ELSE TLCGet(tid))

Verdicts == \A i \in 1..NT : PrintT(<<"VERDICT", Traces[i].tid, TLCGet(i), Len(Traces[i].ev) + 1>>)
=============================================================================

---- MODULE MC_ConfigRoundTrip ----
EXTENDS ConfigRoundTrip
Shapes == {"plain", "padded", "inner", "empty", "number"}
Tok == [shape : Shapes, id : 1..2]
Vals == {<<>>} \cup {<<t>> : t \in Tok} \cup {<<a, b>> : a \in Tok, b \in [shape : Shapes, id : {2}]}
Scal == {<<[shape |-> "plain", id |-> 1]>>, <<[shape |-> "plain", id |-> 2]>>}
(* option shapes are independent of each other: vary one list option, one table option and the scalars at a time *)
MInit == \E v \in Vals, w \in Vals, s \in Scal :
           CInit([o \in ListOpts \cup TableOpts \cup ScalarOpts |->
                    IF o = "elements" THEN v ELSE IF o = "binding" THEN w ELSE IF o \in ScalarOpts THEN s ELSE <<>>])
MSpec == MInit /\ [][CNext]_cvars
====

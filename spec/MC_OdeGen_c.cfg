CONSTANTS
  NS = 2
  MaxR = 1
  MaxRLen = 2
  MaxPLen = 1
  WithM = FALSE
  WithT = TRUE
SPECIFICATION MCSpec
INVARIANT RhsIsMassAction
INVARIANT JacIsDerivative
INVARIANT OmittedIsZero
INVARIANT CsrOK
CHECK_DEADLOCK FALSE

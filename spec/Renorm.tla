------------------------------- MODULE Renorm -------------------------------
(***************************************************************************)
(* Layer L2/L3: elemental renormalisation (C16).                           *)
(*  static part  - the tables _prepare_renorm_content emits:               *)
(*     M[i][j] = sum over non-electron species s of                        *)
(*               (c_si c_sj A_j) ab_s / A_s / Hnuclei                       *)
(*     F[s]    = sum over elements j of (c_sj A_j) r_j / A_s   (e-: 1)     *)
(*    with c = element counts, A_j = mass number of element j,             *)
(*    A_s = mass number of species s.                                      *)
(*  dynamic part - SetReferenceAbund stores the reference ratios, Renorm   *)
(*    solves M r = ref and scales; the stored reference must survive.      *)
(* Why it works: total_i' = sum_s c_si ab_s F_s = Hn sum_j M_ij r_j        *)
(* = Hn ref_i (Coupling), and r = 1 solves it when the ratios already      *)
(* match iff A_s = sum_j c_sj A_j for every species (Additive).            *)
(***************************************************************************)
EXTENDS Integers, Sequences, FiniteSets, TLC

CONSTANTS Variant     \* "asis" | "inplace_solve" (the solution vector overwrites the stored reference)

VARIABLES ref, lastset, norm, cycles
rvars2 == <<ref, lastset, norm, cycles>>

(* ---- static tables for a network N = [comp : Seq over species of Seq over elements of counts, A : Seq of element mass
        numbers, As : Seq of species mass numbers, electron : Seq of BOOLEAN] *)
NE(net) == Len(net.A)
NSp(net) == Len(net.comp)
MTerms(net, i, j) == { <<s, net.comp[s][i] * net.comp[s][j] * net.A[j], net.As[s]>> :
                         s \in {x \in 1..NSp(net) : ~net.electron[x] /\ net.comp[x][i] > 0 /\ net.comp[x][j] > 0} }
FTerms(net, s) == IF net.electron[s] THEN {<<0, 1, 1>>}
                  ELSE { <<j, net.comp[s][j] * net.A[j], net.As[s]>> : j \in {x \in 1..NE(net) : net.comp[s][x] > 0} }
(* M_ij[s] = c_si * F_s[j]: the same numerator up to the factor c_si, the same divisor *)
Coupling(net) == \A i, j \in 1..NE(net) : \A s \in 1..NSp(net) : (~net.electron[s] /\ net.comp[s][i] > 0 /\ net.comp[s][j] > 0) =>
                   \E m \in MTerms(net, i, j), f \in FTerms(net, s) : m[1] = s /\ f[1] = j /\ m[2] = net.comp[s][i] * f[2] /\ m[3] = f[3]
SumOver(f(_), n) == LET F[k \in 0..n] == IF k = 0 THEN 0 ELSE F[k - 1] + f(k) IN F[n]
Additive(net) == \A s \in 1..NSp(net) : ~net.electron[s] =>
                   (net.As[s] > 0 /\ net.As[s] = SumOver(LAMBDA j : net.comp[s][j] * net.A[j], NE(net)))

(* ---- dynamic part *)
RInit2 == ref = "unset" /\ lastset = "unset" /\ norm = FALSE /\ cycles = 0
SetRef(v) == ref' = v /\ lastset' = v /\ norm' = FALSE /\ UNCHANGED cycles
Perturb == norm' = FALSE /\ UNCHANGED <<ref, lastset, cycles>>
DoRenorm ==
  /\ ref # "unset"
  /\ norm' = (ref = lastset)                 \* the ratios become whatever is stored
  /\ ref' = IF Variant = "inplace_solve" THEN "solution" ELSE ref
  /\ cycles' = cycles + 1 /\ UNCHANGED lastset
RNext2 == (\E v \in {"A", "B"} : SetRef(v)) \/ Perturb \/ DoRenorm
RenormRestores == [][DoRenorm => norm']_rvars2
ReferenceSurvives == ref \in {"unset", lastset}
Bound2 == cycles <= 3
=============================================================================

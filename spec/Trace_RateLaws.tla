---------------------------- MODULE Trace_RateLaws ----------------------------
(* One trace per (format, code, coefficient sign / magnitude class): the line was encoded independently, parsed by the real
   reaction class and rendered; the emitted rate statement was read by the strict C expression parser and canonicalised. *)
EXTENDS RateLaws, Json, IOUtils, TLCExt
VARIABLES tid, l
JTrace == JsonDeserialize(IOEnv.TRACE_FILE)
Traces == JTrace.traces
NT     == Len(Traces)
ASSUME \A i \in 1..NT : TLCSet(i, 0)
Chk(nm, c) == IF c THEN TRUE ELSE PrintT(<<"MISMATCH", Traces[tid].tid, l, nm>>) /\ FALSE
TInit == tid \in 1..NT /\ l = 1
(* the self-shielding factor a photoreaction law multiplies with is interpolated from a table: every axis search of the generated
   function must be able to reach the LAST cell of the axis it walks (bound = nodes - 2; a shorter search extrapolates from the wrong
   cell for large arguments, a longer one reads past the table) *)
TTable ==
  /\ l = 1 /\ l' = 2 /\ UNCHANGED tid /\ Traces[tid].fmt = "table"
  /\ Chk("ShieldingTableSearchCoversItsAxis", Traces[tid].obs.bound = Traces[tid].obs.nodes - 2)
(* a derived quantity that calls a helper with arguments named exactly like the helper's parameters passes them in the prototype's order *)
TArgOrder ==
  /\ l = 1 /\ l' = 2 /\ UNCHANGED tid /\ Traces[tid].fmt = "argorder"
  /\ Chk("HelperArgumentsInPrototypeOrder", Traces[tid].obs.in_order)
(* the dust-extinction helper of the UCLCHEM CO photodissociation law, run on a grid: the fit that answers is chosen by the optical depth at
   the wavelength -- the single exponential below 1, the five-term sum from 1 on *)
TScatter ==
  /\ l = 1 /\ l' = 2 /\ UNCHANGED tid /\ Traces[tid].fmt = "scatter"
  /\ Chk("ScatteringFitChosenByDepthAtTheWavelength", IF Traces[tid].obs.below THEN Traces[tid].obs.single ELSE Traces[tid].obs.five)
TCase ==
  /\ l = 1 /\ l' = 2 /\ UNCHANGED tid /\ Traces[tid].fmt \notin {"table", "argorder", "scatter"}
  /\ LET t == Traces[tid]
         law == Law(t.fmt, t.code, t.a, t.b, t.c, t.zb, t.zc, t.sh)
     IN IF law = <<"refused">>
          THEN Chk("RefusedNotRendered", t.obs.refused)
          ELSE /\ Chk("KnownCode", law # <<"undefined">>)
               /\ Chk("Rendered", ~t.obs.refused)
               /\ Chk("ValidC", t.obs.valid)
               /\ Chk("Law", t.obs.tree = law)
TSpec == TInit /\ [][TCase \/ TTable \/ TArgOrder \/ TScatter]_<<tid, l>>
Track == TLCSet(tid, IF l > TLCGet(tid) THEN l ELSE TLCGet(tid))
Verdicts == \A i \in 1..NT : PrintT(<<"VERDICT", Traces[i].tid, TLCGet(i), 2>>)
=============================================================================

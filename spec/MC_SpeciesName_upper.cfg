CONSTANTS
  Variant = "asis"
  MaxTok = 2
  TableId = "upper"
SPECIFICATION MSpec
INVARIANT RecoversComposition
CHECK_DEADLOCK FALSE

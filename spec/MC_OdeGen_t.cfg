CONSTANTS
  NS = 3
  MaxR = 2
  MaxRLen = 3
  MaxPLen = 1
  WithM = FALSE
  WithT = FALSE
SPECIFICATION MCSpec
INVARIANT RhsIsMassAction
INVARIANT UnreactiveIsZero
INVARIANT JacIsDerivative
INVARIANT OmittedIsZero
INVARIANT CsrOK
CHECK_DEADLOCK FALSE

----------------------------- MODULE Trace_Index -----------------------------
(* One trace per rendered network.  Header: the species classes with their INTENDED attributes (the driver builds every name
   from a known composition), the rank of their names in Python string order and their connectivity computed independently
   from the reaction list.  Events: Sort (the order Network.species reported) and one EmitView per generated artefact
   (index macros, Python index constants, Python name lists, configuration summary, Enzo patch table). *)
EXTENDS Index, Json, IOUtils, TLCExt
VARIABLES tid, l
JTrace == JsonDeserialize(IOEnv.TRACE_FILE)
Traces == JTrace.traces
NT     == Len(Traces)
Ev     == Traces[tid].ev[l]
ASSUME \A i \in 1..NT : TLCSet(i, 0)
Chk(nm, c) == IF c THEN TRUE ELSE PrintT(<<"MISMATCH", Traces[tid].tid, l, nm>>) /\ FALSE
ToSetOf(s) == {s[k] : k \in DOMAIN s}
SpOf(tr) == {[rank |-> tr.species[k].rank, degree |-> tr.species[k].degree, base |-> tr.species[k].base, key |-> tr.species[k].key,
              surface |-> tr.species[k].surface, sgroup |-> tr.species[k].sgroup, charge |-> tr.species[k].charge] : k \in DOMAIN tr.species}
TInit == tid \in 1..NT /\ l = 1 /\ IInit(SpOf(Traces[tid]))
IsEv(a) == l <= Len(Traces[tid].ev) /\ Ev.act = a /\ l' = l + 1 /\ UNCHANGED tid

TSort ==
  /\ IsEv("Sort") /\ Sort
  /\ Chk("OneSlotPerSpecies", Len(Ev.ranks) = Cardinality(SP))
  /\ Chk("OrderByConnectivityThenName", Ev.ranks = [k \in DOMAIN order' |-> order'[k].rank])

TEmit ==
  /\ IsEv("EmitView") /\ EmitView(Ev.kind)
  /\ LET mine == views'[Len(views')] IN
     /\ Chk("IdentifiersLegal", \A k \in DOMAIN Ev.ids : Legal(Ev.ids[k]))
     /\ Chk("IdentifiersDistinct", Cardinality(ToSetOf(Ev.ids)) = Len(Ev.ids))
     /\ Chk("SlotsAreZeroToN", Ev.slots = [k \in DOMAIN Ev.slots |-> k - 1])
     /\ Chk("CountDeclared", Ev.n = mine.n /\ Len(Ev.ids) = mine.n)
     /\ Chk("IdentifierOfSlot", [k \in DOMAIN Ev.ids |-> <<Ev.ids[k], Ev.slots[k]>>] = mine.pairs)
     /\ IF Ev.has_elems
          THEN /\ Chk("ElementIdentifiersDistinct", Cardinality(ToSetOf(Ev.elem_ids)) = Len(Ev.elem_ids))
               /\ Chk("ElementSlotsAreZeroToN", Ev.elem_slots = [k \in DOMAIN Ev.elem_slots |-> k - 1] /\ Ev.nelem = Len(Ev.elem_ids))
               /\ Chk("ElementIdentifiersLegal", \A k \in DOMAIN Ev.elem_ids : Legal(Ev.elem_ids[k]))
          ELSE TRUE

(* the simulation-code patch rendered for the network and for its twin in which every electron is respelled "e-": two spellings of
   one species never yield two slots, so the number of patch species and the field-type table are the same *)
TTwin ==
  /\ IsEv("PatchTwin")
  /\ Chk("SpellingsShareOneSlot", Ev.same_count /\ Ev.same_fields)
  /\ UNCHANGED ivars
TNext == TSort \/ TEmit \/ TTwin
TSpec == TInit /\ [][TNext]_<<ivars, tid, l>>
Track ==
  /\ Chk("Inv:Bijection", Bijection)
  /\ Chk("Inv:AliasLegal", AliasLegal)
  /\ Chk("Inv:AliasInjective", AliasInjective)
  /\ Chk("Inv:OneRecordPerSpecies", OneRecordPerSpecies)
  /\ Chk("Inv:ViewsAgree", ViewsAgree)
  /\ TLCSet(tid, IF l > TLCGet(tid) THEN l ELSE TLCGet(tid))
Verdicts == \A i \in 1..NT : PrintT(<<"VERDICT", Traces[i].tid, TLCGet(i), Len(Traces[i].ev) + 1>>)
=============================================================================

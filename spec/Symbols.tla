------------------------------ MODULE Symbols ------------------------------
(***************************************************************************)
(* Layer L2: the symbol registries of the components (reactions, grains,   *)
(* thermal processes) and what the templates declare from them (C10).      *)
(*   registry  = ordered Seq of entries [name, sym, val, ty]               *)
(*               ty in {"constant", "param", "derived"}                    *)
(*   Register  : Component.register (first registration wins unless        *)
(*               forced; a forced one replaces IN PLACE), Unregister       *)
(*   Merge     : utilities._collect_variable_items - ordered union over    *)
(*               the component list keyed by SYMBOL, later value wins,     *)
(*               position of the first occurrence kept                     *)
(* A translation unit is closed when every identifier a declaration or     *)
(* statement uses is a builtin / global of the unit or declared earlier    *)
(* in it, and no name is declared twice.                                   *)
(***************************************************************************)
EXTENDS Integers, Sequences, FiniteSets, TLC

Has(reg, nm) == \E k \in DOMAIN reg : reg[k].name = nm
PosOf(reg, nm) == CHOOSE k \in DOMAIN reg : reg[k].name = nm
Register(reg, e, force) ==
  IF ~Has(reg, e.name) THEN Append(reg, e)
  ELSE IF force THEN [reg EXCEPT ![PosOf(reg, e.name)] = e] ELSE reg
Unregister(reg, nm) == SelectSeq(reg, LAMBDA x : x.name # nm)

OfType(reg, ty) == SelectSeq(reg, LAMBDA x : x.ty = ty)
RECURSIVE MergeInto(_, _)
MergeInto(acc, ents) ==       \* acc: Seq of <<sym, val>>
  IF ents = <<>> THEN acc
  ELSE LET e == ents[1]
           hit == {k \in DOMAIN acc : acc[k][1] = e.sym}
       IN MergeInto(IF hit = {} THEN Append(acc, <<e.sym, e.val>>) ELSE [acc EXCEPT ![CHOOSE k \in hit : TRUE] = <<e.sym, e.val>>], Tail(ents))
RECURSIVE MergeComps(_, _, _)
MergeComps(acc, comps, ty) == IF comps = <<>> THEN acc ELSE MergeComps(MergeInto(acc, OfType(comps[1], ty)), Tail(comps), ty)
Merge(comps, ty) == MergeComps(<<>>, comps, ty)
Syms(m) == [k \in DOMAIN m |-> m[k][1]]

Distinct(s) == \A a, b \in DOMAIN s : a # b => s[a] # s[b]
ToSetOf(s) == {s[k] : k \in DOMAIN s}
(* decls: Seq of [name, uses : Seq of identifiers]; stmts: Seq of Seq of identifiers; globals: set of identifiers *)
Closed(decls, stmts, globals) ==
  /\ \A k \in DOMAIN decls : ToSetOf(decls[k].uses) \subseteq globals \cup {decls[j].name : j \in 1..(k - 1)}
  /\ \A k \in DOMAIN stmts : ToSetOf(stmts[k]) \subseteq globals \cup {decls[j].name : j \in DOMAIN decls}
Undeclared(decls, stmts, globals) ==
  UNION ({ToSetOf(decls[k].uses) \ (globals \cup {decls[j].name : j \in 1..(k - 1)}) : k \in DOMAIN decls}
         \cup {ToSetOf(stmts[k]) \ (globals \cup {decls[j].name : j \in DOMAIN decls}) : k \in DOMAIN stmts})
=============================================================================

CONSTANTS
  MaxN = 100000
  MaxBudget = 100000
  Variant = "asis"
SPECIFICATION TSpec
CONSTRAINT Track
POSTCONDITION Verdicts
CHECK_DEADLOCK FALSE

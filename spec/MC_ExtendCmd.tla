---------------------------- MODULE MC_ExtendCmd ----------------------------
(* Bounded instance: the universe of MC_NetworkEdit (7 reactions over H, H2, C, CH and the electron spelled two ways), every
   input file of up to MaxIn lines, every combination of the editing options (no append phases: the universe holds no ice). *)
EXTENDS ExtendCmd
CONSTANTS MaxIn
TWOBODY == 100
COSMIC  == 101
RX(r, p, rn, pn, tmin, tmax, ty) == [r |-> r, p |-> p, rn |-> rn, pn |-> pn, tmin |-> tmin, tmax |-> tmax, ty |-> ty, tn |-> ty, idx |-> -1]
Base ==
  << RX(<<1, 1>>, <<2>>, <<4, 4>>, <<5>>, -10, -10, TWOBODY),
     RX(<<1, 1>>, <<2>>, <<4, 4>>, <<5>>, 100, 1000, TWOBODY),
     RX(<<2>>, <<1, 1>>, <<5>>, <<4, 4>>, -10, -10, COSMIC),
     RX(<<3, 1>>, <<4>>, <<1, 4>>, <<2>>, -10, -10, TWOBODY),
     RX(<<1, 3>>, <<4>>, <<4, 1>>, <<2>>, -10, -10, TWOBODY),
     RX(<<2, 5>>, <<1, 1, 5>>, <<5, 7>>, <<4, 4, 7>>, -10, -10, TWOBODY),
     RX(<<5, 2>>, <<1, 5, 1>>, <<3, 5>>, <<4, 3, 4>>, -10, -10, TWOBODY) >>
Universe == [R |-> Base, S |-> [c \in 1..5 |-> [surface |-> FALSE, neutral |-> c # 5, gas |-> 0]]]
Inputs == UNION {[1..n -> DOMAIN Base] : n \in 0..MaxIn}
Opts == {o \in [red : BOOLEAN, reduce : {{}, {4, 5}, {1, 2, 4, 5}, {4, 5, 7}}, rm : BOOLEAN, rmspecies : {{}, {3}, {5}, {2, 3}},
                 rmdup : BOOLEAN, phases : {<<>>}] : (o.red \/ o.reduce = {}) /\ (o.rm \/ o.rmspecies = {})}
MCInit == \E in \in Inputs, o \in Opts : CInit(Universe, in, o)
MCSpec == MCInit /\ [][CNextNoAppend]_cvars
Terminates == <>(pc = "done")
=============================================================================

---- MODULE MC_RateLaws ----
EXTENDS RateLaws
VARIABLE x
Init == x = 0
Next == x' = x
(* KIDA 1,3,4,5 and UMIST two-body / PH / CR keep their law when exported to the native type; KIDA 2 with gamma = 0 and UMIST CP do not have
   the same TREE (value-equal for KIDA 2: e^0 = 1; genuinely different for CP: recorded finding of C18) *)
ExportKeepsLaw == /\ \A code \in {1, 3, 4, 5} : SameAfterExport("kida", code, FALSE)
                  /\ SameAfterExport("kida", 2, FALSE)
                  /\ \A code \in {"NN", "IN", "PH", "CR"} : SameAfterExport("umist", code, FALSE)
CPDiffers == ~SameAfterExport("umist", "CP", FALSE)
====

---- MODULE MC_Globals ----
EXTENDS Globals
VARIABLE last
AllCustom == [n \in {1, 2} |-> TRUE]
Mixed     == [n \in {1, 2} |-> n = 1]
NoneCustom == [n \in {1, 2} |-> FALSE]
MInit == GInit /\ last = <<"Init">>
MNext == \E n \in Nets :
           \/ New(n) /\ last' = <<"New", n>>
           \/ \E k \in BOOLEAN, a \in BOOLEAN : Parse(n, k, a) /\ last' = <<"Parse", n, k, a>>
           \/ Edit(n) /\ last' = <<"Edit", n>>
           \/ Render(n) /\ last' = <<"Render", n>>
MSpec == MInit /\ [][MNext]_<<gvars, last>>
NoLast == gvars
====

---------------------------- MODULE Trace_Globals ----------------------------
(* Each trace is one Python process in which operations on two real networks were interleaved (harness/c17_worker.py).
   For Render events the recorder says whether the produced tree is byte-identical (dates / project name normalised) to the
   tree a FRESH process produces from the same network description alone, whether rendering twice gave the same tree, and
   whether the fresh result was identical under three hash seeds.  The specification predicts when that must be so. *)
EXTENDS Globals, Json, IOUtils, TLCExt, Sequences
VARIABLES tid, l
JTrace == JsonDeserialize(IOEnv.TRACE_FILE)
Traces == JTrace.traces
NT     == Len(Traces)
Ev     == Traces[tid].ev[l]
ASSUME \A i \in 1..NT : TLCSet(i, 0)
Chk(name, c) == IF c THEN TRUE ELSE PrintT(<<"MISMATCH", Traces[tid].tid, l, name>>) /\ FALSE
TInit == tid \in 1..NT /\ l = 1 /\ GInit
IsEv(k) == l <= Len(Traces[tid].ev) /\ Ev.op = k /\ l' = l + 1 /\ UNCHANGED tid
Good(n) == clean'[n] /\ kclean'[n]
TNew    == IsEv("New") /\ New(Ev.n) /\ Chk("ConstructorSucceeds", Good(Ev.n) => Ev.ok)
TParse  == IsEv("Parse") /\ Parse(Ev.n, Ev.krome, Ev.aborts)
             /\ Chk("ParseOutcomeIsOwn", Good(Ev.n) => (Ev.ok = ~Ev.aborts))
TEdit   == IsEv("Edit") /\ Edit(Ev.n) /\ Chk("EditSucceeds", Ev.ok)
TRender == IsEv("Render") /\ Render(Ev.n)
             /\ Chk("RenderSucceeds", Good(Ev.n) => Ev.ok)
             /\ Chk("OutputIsFunctionOfDescription", (Good(Ev.n) /\ Ev.ok) => Ev.same)
             /\ Chk("RepeatedRenderIdentical", Ev.ok => Ev.repeat_same)
             /\ Chk("HashSeedIndependent", Ev.seeds_same)
TNext == TNew \/ TParse \/ TEdit \/ TRender
TSpec == TInit /\ [][TNext]_<<gvars, tid, l>>
Track == TLCSet(tid, IF l > TLCGet(tid) THEN l ELSE TLCGet(tid))
Verdicts == \A i \in 1..NT : PrintT(<<"VERDICT", Traces[i].tid, TLCGet(i), Len(Traces[i].ev) + 1>>)
=============================================================================

---- MODULE MC_RoundTrip ----
EXTENDS RoundTrip
V == {1, 2, 3}
Reacs == [r : {<<1, 1>>, <<1, 2>>}, p : {<<>>, <<2>>}, a : V, b : {1}, c : {2}, tmin : {1, 3}, tmax : {3}, ty : {100}, idx : {-1, 7}, src : {"kida"}]
MInit == \E pr \in {f \in [V -> V] : Idempotent(f)}, n \in UNION {[1..m -> Reacs] : m \in 1..2} : TInit0(pr, n)
MSpec == MInit /\ [][TNext0]_tvars
====

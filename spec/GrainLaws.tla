------------------------------ MODULE GrainLaws ------------------------------
(***************************************************************************)
(* Layer L2: grain-surface rate laws of the dust models (C11): for every   *)
(* (model, reaction type) either the law as an expression tree over        *)
(* symbolic parameters or the refusal.  Trees have the canonical shape of  *)
(* harness/cexpr.canon.  Parameters of a case:                             *)
(*   a        alpha as <<negative?, magnitude-text>>                       *)
(*   ms       mass-number text of the reacting species ("28.0")            *)
(*   eb       name of its binding-energy constant ("eb_GCOI"), ebv its     *)
(*            value text ("1150.0"), yld its photodesorption-yield text    *)
(*   chg      "electron" | "neutral" | "ion"                               *)
(*   g        group suffix of the grain's symbols ("" for group 0)         *)
(*   s        symbols of the reaction's format: [tgas, tdust, cr, zism,    *)
(*            g0, av]                                                       *)
(*   two      for two-body surface reactions: [eb1, m1, eb2, m2 texts,     *)
(*            h1, h2 : is reactant 1 / 2 a light species (GH, GH2)]        *)
(* HH93 = Hasegawa & Herbst 1993 (+ Semenov 2010 style coverage factor),   *)
(* RR07 = Roberts et al. 2007 as implemented in UCLCHEM v1.3.              *)
(***************************************************************************)
EXTENDS RateLaws

G(n, g) == V(n \o g)
Cond(c, a, b) == <<"cond", c, a, b>>
Cmp(op, a, b) == <<"cmp", op, a, b>>
NegV(x) == <<"neg", x>>
Pow2(x) == Call("pow", <<x, Num("2.0")>>)
ThermalSpeed(s, ms) == Call("sqrt", <<Div(Mul(<<Num("8.0"), V("kerg"), V(s.tgas)>>), Mul(<<V("pi"), V("amu"), Num(ms)>>))>>)
Nu0(eb, ms, g) == Call("sqrt", <<Div(Mul(<<Num("2.0"), G("sites", g), V("kerg"), V(eb)>>), Mul(<<V("pi"), V("pi"), V("amu"), Num(ms)>>))>>)
CrOverIsm(s) == Div(V(s.cr), V(s.zism))

(* ---- base model: accretion only *)
BaseDepletion(a, ms, g, s) == Mul(<<N(a), V("pi"), G("rG", g), G("rG", g), G("gdens", g), ThermalSpeed(s, ms)>>)

(* ---- HH93 *)
HHDepletion(a, ms, g, s) == Mul(<<G("opt_frz", g), N(a), V("pi"), G("rG", g), G("rG", g), G("gdens", g), ThermalSpeed(s, ms)>>)
HHThermal(eb, ms, g, s) == Mul(<<G("opt_thd", g), G("cov", g), G("nMono", g), G("densites", g), Nu0(eb, ms, g), Call("exp", <<Div(NegV(V(eb)), V(s.tdust))>>)>>)
HHCosmic(eb, ms, g, s) == Mul(<<G("opt_crd", g), G("cov", g), G("duty", g), G("nMono", g), G("densites", g), CrOverIsm(s), Nu0(eb, ms, g),
                               Call("exp", <<Div(NegV(V(eb)), G("Tcr", g))>>)>>)
HHPhoton(yld, g, s) == Mul(<<G("opt_uvd", g), G("cov", g),
                             Add(<<Mul(<<V(s.g0), V("habing"), Call("exp", <<Mul(<<NegV(V(s.av)), Num("3.02")>>)>>)>>), Mul(<<V("crphot"), CrOverIsm(s)>>)>>),
                             Num(yld), G("nMono", g), G("garea", g)>>)
HHECapture(g, s) == Mul(<<V("pi"), G("rG", g), G("rG", g), Call("sqrt", <<Div(Div(Div(Mul(<<Num("8.0"), V("kerg"), V(s.tgas)>>), V("pi")), V("amu")), V("meu"))>>)>>)
E2 == Pow2(V("echarge"))
HHRecomb(a, ms, g, s) == Mul(<<N(a), V("pi"), G("rG", g), G("rG", g), G("gdens", g), ThermalSpeed(s, ms),
                               Add(<<Num("1.0"), Div(Div(Div(E2, G("rG", g)), V("kerg")), V(s.tgas))>>),
                               Add(<<Num("1.0"), Call("sqrt", <<Div(Mul(<<Num("2.0"), E2>>), Add(<<Mul(<<G("rG", g), V("kerg"), V(s.tgas)>>), Mul(<<Num("2.0"), E2>>)>>))>>)>>)>>)
Freq(eb, m, g) == <<G("freq", g), Call("sqrt", <<Div(Num(eb), Num(m))>>)>>
Diff(eb, m, g, s) == Div(Mul(Freq(eb, m, g) \o <<Call("exp", <<Div(Mul(<<<<"num", TRUE, eb>>, G("hop", g)>>), V(s.tdust))>>)>>), G("unisites", g))
Quan(eb, m, g) == Div(Mul(Freq(eb, m, g) \o <<Call("exp", <<Mul(<<G("quan", g), Call("sqrt", <<Mul(<<G("hop", g), Num(m), Num(eb)>>)>>)>>)>>)>>), G("unisites", g))
Kappa(a, s) == Call("exp", <<Div(NegOf(a), V(s.tdust))>>)
KQuan(a, two, g) == Call("exp", <<Mul(<<G("quan", g), Call("sqrt", <<Mul(<<Div(Mul(<<Num(two.m1), Num(two.m2)>>), Add(<<Num(two.m1), Num(two.m2)>>)), N(a)>>)>>)>>)>>)
Fmax(a, b) == Call("fmax", <<a, b>>)
SurfaceCore(a, two, g, s) ==      \* the factors before "pow((nMono*densites), 2.0) / gdens"
  LET ad == Diff(two.eb1, two.m1, g, s)  aq == Quan(two.eb1, two.m1, g)
      bd == Diff(two.eb2, two.m2, g, s)  bq == Quan(two.eb2, two.m2, g) IN
  CASE two.h1 /\ two.h2   -> <<Fmax(Kappa(a, s), KQuan(a, two, g)), Add(<<Fmax(ad, aq), Fmax(bd, bq)>>)>>
    [] two.h1 /\ ~two.h2  -> <<Fmax(Kappa(a, s), KQuan(a, two, g)), Add(<<Fmax(ad, aq), bd>>)>>
    [] ~two.h1 /\ two.h2  -> <<Fmax(Kappa(a, s), KQuan(a, two, g)), Add(<<ad, Fmax(bd, bq)>>)>>
    [] OTHER              -> <<Kappa(a, s), Add(<<ad, bd>>)>>
HHSurface(pre, a, two, g, s) ==
  Mul(<<Div(Mul(pre \o SurfaceCore(a, two, g, s) \o <<Pow2(Mul(<<G("nMono", g), G("densites", g)>>))>>), G("gdens", g)), G("cov", g), G("cov", g)>>)

(* ---- RR07 / RR07X *)
Coulomb(g, s) == Add(<<Num("1.0"), Div(Num("16.71e-4"), Mul(<<G("rG", g), V(s.tgas)>>))>>)
RRDepletion(a, ms, chg, g, s) ==
  Mul(<<Num("4.57e4"), N(a), G("gxsec", g), G("fr", g)>> \o
      (CASE chg = "electron" -> <<Coulomb(g, s)>>
         [] chg = "neutral"  -> <<Call("sqrt", <<Div(V(s.tgas), Num(ms))>>)>>
         [] OTHER            -> <<Call("sqrt", <<Div(V(s.tgas), Num(ms))>>), Coulomb(g, s)>>))
Guarded(thr, ebv, body, g) == Cond(Cmp(">", G("mantabund", g), Num("1e-30")), Cond(Cmp(">=", G(thr, g), Num(ebv)), body, Num("0.0")), Num("0.0"))
RRCosmic(ebv, g, s) == Guarded("eb_crd", ebv, Div(Mul(<<G("opt_crd", g), Num("4.0"), V("pi"), G("crdeseff", g), CrOverIsm(s), Num("1.64e-4"), G("gxsec", g)>>), G("mant", g)), g)
RRPhoton(ebv, yld, g, s) == Guarded("eb_uvd", ebv,
    Div(Mul(<<G("opt_uvd", g), Num("4.875e3"), G("gxsec", g),
              Add(<<CrOverIsm(s), Mul(<<Div(V(s.g0), G("uvcreff", g)), Call("exp", <<Mul(<<<<"num", TRUE, "1.8">>, V(s.av)>>)>>)>>)>>), Num(yld)>>), G("mant", g)), g)
RRH2(ebv, g, s) == Guarded("eb_h2d", ebv, Div(Mul(<<G("opt_h2d", g), G("h2deseff", g), V("H2formation"), Idx("y", "IDX_HI")>>), G("mant", g)), g)
RRXThermal(eb, ms, g, s) == Cond(Cmp(">", G("mantabund", g), Num("1e-30")),
    Mul(<<V("opt_thd"), Nu0(eb, ms, g), Num("2.0"), G("densites", g), Call("exp", <<Div(NegV(V(eb)), V(s.tdust))>>)>>), Num("0.0"))

Refused == <<"refused">>
(* ty: naunet reaction type code *)
GrainLaw(model, ty, a, c) ==
  CASE model = "base" -> (IF ty = 200 THEN BaseDepletion(a, c.ms, c.g, c.s) ELSE Refused)
    [] model \in {"hh93", "hh93i"} ->
         (CASE ty = 200 -> HHDepletion(a, c.ms, c.g, c.s) [] ty = 201 -> HHThermal(c.eb, c.ms, c.g, c.s) [] ty = 202 -> HHCosmic(c.eb, c.ms, c.g, c.s)
            [] ty = 203 -> HHPhoton(c.yld, c.g, c.s) [] ty = 221 -> HHECapture(c.g, c.s) [] ty = 220 -> HHRecomb(a, c.ms, c.g, c.s)
            [] ty = 300 -> HHSurface(<<>>, a, c.two, c.g, c.s)
            [] ty = 204 -> HHSurface(<<G("opt_rcd", c.g), G("branch", c.g)>>, a, c.two, c.g, c.s)
            [] OTHER -> Refused)
    [] model \in {"rr07", "rr07x"} ->
         (CASE ty = 200 -> RRDepletion(a, c.ms, c.chg, c.g, c.s) [] ty = 202 -> RRCosmic(c.ebv, c.g, c.s) [] ty = 203 -> RRPhoton(c.ebv, c.yld, c.g, c.s)
            [] ty = 210 -> RRH2(c.ebv, c.g, c.s) [] ty = 201 -> (IF model = "rr07x" THEN RRXThermal(c.eb, c.ms, c.g, c.s) ELSE Refused)
            [] OTHER -> Refused)
    [] OTHER -> <<"undefined">>

GrainTypes == {200, 201, 202, 203, 204, 210, 220, 221, 300}
Models == {"base", "hh93", "hh93i", "rr07", "rr07x"}
(* every (model, type) is decided: a law or a refusal, never undefined; the variants only add laws *)
Dummy == [ms |-> "1.0", eb |-> "eb_X", ebv |-> "1.0", yld |-> "0.1", chg |-> "neutral", g |-> "", s |-> [tgas |-> "Tgas", tdust |-> "Tdust", cr |-> "zeta", zism |-> "zism", g0 |-> "G0", av |-> "Av"],
          two |-> [eb1 |-> "1.0", m1 |-> "1.0", eb2 |-> "1.0", m2 |-> "1.0", h1 |-> FALSE, h2 |-> FALSE]]
TableTotal == \A m \in Models, ty \in GrainTypes : GrainLaw(m, ty, <<FALSE, "1.0">>, Dummy) # <<"undefined">>
VariantsOnlyAdd == \A ty \in GrainTypes :
   /\ (GrainLaw("hh93", ty, <<FALSE, "1.0">>, Dummy) = GrainLaw("hh93i", ty, <<FALSE, "1.0">>, Dummy))
   /\ (GrainLaw("rr07", ty, <<FALSE, "1.0">>, Dummy) # Refused => GrainLaw("rr07x", ty, <<FALSE, "1.0">>, Dummy) = GrainLaw("rr07", ty, <<FALSE, "1.0">>, Dummy))
=============================================================================

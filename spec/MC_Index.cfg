CONSTANTS
  MaxS = 2
  Variant = "asis"
SPECIFICATION MSpec
CONSTRAINT Bound
INVARIANT Bijection
INVARIANT AliasLegal
INVARIANT AliasInjective
INVARIANT OneRecordPerSpecies
INVARIANT ViewsAgree
CHECK_DEADLOCK FALSE

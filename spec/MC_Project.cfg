CONSTANTS
  Descs = {1, 2, 3, 4}
  PVariant = "asis"
SPECIFICATION MCSpec
INVARIANT TypeOK
INVARIANT SummaryDescribesSources
PROPERTY ConfiguredOnce
PROPERTY UnforcedRenderKeeps
PROPERTY RenderedFromCurrentConfig
PROPERTY InitNeverOverwrites
PROPERTY PatchLeavesSources
CHECK_DEADLOCK FALSE

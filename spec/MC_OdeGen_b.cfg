CONSTANTS
  NS = 2
  MaxR = 1
  MaxRLen = 3
  MaxPLen = 1
  WithM = TRUE
  WithT = FALSE
SPECIFICATION MCSpec
INVARIANT RhsIsMassAction
INVARIANT UnreactiveIsZero
INVARIANT JacIsDerivative
INVARIANT OmittedIsZero
INVARIANT CsrOK
CHECK_DEADLOCK FALSE

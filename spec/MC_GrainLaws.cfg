INIT Init
NEXT Next
INVARIANT TableTotal
INVARIANT VariantsOnlyAdd

CONSTANTS
  EnzoC <- TEnzo
  GrackleC <- TGrackle
  Canon <- TCanon
  Base = 104
  SVariant = "asis"
SPECIFICATION TSpec
CONSTRAINT Track
POSTCONDITION Verdicts
CHECK_DEADLOCK FALSE

---- MODULE MC_GrainLaws ----
EXTENDS GrainLaws
VARIABLE x
Init == x = 0
Next == x' = x
====

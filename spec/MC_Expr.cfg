CONSTANTS
  Variant = "asis"
INIT Init
NEXT Next
INVARIANT SameValue

CONSTANTS
  MaxLines = 4
  Variant = "asis"
SPECIFICATION MSpec
INVARIANT OnePerDataLine
INVARIANT OrderPreserved
INVARIANT NoPseudoSpecies
CHECK_DEADLOCK FALSE

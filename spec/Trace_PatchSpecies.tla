-------------------------- MODULE Trace_PatchSpecies --------------------------
(* Real patch renderings against PatchSpecies.tla.  Header of a trace: the network's species in index order as [c, s] records --
   classes and canonical spellings assigned by the DRIVER's own table of the host code's species and of the electron's spellings.
   Event Patch: the new field types read from typedefs.h (as positions in the network's species list), the FieldUndefined number
   and ENZO_NSPECIES read from naunet_enzo.h. *)
EXTENDS PatchSpecies, TLC, Json, IOUtils, TLCExt
VARIABLES tid, l
JTrace == JsonDeserialize(IOEnv.TRACE_FILE)
Traces == JTrace.traces
NT     == Len(Traces)
Ev     == Traces[tid].ev[l]
ASSUME \A i \in 1..NT : TLCSet(i, 0)
Chk(nm, c) == IF c THEN TRUE ELSE PrintT(<<"MISMATCH", Traces[tid].tid, l, nm>>) /\ FALSE
(* the host code's 28 species are classes 1..28, the first 12 of them are the cooling library's; spelling 0 is the listed one *)
TEnzo == 1..28
TGrackle == 1..12
TCanon == [c \in 1..200 |-> 0]
TInit == tid \in 1..NT /\ l = 1 /\ SInit
TPatch ==
  /\ l <= Len(Traces[tid].ev) /\ l' = l + 1 /\ UNCHANGED tid
  /\ RenderPatch(Traces[tid].species)
  /\ Chk("PatchRenders", Ev.ok)
  /\ Chk("NewFieldsAreTheOtherSpecies", [k \in DOMAIN fields' |-> fields'[k]] = [k \in DOMAIN Ev.fields |-> IF Ev.fields[k] \in DOMAIN Traces[tid].species THEN Traces[tid].species[Ev.fields[k]] ELSE [c |-> 0, s |-> 0]])
  /\ Chk("FieldNumbers", Ev.numbers = [k \in DOMAIN Ev.fields |-> Base + k - 1] /\ undefined' = Ev.undefined)
  /\ Chk("SpeciesCount", nspecies' = Ev.nspecies)
TSpec == TInit /\ [][TPatch]_<<pvars2, tid, l>>
Track ==
  /\ Chk("Inv:NoFieldForPredefinedClass", NoFieldForPredefinedClass)
  /\ Chk("Inv:OneFieldPerOtherSpecies", OneFieldPerOtherSpecies)
  /\ Chk("Inv:CountIsUnion", CountIsUnion)
  /\ TLCSet(tid, IF l > TLCGet(tid) THEN l ELSE TLCGet(tid))
Verdicts == \A i \in 1..NT : PrintT(<<"VERDICT", Traces[i].tid, TLCGet(i), Len(Traces[i].ev) + 1>>)
=============================================================================

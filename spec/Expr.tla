-------------------------------- MODULE Expr --------------------------------
(***************************************************************************)
(* Layer L2: translation of KROME (Fortran) rate expressions to C (C12).   *)
(* A Fortran expression is a TREE (what the text means under Fortran's     *)
(* rules: ** binds tighter than unary minus, which binds tighter than      *)
(* * and /, then + and -; ** associates to the right, the others to the    *)
(* left):                                                                  *)
(*   <<"num", text>>  <<"var", name>>  <<"ab", species>>   n(idx_species)  *)
(*   <<"neg", t>>  <<"bin", op, a, b>> op in + - * / **   <<"call", f, t>> *)
(* Translate gives the C tree in the canonical shape of harness/cexpr:     *)
(* pow(a, b) for **, y[IDX_alias] for abundances, everything else kept.    *)
(* EvalF / EvalC give both trees a value over small integers, so that      *)
(* SameValue can be model-checked for every tree of the bound.             *)
(***************************************************************************)
EXTENDS Integers, Sequences, TLC

CONSTANTS Variant     \* "asis" = the intended translation | "left_pow" (a**b**c as (a**b)**c) | "neg_base" (-a**b as (-a)**b)

RECURSIVE Translate(_, _)
Flat(tag, a, b) == IF a[1] = tag THEN <<tag, Append(a[2], b)>> ELSE <<tag, <<a, b>>>>
NumC(txt) == <<"num", FALSE, txt>>
Translate(t, alias) ==
  CASE t[1] = "num" -> NumC(t[2])
    [] t[1] = "var" -> <<"var", IF t[2] = "Hnuclei" THEN "nH" ELSE t[2]>>
    [] t[1] = "ab"  -> <<"idx", "y", <<"var", alias[t[2]]>>>>
    [] t[1] = "neg" -> LET x == Translate(t[2], alias) IN
                       IF Variant = "neg_base" /\ t[2][1] = "bin" /\ t[2][2] = "**" /\ t[2][3][1] = "num"
                         THEN <<"call", "pow", << <<"num", TRUE, t[2][3][2]>>, Translate(t[2][4], alias) >> >>
                       ELSE IF x[1] = "num" THEN <<"num", ~x[2], x[3]>> ELSE <<"neg", x>>
    [] t[1] = "call" -> <<"call", t[2], <<Translate(t[3], alias)>>>>
    [] t[1] = "bin" ->
         LET a == Translate(t[3], alias)
             b == Translate(t[4], alias) IN
         CASE t[2] = "+"  -> Flat("add", a, b)
           [] t[2] = "*"  -> Flat("mul", a, b)
           [] t[2] = "-"  -> <<"sub", a, b>>
           [] t[2] = "/"  -> <<"div", a, b>>
           [] t[2] = "**" -> IF Variant = "left_pow" /\ t[4][1] = "bin" /\ t[4][2] = "**"
                               THEN <<"call", "pow", << <<"call", "pow", <<a, Translate(t[4][3], alias)>>>>, Translate(t[4][4], alias) >> >>
                               ELSE <<"call", "pow", <<a, b>>>>

(* values over small integers: numbers are their integer part's text "2", "3"; variables take the value 2 *)
NumVal(txt) == CASE txt = "2" -> 2 [] txt = "3" -> 3 [] OTHER -> 1
RECURSIVE Pow(_, _)
Pow(a, n) == IF n <= 0 THEN 1 ELSE a * Pow(a, n - 1)
RECURSIVE EvalF(_)
EvalF(t) ==
  CASE t[1] = "num" -> NumVal(t[2]) [] t[1] = "var" -> 2 [] t[1] = "ab" -> 3
    [] t[1] = "neg" -> -EvalF(t[2])
    [] t[1] = "bin" -> (CASE t[2] = "+" -> EvalF(t[3]) + EvalF(t[4]) [] t[2] = "-" -> EvalF(t[3]) - EvalF(t[4])
                          [] t[2] = "*" -> EvalF(t[3]) * EvalF(t[4]) [] t[2] = "**" -> Pow(EvalF(t[3]), EvalF(t[4])) [] OTHER -> 0)
    [] OTHER -> 0
RECURSIVE EvalC(_)
SumSeq(s) == LET F[k \in 0..Len(s)] == IF k = 0 THEN 0 ELSE F[k - 1] + EvalC(s[k]) IN F[Len(s)]
ProdSeq(s) == LET F[k \in 0..Len(s)] == IF k = 0 THEN 1 ELSE F[k - 1] * EvalC(s[k]) IN F[Len(s)]
EvalC(c) ==
  CASE c[1] = "num" -> (IF c[2] THEN -NumVal(c[3]) ELSE NumVal(c[3])) [] c[1] = "var" -> 2 [] c[1] = "idx" -> 3
    [] c[1] = "neg" -> -EvalC(c[2]) [] c[1] = "add" -> SumSeq(c[2]) [] c[1] = "mul" -> ProdSeq(c[2])
    [] c[1] = "sub" -> EvalC(c[2]) - EvalC(c[3])
    [] c[1] = "call" -> (IF c[2] = "pow" THEN Pow(EvalC(c[3][1]), EvalC(c[3][2])) ELSE 0)
    [] OTHER -> 0
RECURSIVE Evaluable(_)
Evaluable(t) == CASE t[1] \in {"num", "var", "ab"} -> TRUE [] t[1] = "neg" -> Evaluable(t[2])
                  [] t[1] = "bin" -> t[2] \in {"+", "-", "*", "**"} /\ Evaluable(t[3]) /\ Evaluable(t[4]) /\ (t[2] = "**" => (EvalF(t[4]) \in 0..9 /\ EvalF(t[3]) \in -9..9))
                  [] OTHER -> FALSE
=============================================================================

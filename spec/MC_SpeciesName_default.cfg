CONSTANTS
  Variant = "asis"
  MaxTok = 2
  TableId = "default"
SPECIFICATION MSpec
INVARIANT RecoversComposition
CHECK_DEADLOCK FALSE

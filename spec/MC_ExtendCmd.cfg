CONSTANTS
  Variant = "asis"
  CmdVariant = "asis"
  MaxIn = 3
SPECIFICATION MCSpec
INVARIANT CacheConsistent
INVARIANT AllowedRespected
INVARIANT NothingLost
INVARIANT PipelineResult
INVARIANT CorePrefix
CHECK_DEADLOCK FALSE

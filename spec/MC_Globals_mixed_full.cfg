CONSTANTS
  Nets = {1, 2}
  Custom <- Mixed
  Variant = "asis"
SPECIFICATION MSpec
VIEW NoLast
CONSTRAINT Depth
INVARIANT NonInterference
CHECK_DEADLOCK FALSE

-------------------------- MODULE Trace_Lifecycle --------------------------
(***************************************************************************)
(* Validates recorded life cycles of the REAL generated solver class       *)
(* (compiled against the API stand-in, driven by shim/lifecycle_driver.cpp)*)
(* against Lifecycle.tla.  One event per public call, logged at its return *)
(* with the stand-in's count of live API objects; a Solve event also       *)
(* carries what the integrator was configured with and the Jacobian as the *)
(* linear solver reads it (decoded by the layout the matrix was DECLARED   *)
(* with).  Pattern (trace header) = the (row, column) cells of the dense   *)
(* variant, read independently from its source.                            *)
(***************************************************************************)
EXTENDS Lifecycle, Sequences, Json, IOUtils, TLCExt

VARIABLES tid, l
JTrace == JsonDeserialize(IOEnv.TRACE_FILE)
Traces == JTrace.traces
NT     == Len(Traces)
Ev     == Traces[tid].ev[l]
ASSUME \A i \in 1..NT : TLCSet(i, 0)
Chk(name, c) == IF c THEN TRUE ELSE PrintT(<<"MISMATCH", Traces[tid].tid, l, name>>) /\ FALSE
ToSetOf(s) == {s[k] : k \in DOMAIN s}

TInit == tid \in 1..NT /\ l = 1 /\ LInit

Step(e) ==
  CASE e.op = "I" -> Init(e.n, e.cfg)
    [] e.op = "R" -> Reset(e.n, e.cfg)
    [] e.op = "S" -> Solve
    [] e.op = "F" -> Finalize

Post(e) ==
  /\ Chk("ReturnValue", (e.ret = 0) = (IF e.op \in {"I", "R"} THEN e.n = 1 ELSE TRUE))
  /\ Chk("LiveObjects", live' = e.live)
  /\ Chk("NoDoubleFree", e.bad_free = 0)
  /\ Chk("NoUseOfDestroyedObject", e.use_dead = 0)
  /\ IF e.op = "S"
       THEN /\ Chk("ConfiguredOnce", e.nconf >= 1)
            /\ Chk("AppliedConfiguration", applied' = e.conf)
            /\ Chk("MatrixAttachedToItsSolver", e.attached)
            /\ Chk("DeclaredLayout", mat.fmt = e.fmt /\ mat.n = e.rows /\ (Method = "dense" \/ mat.nnz = e.nnz))
            /\ Chk("JacobianAsTheSolverReadsIt", ToSetOf(e.seen) = ToSetOf(Traces[tid].pattern))
            /\ Chk("JacobianValuesAsDense", e.values_match)
       ELSE TRUE

TStep ==
  /\ l <= Len(Traces[tid].ev) /\ l' = l + 1 /\ UNCHANGED tid
  /\ Step(Ev)
  /\ Post(Ev)

TSpec == TInit /\ [][TStep]_<<lvars, tid, l>>

Track ==
  /\ Chk("Inv:Balanced", Balanced)
  /\ Chk("Inv:SolverSeesDeclaredLayout", SolverSeesDeclaredLayout)
  /\ Chk("Inv:JacobianReadAsFilled", JacobianReadAsFilled)
  /\ Chk("Inv:AppliedIsRequested", AppliedIsRequested)
  /\ TLCSet(tid, IF l > TLCGet(tid) THEN l ELSE TLCGet(tid))

Verdicts == \A i \in 1..NT : PrintT(<<"VERDICT", Traces[i].tid, TLCGet(i), Len(Traces[i].ev) + 1>>)
=============================================================================

CONSTANTS
  EnzoC <- MCEnzo
  GrackleC <- MCGrackle
  Canon <- MCCanon
  Base = 104
  SVariant = "asis"
SPECIFICATION MCSpec
INVARIANT NoFieldForPredefinedClass
INVARIANT OneFieldPerOtherSpecies
INVARIANT CountIsUnion
INVARIANT FieldNumbersContiguous
CHECK_DEADLOCK FALSE

---------------------------- MODULE Trace_Formats ----------------------------
(* One trace per encoded file: header = format + the lines as the independent encoder wrote them (class and named record),
   one event = the reaction list the REAL reader produced (names, coefficient/ window values as canonical decimal texts,
   index, type code) or the exception it raised.  TLC runs the line machine and compares reaction by reaction. *)
EXTENDS Formats, Json, IOUtils, TLCExt
VARIABLES tid, l
JTrace == JsonDeserialize(IOEnv.TRACE_FILE)
Traces == JTrace.traces
NT     == Len(Traces)
ASSUME \A i \in 1..NT : TLCSet(i, 0)
Chk(nm, c) == IF c THEN TRUE ELSE PrintT(<<"MISMATCH", Traces[tid].tid, l, nm>>) /\ FALSE
SeqBag(s) == [x \in {s[k] : k \in DOMAIN s} |-> Cardinality({k \in DOMAIN s : s[k] = x})]
TInit == tid \in 1..NT /\ l = 1 /\ FInit(Traces[tid].fmt, Traces[tid].file)
TSilent == Line /\ UNCHANGED <<tid, l>>
TRead ==
  /\ Done /\ l = 1 /\ l' = 2 /\ UNCHANGED tid
  /\ LET o == Traces[tid].obs IN
     /\ Chk("ReaderAccepts", o.ok)
     /\ Chk("OneReactionPerDataLine", Len(o.reactions) = Len(rlist))
     /\ \A k \in DOMAIN rlist : k \in DOMAIN o.reactions =>
          /\ Chk("Reactants", SeqBag(o.reactions[k].r) = SeqBag(rlist[k].r))
          /\ Chk("Products", SeqBag(o.reactions[k].p) = SeqBag(rlist[k].p))
          /\ Chk("Coefficients", o.reactions[k].a = rlist[k].a /\ o.reactions[k].b = rlist[k].b /\ o.reactions[k].c = rlist[k].c)
          /\ Chk("Window", Traces[tid].window_exempt[k] \/ (o.reactions[k].tmin = rlist[k].tmin /\ o.reactions[k].tmax = rlist[k].tmax))
          /\ Chk("WindowOfFreezeOut", ~Traces[tid].window_exempt[k] \/ (o.reactions[k].tmin = rlist[k].tmin /\ o.reactions[k].tmax = rlist[k].tmax))
          /\ Chk("Index", o.reactions[k].idx = rlist[k].idx)
          /\ Chk("TypeFromCode", o.reactions[k].ty = rlist[k].ty)
  /\ UNCHANGED fvars
TNext == TSilent \/ TRead
TSpec == TInit /\ [][TNext]_<<fvars, tid, l>>
Track ==
  /\ Chk("Inv:NoPseudoSpecies", NoPseudoSpecies)
  /\ Chk("Inv:OnePerDataLine", OnePerDataLine)
  /\ TLCSet(tid, IF l > TLCGet(tid) THEN l ELSE TLCGet(tid))
Verdicts == \A i \in 1..NT : PrintT(<<"VERDICT", Traces[i].tid, TLCGet(i), 2>>)
=============================================================================

-------------------------- MODULE Trace_ExtendCmd --------------------------
(***************************************************************************)
(* Validates recorded runs of the REAL `naunet extend` command against     *)
(* ExtendCmd.tla.  The recorder logs every Network call the command makes  *)
(* (on every Network object it creates, in order); the harness folds the   *)
(* construction of the reduced network into one Rebuild event and each     *)
(* append phase into one event, adds a Write event with the reactions it   *)
(* read back from the OUTPUT FILE with its own reader, and puts the        *)
(* options it passed and the reactions it wrote to the INPUT FILE in the   *)
(* header.  A phase whose option is absent is a silent model step.         *)
(***************************************************************************)
EXTENDS ExtendCmd, Json, IOUtils, TLCExt

VARIABLES tid, l
JTrace == JsonDeserialize(IOEnv.TRACE_FILE)
Traces == JTrace.traces
NT     == Len(Traces)
T      == Traces[tid]
Ev     == T.ev[l]
ASSUME \A i \in 1..NT : TLCSet(i, 0)
Chk(name, c) == IF c THEN TRUE ELSE PrintT(<<"MISMATCH", Traces[tid].tid, l, name>>) /\ FALSE
ToSetOf(s) == {s[k] : k \in DOMAIN s}

OptOf(t) == [red |-> t.opt.red, reduce |-> ToSetOf(t.opt.reduce), rm |-> t.opt.rm, rmspecies |-> ToSetOf(t.opt.rmspecies),
             rmdup |-> t.opt.rmdup, phases |-> t.opt.phases]
TInit == tid \in 1..NT /\ l = 1 /\ CInit([R |-> Traces[tid].R, S |-> Traces[tid].S], Traces[tid].input, OptOf(Traces[tid]))

Post(e) ==
  /\ Chk("ReactionList", rlist' = e.post.rlist)
  /\ Chk("SkippedList", skipped' = e.post.skipped)
  /\ Chk("ReactantCache", reactants' = ToSetOf(e.post.reactants))
  /\ Chk("ProductCache", products' = ToSetOf(e.post.products))
  /\ Chk("SpeciesView", (reactants' \cup products' \cup required') = ToSetOf(e.post.species))
  /\ Chk("SourcesView", (reactants' \ products') = ToSetOf(e.post.sources))
  /\ Chk("SinksView", (products' \ reactants') = ToSetOf(e.post.sinks))
  /\ Chk("Indices", idxs' = e.post.idxs)
  /\ IF e.act = "FindDup" THEN Chk("DupReport", report'.dupidx = e.dupidx) ELSE TRUE

(* a written line and a held reaction describe the same reaction: same multisets of reactant / product names (the order inside a
   side carries no meaning and the writer is free to choose it), same window and type *)
SameReaction(w, i) == /\ SeqBag(w.rn) = SeqBag(D(i).rn) /\ SeqBag(w.pn) = SeqBag(D(i).pn)
                      /\ w.tmin = D(i).tmin /\ w.tmax = D(i).tmax /\ w.ty = D(i).ty

(* the phase the command is in decides which call must come next, and with which arguments *)
Consume(e) ==
  CASE pc = "construct" -> Chk("CmdConstructsNetwork", e.act = "Init") /\ Construct /\ Post(e)
    [] pc = "load"      -> Chk("CmdLoadsInputFile", e.act = "AddAll" /\ e.ids = input) /\ Load /\ Post(e)
    [] pc = "reduce"    -> /\ opt.red
                           /\ Chk("CmdReduceCall", e.act = "Rebuild")
                           /\ Chk("ReduceKeepsExactlyTheNamed", e.ids = SelectSeq(rlist, LAMBDA i : NameFits(opt.reduce, i)))
                           /\ Reduce /\ Post(e)
    [] pc = "rmspecies" -> /\ opt.rm
                           /\ Chk("CmdRemoveSpeciesCall", e.act = "RemoveIdxList")
                           /\ Chk("RemovesExactlyTheReactionsOfTheSpecies", ToSetOf(e.poss) = Mentions(opt.rmspecies))
                           /\ RmSpecies /\ Post(e)
    [] pc = "finddup"   -> opt.rmdup /\ Chk("CmdFindDuplicateCall", e.act = "FindDup") /\ FindDupStep /\ Post(e)
    [] pc = "rmdup"     -> /\ opt.rmdup
                           /\ Chk("CmdRemoveDuplicateCall", e.act = "RemoveIdxList")
                           /\ Chk("RemovesExactlyTheReportedRepeats", ToSetOf(e.poss) = ToSetOf(report.dupidx))
                           /\ RmDup /\ Post(e)
    [] pc = "append"    -> IF nph < Len(opt.phases)
                             THEN /\ Chk("CmdAppendPhase", e.act \in {"AppendDepletion", "AppendDesorption"} /\ e.ty = opt.phases[nph + 1])
                                  /\ Chk("AppendCompleteAndExact", IF e.ty = 200 THEN DepletionComplete(e.ids) ELSE DesorptionComplete(e.ids, e.ty))
                                  /\ AddAll(e.ids) /\ nph' = nph + 1 /\ UNCHANGED <<pc, opt, input, core>> /\ Post(e)
                             ELSE Chk("CmdReindexes", e.act = "Reindex") /\ ReindexStep /\ Post(e)
    [] pc = "write"     -> /\ Chk("CmdWrites", e.act = "Write")
                           /\ Chk("WrittenFileIsTheNetwork", Len(e.out) = Len(rlist) /\ \A k \in DOMAIN rlist : SameReaction(e.out[k], rlist[k]))
                           /\ Write
    [] OTHER            -> Chk("NoCallAfterTheCommandEnded", FALSE) /\ UNCHANGED cvars

Silent ==
  \/ pc = "reduce" /\ ~opt.red /\ Reduce
  \/ pc = "rmspecies" /\ ~opt.rm /\ RmSpecies
  \/ pc = "finddup" /\ ~opt.rmdup /\ FindDupStep
  \/ pc = "rmdup" /\ ~opt.rmdup /\ RmDup

TStep ==
  \/ l <= Len(T.ev) /\ l' = l + 1 /\ UNCHANGED tid /\ Consume(Ev)
  \/ Silent /\ UNCHANGED <<tid, l>>

TSpec == TInit /\ [][TStep]_<<cvars, tid, l>>

Track ==
  /\ Chk("Inv:CacheConsistent", CacheConsistent)
  /\ Chk("Inv:AllowedRespected", AllowedRespected)
  /\ Chk("Inv:NothingLost", NothingLost)
  /\ Chk("Inv:PipelineResult", PipelineResult)
  /\ Chk("Inv:CorePrefix", CorePrefix)
  /\ TLCSet(tid, IF l > TLCGet(tid) THEN l ELSE TLCGet(tid))

Verdicts == \A i \in 1..NT : PrintT(<<"VERDICT", Traces[i].tid, TLCGet(i), Len(Traces[i].ev) + 1>>)
=============================================================================

SPECIFICATION TSpec
CONSTANTS
  Variant = "asis"
  CmdVariant = "asis"
CONSTRAINT Track
POSTCONDITION Verdicts
CHECK_DEADLOCK FALSE

---------------------------- MODULE Trace_Solve ----------------------------
(***************************************************************************)
(* Validates batches of executions of the REAL generated Naunet::Solve     *)
(* (compiled against the scripted CVODE stand-in, /verif/shim) against     *)
(* Solve.tla.  One JSON file holds many traces; every trace is its own     *)
(* initial state; a trace is accepted iff position Len+1 is reached.       *)
(* Logged: every CVodeInit / CVode / CVodeReInit call with its arguments,  *)
(* result and the state the integrator holds, and Solve's return.          *)
(* Not logged (inferred by TLC): pc, level, step, rem, base, tmp.          *)
(***************************************************************************)
EXTENDS Solve, Json, IOUtils, TLCExt

VARIABLES tid, l
tvars == <<vars, tid, l>>

JTrace == JsonDeserialize(IOEnv.TRACE_FILE)
Traces == JTrace.traces
NT     == Len(Traces)
Ev     == Traces[tid].ev[l]

ASSUME \A i \in 1..NT : TLCSet(i, 0)

Chk(name, c) == IF c THEN TRUE ELSE PrintT(<<"MISMATCH", Traces[tid].tid, l, name>>) /\ FALSE

TInit == tid \in 1..NT /\ l = 1 /\ Init

IsEv(k) == l <= Len(Traces[tid].ev) /\ Ev.k = k /\ l' = l + 1 /\ UNCHANGED tid

(* CVodeInit(cv_mem_, Fex, t0, cv_y_): origin 0, state = the caller's *)
TCVodeInit ==
  /\ IsEv("Init") /\ pc \notin {"handle", "enter"}      \* (silent model steps pending: let them run first)
  /\ Chk("InitOnlyAtStart", pc = "call0")
  /\ Chk("InitOriginZero", Ev.t0 = 0)
  /\ Chk("InitStateIsCallers", Ev.tau = 0)
  /\ UNCHANGED vars

TCVode ==
  /\ IsEv("CVode") /\ pc \notin {"handle", "enter"}
  /\ Chk("CVodeOnlyWhenModelCalls", pc \in {"call0", "sub"})
  /\ Chk("FailureTimeExact", Ev.flag < 0 => Ev.tretint)
  /\ IF pc = "call0"
       THEN /\ Chk("FirstTargetIsWholeInterval", Ev.toutint /\ Ev.tout = T)
            /\ Chk("Call0Progress", IF Ev.flag >= 0 THEN Ev.tret = T ELSE Ev.tret \in 0..(T-1))
            /\ Call0(Ev.flag, Ev.tret)
       ELSE /\ Chk("TargetWithinRemaining", Ev.tout <= rem)
            /\ Chk("SubProgress", IF Ev.flag >= 0 /\ Ev.toutint /\ Ev.tout = rem THEN Ev.tret = rem
                                  ELSE Ev.tret \in t..(rem-1))
            /\ SubStep(Ev.flag, Ev.tret, Ev.toutint /\ Ev.tout = rem)
  /\ Chk("IntegratedTime", Ev.tauint => tau' = Ev.tau)

TReInit ==
  /\ IsEv("ReInit") /\ pc \notin {"handle", "enter"}
  /\ Chk("ReInitOnlyWhenModelReinits", pc = "reinit")
  /\ Chk("ReInitOriginZero", Ev.t0 = 0)
  /\ Chk("ReInitState", Ev.tauint /\ Ev.tau = tmp)
  /\ ReInit(Ev.flag >= 0)

TReturn ==
  /\ IsEv("Return") /\ pc \notin {"handle", "enter"}
  /\ Chk("ReturnOnlyWhenModelReturns", pc = "ret")
  /\ Chk("ReturnValue", ret = Ev.ret)
  /\ Chk("ExactSpanObserved", Ev.ret = "SUCCESS" => (Ev.tauint /\ Ev.tau = T))
  /\ Chk("FinalStateIsIntegratorState", Ev.tauint => Ev.tau = tau)
  /\ Chk("AllEquationsAdvancedAlike", Ev.allsame)
  /\ Return
  /\ Chk("InitialLogged", logged' = Ev.logged)
  /\ Chk("LoggedValueIsInitial", Ev.logged => Ev.loggedok)
  /\ Chk("IntegratorFreed", Ev.freed)

TSilent == (Handle \/ Enter) /\ UNCHANGED <<tid, l>>

TNext == TCVodeInit \/ TCVode \/ TReInit \/ TReturn \/ TSilent

TSpec == TInit /\ [][TNext]_tvars

(* evaluated on every reached state: the invariants of Solve + progress register *)
Track ==
  /\ Chk("Inv:TypeOK-lite", pc \in {"call0", "handle", "enter", "reinit", "sub", "ret", "done"})
  /\ Chk("Inv:ExactSpan", ExactSpan)
  /\ Chk("Inv:NoOvershoot", NoOvershoot)
  /\ Chk("Inv:Remaining", Remaining)
  /\ Chk("Inv:SuccessHasGoodFlag", SuccessHasGoodFlag)
  /\ Chk("Inv:FailOnBadFlag", FailOnBadFlag)
  /\ Chk("Inv:InitialLogged", InitialLogged)
  /\ TLCSet(tid, IF l > TLCGet(tid) THEN l ELSE TLCGet(tid))   \* progress register: only states that satisfy every invariant count

Verdicts == \A i \in 1..NT : PrintT(<<"VERDICT", Traces[i].tid, TLCGet(i), Len(Traces[i].ev) + 1>>)
=============================================================================

-------------------------- MODULE Trace_SpeciesName --------------------------
(* One trace per name: header = the symbol table in force (Tb), the name (characters), the token sequence it was built from
   (toks, empty for free-form names) and the mass-number table; ONE event with what the REAL Species(name) reported.
   TLC runs the specification's parser over the name (silent steps) and compares at the event. *)
EXTENDS SpeciesName, Json, IOUtils, TLCExt
VARIABLES tid, l
JTrace == JsonDeserialize(IOEnv.TRACE_FILE)
Traces == JTrace.traces
NT     == Len(Traces)
Tr     == Traces[tid]
ASSUME \A i \in 1..NT : TLCSet(i, 0)
Chk(nm, c) == IF c THEN TRUE ELSE PrintT(<<"MISMATCH", Traces[tid].tid, l, nm>>) /\ FALSE

TInit == tid \in 1..NT /\ l = 1 /\ SInit(JTrace.tables[Traces[tid].table], Traces[tid].name)
TSilent == SNext /\ UNCHANGED <<tid, l>>

ObsCounts(o) == {o.counts[k] : k \in DOMAIN o.counts}
MassOf(r) == LET A == JTrace.mass
                 a(el) == IF \E k \in DOMAIN A : A[k][1] = el THEN A[CHOOSE k \in DOMAIN A : A[k][1] = el][2] ELSE 0
                 F[k \in 0..Len(r.counts)] == IF k = 0 THEN 0 ELSE F[k - 1] + r.counts[k][2] * a(r.counts[k][1])
             IN F[Len(r.counts)]

TParsed ==
  /\ pc = "done" /\ l = 1 /\ l' = 2 /\ UNCHANGED tid
  /\ LET o == Tr.obs IN
     /\ Chk("AcceptsOrRejects", o.ok = res.ok)
     /\ IF ~res.ok THEN TRUE ELSE
        ( /\ Chk("ElementCounts", ObsCounts(o) = CountsAsSet(res))
          /\ Chk("Phase", o.surface = res.surface /\ (res.surface => o.sgroup = res.sgroup))
          /\ Chk("Grain", o.grain = res.grain /\ (res.grain => o.ggroup = res.ggroup))
          /\ Chk("Charge", o.charge = ChargeOf(name))
          /\ Chk("IsAtom", o.is_atom = IsAtom(res, name))
          /\ Chk("MassNumber", o.massnumber = MassOf(res)) )
     /\ IF (Tr.toks = <<>>) \/ ~Canonical(Tb, Tr.toks) THEN TRUE ELSE
        ( /\ Chk("RecoversIntendedComposition", o.ok /\ SameComposition([res EXCEPT !.counts = o.counts, !.surface = o.surface, !.sgroup = o.sgroup,
                                                                               !.grain = o.grain, !.ggroup = o.ggroup, !.ok = o.ok],
                                                                 Intended(EmptyRes, Tb, Tr.toks)))
          /\ Chk("GasCounterpart", o.gas_is_body) )
     /\ IF ~Tr.garbage THEN TRUE ELSE Chk("RejectsForeignCharacters", ~o.ok)
  /\ UNCHANGED svars

TNext == TSilent \/ TParsed
TSpec == TInit /\ [][TNext]_<<svars, tid, l>>
Track == TLCSet(tid, IF l > TLCGet(tid) THEN l ELSE TLCGet(tid))
Verdicts == \A i \in 1..NT : PrintT(<<"VERDICT", Traces[i].tid, TLCGet(i), 2>>)
=============================================================================

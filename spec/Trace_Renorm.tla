----------------------------- MODULE Trace_Renorm -----------------------------
(* Two kinds of traces.  "static": the coefficient tables parsed out of the emitted naunet_renorm.cpp (both back-ends) for a
   network whose species have INTENDED compositions; TLC compares them with MTerms / FTerms and evaluates Coupling / Additive.
   "dynamic": a sequence of SetReferenceAbund / Renorm / perturb calls on the compiled generated code (SUNDIALS stand-in with a
   dense LU); per Renorm the recorder says whether every element total over hydrogen nuclei equals the reference, electrons were
   untouched, all abundances are finite, and (when the ratios matched already) nothing changed. *)
EXTENDS Renorm, Json, IOUtils, TLCExt
VARIABLES tid, l
JTrace == JsonDeserialize(IOEnv.TRACE_FILE)
Traces == JTrace.traces
NT     == Len(Traces)
Ev     == Traces[tid].ev[l]
ASSUME \A i \in 1..NT : TLCSet(i, 0)
Chk(nm, c) == IF c THEN TRUE ELSE PrintT(<<"MISMATCH", Traces[tid].tid, l, nm>>) /\ FALSE
Triples(s) == {<<s[k][1], s[k][2], s[k][3]>> : k \in DOMAIN s}
TInit == tid \in 1..NT /\ l = 1 /\ RInit2
IsEv(a) == l <= Len(Traces[tid].ev) /\ Ev.act = a /\ l' = l + 1 /\ UNCHANGED tid
TStatic ==
  /\ IsEv("Tables")
  /\ LET net == Traces[tid].net IN
     /\ Chk("EmittedTablesReadable", Ev.ok)
     /\ Chk("ElementListIsTheAtomsPresent", Ev.elements_ok)
     \* what was emitted first, then the two facts about the network itself that make it work (a network for which they fail -- a recorded
     \* finding -- must not hide a wrong table)
     /\ Chk("MatrixCoefficients", \A i, j \in 1..NE(net) : Triples(Ev.M[(i - 1) * NE(net) + j]) = MTerms(net, i, j))
     /\ Chk("SpeciesFactors", \A s \in 1..NSp(net) : Triples(Ev.F[s]) = FTerms(net, s))
     /\ Chk("Coupling", Coupling(net))
     /\ Chk("Additive", Additive(net))
  /\ UNCHANGED rvars2
TSetRef  == IsEv("SetRef") /\ SetRef(Ev.v) /\ Chk("SetRefSucceeds", Ev.ok)
TPerturb == IsEv("Perturb") /\ Perturb
TRenorm ==
  /\ IsEv("Renorm")
  /\ Chk("AbundancesFinite", Ev.finite)
  /\ Chk("ElectronsUntouched", Ev.electrons_same)
  /\ Chk("IdentityWhenRatiosMatch", norm => Ev.unchanged)
  /\ DoRenorm
  /\ Chk("RatiosRestored", norm' => Ev.ratios_ok)
TNext == TStatic \/ TSetRef \/ TPerturb \/ TRenorm
TSpec == TInit /\ [][TNext]_<<rvars2, tid, l>>
Track ==
  /\ Chk("Inv:ReferenceSurvives", ReferenceSurvives)
  /\ TLCSet(tid, IF l > TLCGet(tid) THEN l ELSE TLCGet(tid))
Verdicts == \A i \in 1..NT : PrintT(<<"VERDICT", Traces[i].tid, TLCGet(i), Len(Traces[i].ev) + 1>>)
=============================================================================

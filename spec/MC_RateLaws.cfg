INIT Init
NEXT Next
INVARIANT Total
INVARIANT ExportKeepsLaw
INVARIANT CPDiffers

------------------------------ MODULE RateLaws ------------------------------
(***************************************************************************)
(* Layer L2: the rate law every (format, type code) denotes, as an         *)
(* expression TREE over symbolic parameters (C05; C18's law agreement).    *)
(* Coefficients are <<negative?, magnitude-text>> so no arithmetic on      *)
(* reals is needed; a tree is compared with the canonical tree of the      *)
(* emitted C expression (harness/cexpr.canon: unary signs folded into      *)
(* numeric leaves, products / sums flattened in order).  Structural        *)
(* identity implies equal value for ALL parameter values.                  *)
(* Simplification under an exactly-zero coefficient (x^0 = 1, e^0 = 1) is  *)
(* part of the law where the database's own formula has that shape.       *)
(***************************************************************************)
EXTENDS Integers, Sequences, TLC

N(x)    == <<"num", x[1], x[2]>>           \* the coefficient itself
NegOf(x) == <<"num", ~x[1], x[2]>>         \* its negation (the emitted "-{c}" after sign clean-up)
Num(t)  == <<"num", FALSE, t>>
V(n)    == <<"var", n>>
Mul(s)  == IF Len(s) = 1 THEN s[1] ELSE <<"mul", s>>
Add(s)  == <<"add", s>>
Div(a, b) == <<"div", a, b>>
Sub(a, b) == <<"sub", a, b>>
Call(f, args) == <<"call", f, args>>
Idx(a, sub) == <<"idx", a, V(sub)>>

PowT(b) == Call("pow", <<Div(V("Tgas"), Num("300.0")), N(b)>>)          \* (T/300)^beta
ExpT(c) == Call("exp", <<Div(NegOf(c), V("Tgas"))>>)                     \* exp(-gamma/T)
ExpAv(c) == Call("exp", <<Mul(<<NegOf(c), V("Av")>>)>>)                  \* exp(-gamma Av)
Sqrt300 == Call("sqrt", <<Div(Num("300.0"), V("Tgas"))>>)

(* modified Arrhenius  k = alpha (T/300)^beta exp(-gamma/T) *)
TwoBody(a, b, c, zb, zc) == Mul(<<N(a)>> \o (IF zb THEN <<>> ELSE <<PowT(b)>>) \o (IF zc THEN <<>> ELSE <<ExpT(c)>>))
(* KIDA ionpol1 / ionpol2 (Su-Chesnavich): k = alpha beta (0.62 + 0.4767 gamma sqrt(300/T)),
                                          k = alpha beta (1 + 0.0967 gamma sqrt(300/T) + gamma^2 300/(10.526 T)) *)
IonPol1(a, b, c) == Mul(<<N(a), N(b), Add(<<Num("0.62"), Mul(<<Num("0.4767"), N(c), Sqrt300>>)>>)>>)
IonPol2(a, b, c) == Mul(<<N(a), N(b), Add(<<Num("1"), Mul(<<Num("0.0967"), N(c), Sqrt300>>),
                                            Div(Mul(<<N(c), N(c), Div(Num("300.0"), V("Tgas"))>>), Num("10.526"))>>)>>)
(* cosmic-ray-induced photoreaction (UMIST): k = alpha (T/300)^beta gamma / (1 - omega) *)
CrPhot(a, b, c, one) == Div(Mul(<<N(a), PowT(b), N(c)>>), Sub(Num(one), V("omega")))

ZetaLeeds == Add(<<V("zeta_cr"), V("zeta_xr")>>)
Shield(sp, col, mode) == Call("GetShieldingFactor", <<V(sp), V("h2col"), V(col), V("Tgas"), Num(mode)>>)

(* sh: "" | "H2" | "CO" | "N2" — the photodissociated species for which a self-shielding factor applies *)
ShArgs(sh) == CASE sh = "H2" -> <<"IDX_H2I", "h2col">> [] sh = "CO" -> <<"IDX_COI", "cocol">> [] sh = "N2" -> <<"IDX_N2I", "n2col">>

Law(fmt, code, a, b, c, zb, zc, sh) ==
  CASE fmt = "kida" /\ code = 1 -> Mul(<<N(a), V("zeta")>>)
    [] fmt = "kida" /\ code = 2 -> IF zc THEN N(a) ELSE Mul(<<N(a), ExpAv(c)>>)
    [] fmt = "kida" /\ code = 3 -> TwoBody(a, b, c, zb, zc)
    [] fmt = "kida" /\ code = 4 -> IonPol1(a, b, c)
    [] fmt = "kida" /\ code = 5 -> IonPol2(a, b, c)
    [] fmt = "kida" /\ code = 6 -> <<"refused">>
    [] fmt = "umist" /\ code \in {"AD", "CD", "CE", "DR", "IN", "MN", "NN", "RA", "REA", "RR"} -> TwoBody(a, b, c, zb, zc)
    [] fmt = "umist" /\ code = "PH" -> Mul(<<N(a), ExpAv(c)>>)
    [] fmt = "umist" /\ code = "CP" -> N(a)
    [] fmt = "umist" /\ code = "CR" -> CrPhot(a, b, c, "1")
    [] fmt = "leeds" /\ code = 1 -> TwoBody(a, b, c, zb, zc)
    [] fmt = "leeds" /\ code = 2 -> Div(Mul(<<N(a), ZetaLeeds>>), V("zism"))
    [] fmt = "leeds" /\ code = 3 -> Div(Mul(<<N(a), Div(ZetaLeeds, V("zism")), PowT(b), N(c)>>), Sub(Num("1.0"), V("omega")))
    [] fmt = "leeds" /\ code = 4 -> Mul(<<V("G0"), N(a), ExpAv(c)>> \o (IF sh = "" THEN <<>> ELSE <<Shield(ShArgs(sh)[1], ShArgs(sh)[2], "0")>>))
    [] fmt = "leeds" /\ code \in {5, 15, 16, 17, 18, 19} -> Num("0.0")
    [] fmt = "uclchem" /\ code = "MA" -> TwoBody(a, b, c, zb, zc)
    [] fmt = "uclchem" /\ code = "CRP" -> Mul(<<N(a), Div(V("zeta"), V("zism"))>>)
    [] fmt = "uclchem" /\ code = "CRPHOT" -> Div(Mul(<<N(a), Div(V("zeta"), V("zism")), PowT(b), N(c)>>), Sub(Num("1.0"), V("omega")))
    [] fmt = "uclchem" /\ code = "PHOTON" ->
         IF sh = "CO" THEN Div(Mul(<<Num("2.0e-10"), V("G0"), Shield("IDX_COI", "cocol", "1"), Call("GetGrainScattering", <<V("Av"), V("lambdabar")>>)>>), Num("1.7"))
         ELSE Div(Mul(<<V("G0"), N(a), ExpAv(c)>>), Num("1.7"))
    [] fmt = "naunet" /\ code = 100 -> TwoBody(a, b, c, zb, zc)
    [] fmt = "naunet" /\ code = 101 -> Mul(<<N(a), V("zeta")>>)
    [] fmt = "naunet" /\ code = 102 -> Mul(<<N(a), ExpAv(c)>>)
    [] fmt = "naunet" /\ code = 110 -> IonPol1(a, b, c)
    [] fmt = "naunet" /\ code = 111 -> IonPol2(a, b, c)
    [] fmt = "naunet" /\ code = 120 -> CrPhot(a, b, c, "1")
    [] OTHER -> <<"undefined">>

(* table totality: every code of every format is mapped or explicitly refused *)
Codes(fmt) == CASE fmt = "kida" -> 1..6 [] fmt = "umist" -> {"AD", "CD", "CE", "CP", "CR", "DR", "IN", "MN", "NN", "PH", "RA", "REA", "RR"}
                [] fmt = "leeds" -> {1, 2, 3, 4, 5, 15, 16, 17, 18, 19} [] fmt = "uclchem" -> {"MA", "CRP", "PHOTON", "CRPHOT"}
                [] fmt = "naunet" -> {100, 101, 102, 110, 111, 120}
Total == \A fmt \in {"kida", "umist", "leeds", "uclchem", "naunet"} : \A code \in Codes(fmt) :
           Law(fmt, code, <<FALSE, "1.0">>, <<FALSE, "1.0">>, <<FALSE, "1.0">>, FALSE, FALSE, "") # <<"undefined">>
(* the native law of the type code a format's code is exported as (C18): same tree up to the format's own parameter scaling *)
NativeOf(fmt, code) == CASE fmt = "kida" -> (CASE code = 1 -> 101 [] code = 2 -> 102 [] code = 3 -> 100 [] code = 4 -> 110 [] code = 5 -> 111 [] OTHER -> 103)
                         [] fmt = "umist" -> (CASE code = "CP" -> 101 [] code = "CR" -> 120 [] code = "PH" -> 102 [] OTHER -> 100)
                         [] OTHER -> 0
SameAfterExport(fmt, code, zc) ==
  LET a == <<FALSE, "2.0">>  b == <<FALSE, "3.0">>  c == <<FALSE, "5.0">> IN
  Law(fmt, code, a, b, c, FALSE, zc, "") = Law("naunet", NativeOf(fmt, code), a, b, c, FALSE, zc, "")
=============================================================================

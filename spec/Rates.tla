------------------------------- MODULE Rates -------------------------------
(***************************************************************************)
(* Layer L2: TemplateLoader._assign_rates + the rate-override loop of      *)
(* _prepare_ode_content + the zero-initialised k[] of every consumer       *)
(* (C06, rate part of C13).  Temperatures are integers (the trace scales   *)
(* real temperatures by 100).                                              *)
(*   R[i] = [tmin, tmax, idx]   window and index-from-file of reaction i   *)
(*   Mods  = set of rate-modifier keys                                     *)
(*   k[i] in {"zero", "law", "mod"}: what k[i] holds after EvalRates at T  *)
(***************************************************************************)
EXTENDS Integers, Sequences, FiniteSets, TLC

VARIABLES R, Mods, T, k, pos, reindexed

rvars == <<R, Mods, T, k, pos, reindexed>>

(* the window as the property states it: a bound <= 0 means unbounded *)
Active(tmin, tmax, t) == (tmin <= 0 \/ t >= tmin) /\ (tmax <= 0 \/ t < tmax)

(* TemplateLoader.render: if ALL indices are -1 the network is re-indexed with the joining order *)
\* @type: (Seq({tmin: Int, tmax: Int, idx: Int})) => Bool;
AllUnindexed(rs) == \A i \in DOMAIN rs : rs[i].idx = -1
\* @type: (Seq({tmin: Int, tmax: Int, idx: Int}), Int) => Int;
EffIdx(rs, i) == IF AllUnindexed(rs) THEN i - 1 ELSE rs[i].idx
\* @type: (Seq({tmin: Int, tmax: Int, idx: Int}), Set(Int), Int) => Bool;
Overridden(rs, mods, i) == EffIdx(rs, i) \in mods

\* @type: (Seq({tmin: Int, tmax: Int, idx: Int}), Set(Int), Int) => Bool;
RInit(rs, mods, t) ==
  /\ R = rs /\ Mods = mods /\ T = t /\ pos = 1 /\ reindexed = AllUnindexed(rs)
  /\ k = [i \in DOMAIN rs |-> "zero"]                       \* realtype k[NREACTIONS] = {0.0};

(* statement i of EvalRates *)
Assign ==
  /\ pos <= Len(R)
  /\ k' = [k EXCEPT ![pos] = IF Overridden(R, Mods, pos) THEN "mod"                  \* k[i] = <modifier>;  (unguarded)
                              ELSE IF Active(R[pos].tmin, R[pos].tmax, T) THEN "law" \* if (Tgas>=tmin && Tgas<tmax) { k[i] = law; }
                              ELSE @]
  /\ pos' = pos + 1
  /\ UNCHANGED <<R, Mods, T, reindexed>>

Done == pos = Len(R) + 1

(* C06 *)
OutsideIsZero == Done => \A i \in DOMAIN R : (~Overridden(R, Mods, i) /\ ~Active(R[i].tmin, R[i].tmax, T)) => k[i] = "zero"
InsideIsLaw   == Done => \A i \in DOMAIN R : (~Overridden(R, Mods, i) /\ Active(R[i].tmin, R[i].tmax, T)) => k[i] = "law"
NoWindowAlwaysActive == Done => \A i \in DOMAIN R : (R[i].tmin <= 0 /\ R[i].tmax <= 0 /\ ~Overridden(R, Mods, i)) => k[i] = "law"
(* reactions whose windows tile an interval [lo, hi): exactly one of them acts at every temperature of the interval *)
Tiles(S) == \E lo, hi \in {R[i].tmin : i \in S} \cup {R[i].tmax : i \in S} :
              /\ lo > 0 /\ hi > lo
              /\ \A t \in lo..(hi - 1) : Cardinality({i \in S : R[i].tmin <= t /\ t < R[i].tmax}) = 1
              /\ \A i \in S : R[i].tmin >= lo /\ R[i].tmax <= hi /\ R[i].tmin > 0 /\ R[i].tmax > R[i].tmin
TileSpan(S) == (CHOOSE lo \in {R[i].tmin : i \in S} : \A j \in S : lo <= R[j].tmin) .. ((CHOOSE hi \in {R[i].tmax : i \in S} : \A j \in S : hi >= R[j].tmax) - 1)
Partition == Done => \A S \in SUBSET (DOMAIN R) :
               (S # {} /\ Tiles(S) /\ (\A i \in S : ~Overridden(R, Mods, i)) /\ T \in TileSpan(S)) => Cardinality({i \in S : k[i] = "law"}) = 1
(* C13 *)
OnlyTargetsChanged == Done => \A i \in DOMAIN R : (k[i] = "mod") <=> (EffIdx(R, i) \in Mods)
=============================================================================

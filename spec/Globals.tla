------------------------------ MODULE Globals ------------------------------
(***************************************************************************)
(* Layer L0/L1: process-global tables versus per-network descriptions      *)
(* (C17).  naunet parses species names against CLASS-LEVEL tables          *)
(* (Species._known_elements/_known_pseudoelements) and computes aliases    *)
(* lazily against them.  A network that was given its own lists installs   *)
(* them at its public entry points — IFF they are non-empty; a network     *)
(* without lists uses whatever is installed.  G is the context installed   *)
(* right now: 0 = the defaults, n = the lists of network n.                *)
(* Every name parse / alias computation done on behalf of network n is     *)
(* clean iff G equals n's own context at that moment; the rendered output  *)
(* of n is a function of n's description iff all of them were clean.       *)
(***************************************************************************)
EXTENDS Integers, FiniteSets, TLC

CONSTANTS Nets,       \* e.g. {1, 2}
          Custom,     \* [Nets -> BOOLEAN]: the network was constructed with its own element lists
          Variant     \* "asis" (render re-installs the lists: the repaired code) | "render_no_install" | "krome_state_leaks"

VARIABLES G,          \* installed context
          created,    \* [Nets -> BOOLEAN]
          clean,      \* [Nets -> BOOLEAN]  every parse so far on behalf of n saw n's own context
          kdirty,     \* KROME directive state (@format/@var/@common) left over from an aborted read
          kclean      \* [Nets -> BOOLEAN]  every KROME read of n started from the reset directive state

gvars == <<G, created, clean, kdirty, kclean>>

Ctx(n) == IF Custom[n] THEN n ELSE 0

GInit ==
  /\ G = 0 /\ created = [n \in Nets |-> FALSE] /\ clean = [n \in Nets |-> TRUE]
  /\ kdirty = FALSE /\ kclean = [n \in Nets |-> TRUE]

Install(n) == IF Custom[n] THEN n ELSE G        \* "if self._known_elements or self._known_pseudo_elements: set..."

(* Network(elements=..., pseudo_elements=..., allowed_species=..., required_species=...) *)
New(n) ==
  /\ ~created[n]
  /\ G' = Install(n)
  /\ created' = [created EXCEPT ![n] = TRUE]
  /\ clean' = [clean EXCEPT ![n] = (G' = Ctx(n))]         \* allowed / required names are parsed here
  /\ UNCHANGED <<kdirty, kclean>>

(* add_reaction_from_file / add_reaction((string, format)) / allowed_species= / required_species= / where_species *)
Parse(n, krome, aborts) ==
  /\ created[n]
  /\ G' = Install(n)
  /\ clean' = [clean EXCEPT ![n] = @ /\ (G' = Ctx(n))]
  /\ IF krome
       THEN /\ kclean' = [kclean EXCEPT ![n] = @ /\ (Variant # "krome_state_leaks" \/ ~kdirty)]   \* initialize() resets first
            /\ kdirty' = IF Variant = "krome_state_leaks" THEN aborts ELSE FALSE
       ELSE UNCHANGED <<kdirty, kclean>>
  /\ UNCHANGED created

(* remove_reaction / reindex / find_duplicate_reaction: no name is parsed, nothing global is touched *)
Edit(n) == created[n] /\ UNCHANGED gvars

(* TemplateLoader.render / to_code / export: ODE-modifier names are parsed and aliases are computed (first time) *)
Render(n) ==
  /\ created[n]
  /\ G' = IF Variant = "render_no_install" THEN G ELSE Install(n)
  /\ clean' = [clean EXCEPT ![n] = @ /\ (G' = Ctx(n))]
  /\ UNCHANGED <<created, kdirty, kclean>>

GNext == \E n \in Nets :
           \/ New(n)
           \/ \E k \in BOOLEAN, a \in BOOLEAN : Parse(n, k, a)
           \/ Edit(n)
           \/ Render(n)
GSpec == GInit /\ [][GNext]_gvars

(* C17: no operation on another network changes what network n sees *)
NonInterference == \A n \in Nets : clean[n] /\ kclean[n]
(* the weaker fact that holds for networks that carry their own lists *)
CustomNonInterference == \A n \in Nets : Custom[n] => (clean[n] /\ kclean[n])
Depth == TLCGet("level") <= 7
=============================================================================

CONSTANTS
  Variant = "asis"
  Wild = FALSE
  MaxLen = 3
  MaxDepth = 6
SPECIFICATION MCSpec
VIEW NoLast
CONSTRAINT Depth
INVARIANT CacheConsistent
INVARIANT AllowedRespected
INVARIANT SkippedDisallowed
INVARIANT IdxParallel
INVARIANT NothingLost
INVARIANT ReportIsDecl
INVARIANT RemovalSound
INVARIANT QueriesAgreeWithCaches
INVARIANT RemoveWhereIsExact
CHECK_DEADLOCK FALSE

------------------------- MODULE Trace_NetworkEdit -------------------------
(***************************************************************************)
(* Validates recorded edit histories of REAL naunet.network.Network        *)
(* objects against NetworkEdit.tla.  The recorder (harness/netrec.py)      *)
(* wraps the public entry points and logs, at each call's return, the      *)
(* action, its arguments and the projection of the object's state.  The    *)
(* universe (reaction descriptors over species classes / name ranks) is    *)
(* in the trace header.  Every event must be the step the specification    *)
(* takes, and every invariant of C14/C15 is evaluated after every step.    *)
(***************************************************************************)
EXTENDS NetworkEdit, Json, IOUtils, TLCExt

VARIABLES tid, l
JTrace == JsonDeserialize(IOEnv.TRACE_FILE)
Traces == JTrace.traces
NT     == Len(Traces)
Ev     == Traces[tid].ev[l]
ASSUME \A i \in 1..NT : TLCSet(i, 0)
Chk(name, c) == IF c THEN TRUE ELSE PrintT(<<"MISMATCH", Traces[tid].tid, l, name>>) /\ FALSE
Note(name, c) == IF c THEN TRUE ELSE PrintT(<<"NOTE", Traces[tid].tid, l, name>>)    \* reported, never blocks the trace
ToSetOf(s) == {s[k] : k \in DOMAIN s}

TInit == tid \in 1..NT /\ l = 1 /\ Init0([R |-> Traces[tid].R, S |-> Traces[tid].S])

Step(e) ==
  CASE e.act = "Init"           -> InitNet(ToSetOf(e.allowed), ToSetOf(e.required))
    [] e.act = "Add"            -> Add(e.i)
    [] e.act = "AddAll"         -> AddAll(e.ids)
    [] e.act = "RemoveIdx"      -> RemoveIdx(e.pos)
    [] e.act = "RemoveIdxList"  -> RemoveIdxList(ToSetOf(e.poss))
    [] e.act = "RemoveInst"     -> RemoveInst(e.i)
    [] e.act = "RemoveInstList" -> RemoveInstList(ToSetOf(e.ids))
    [] e.act = "SetAllowed"     -> SetAllowed(ToSetOf(e.allowed))
    [] e.act = "SetRequired"    -> SetRequired(ToSetOf(e.required))
    [] e.act = "Reindex"        -> Reindex
    [] e.act = "FindDup"        -> FindDup(e.mode)
    [] e.act = "RemoveDup"      -> RemoveDup
    [] e.act = "AppendDepletion"  -> Chk("DepletionOfEveryNeutralGasSpecies", DepletionComplete(e.ids)) /\ AddAll(e.ids)
    [] e.act = "AppendDesorption" -> Chk("DesorptionOfEveryIceSpecies", DesorptionComplete(e.ids, e.ty)) /\ AddAll(e.ids)

Post(e) ==
  /\ Chk("ReactionList", rlist' = e.post.rlist)
  /\ Chk("SkippedList", skipped' = e.post.skipped)
  /\ Chk("ReactantCache", reactants' = ToSetOf(e.post.reactants))
  /\ Chk("ProductCache", products' = ToSetOf(e.post.products))
  /\ Chk("SpeciesView", (reactants' \cup products' \cup required') = ToSetOf(e.post.species))
  /\ Chk("SourcesView", (reactants' \ products') = ToSetOf(e.post.sources))
  /\ Chk("SinksView", (products' \ reactants') = ToSetOf(e.post.sinks))
  /\ Chk("Indices", idxs' = e.post.idxs)
  /\ Chk("AllowedList", allowed' = ToSetOf(e.post.allowed))
  /\ Chk("RequiredList", required' = ToSetOf(e.post.required))
  /\ IF "ws" \in DOMAIN e.post                     \* queries asked of the real object in this state (harness/netrec.py, queries=True)
       THEN /\ \A n \in DOMAIN e.post.ws :
                 LET q == e.post.ws[n]
                     ok == q.a = SetToSortSeq(WhereSpeciesIn(rlist', q.c, q.m), <)
                 IN IF q.m = "all" THEN Chk("WhereSpecies", ok) ELSE Note("WhereSpecies:" \o q.m, ok)
            /\ \A n \in DOMAIN e.post.wr :
                 LET q == e.post.wr[n] IN Note("WhereReaction:" \o q.m, q.a = SetToSortSeq(WhereReactionIn(rlist', q.i, q.m), <))
       ELSE TRUE
  /\ IF e.act = "FindDup"
       THEN /\ Chk("DupReport", report'.dupidx = e.dupidx)
            /\ Chk("DupFirst", [k \in DOMAIN report'.first |-> rlist[report'.first[k]]] = e.first)
       ELSE TRUE

(* a single edit the object REFUSED (the call raised: an unparsable name in a species list, a position that does not exist) leaves the
   network exactly as it was; only reading a file may stop half-way with the lines before the bad one added *)
Refusable == {"Add", "RemoveIdx", "RemoveIdxList", "RemoveInst", "RemoveInstList", "SetAllowed", "SetRequired", "Reindex"}
TStep ==
  /\ l <= Len(Traces[tid].ev) /\ l' = l + 1 /\ UNCHANGED tid
  /\ IF Ev.err # "" /\ Ev.act \in Refusable THEN UNCHANGED nvars ELSE Step(Ev)
  /\ Post(Ev)

TSpec == TInit /\ [][TStep]_<<nvars, tid, l>>

Track ==
  /\ Chk("Inv:CacheConsistent", CacheConsistent)
  /\ Chk("Inv:AllowedRespected", AllowedRespected)
  /\ Chk("Inv:SkippedDisallowed", SkippedDisallowed)
  /\ Chk("Inv:NothingLost", NothingLost)
  /\ Chk("Inv:ReportIsDecl", ReportIsDecl)
  /\ Chk("Inv:RemovalSound", RemovalSound)
  /\ Chk("Inv:QueriesAgreeWithCaches", QueriesAgreeWithCaches)
  /\ TLCSet(tid, IF l > TLCGet(tid) THEN l ELSE TLCGet(tid))   \* progress register: only states that satisfy every invariant count

Verdicts == \A i \in 1..NT : PrintT(<<"VERDICT", Traces[i].tid, TLCGet(i), Len(Traces[i].ev) + 1>>)
=============================================================================

--------------------------- MODULE MC_NetworkEdit ---------------------------
(* Bounded instance of NetworkEdit for exhaustive checking and for exporting behaviours (-simulate).
   Species classes: 1 H, 2 H2, 3 C, 4 CH, 5 electron (spelled "E" = name id 3 or "e-" = name id 7).
   Name ids (rank in Python string order): C 1, CH 2, E 3, H 4, H2 5, e- 7 (6 unused). *)
EXTENDS NetworkEdit

CONSTANTS Wild,      \* TRUE: the universe also contains the UNKNOWN-typed wildcard reaction (id 8)
          MaxLen,    \* bound on Len(rlist) + Len(skipped)
          MaxDepth

VARIABLE last        \* the action just taken, with its arguments (for replay into the real code)

TWOBODY == 100
COSMIC  == 101
RX(r, p, rn, pn, tmin, tmax, ty) == [r |-> r, p |-> p, rn |-> rn, pn |-> pn, tmin |-> tmin, tmax |-> tmax, ty |-> ty, tn |-> ty, idx |-> -1]
Base ==
  << RX(<<1, 1>>, <<2>>, <<4, 4>>, <<5>>, -10, -10, TWOBODY),          \* 1  H + H -> H2
     RX(<<1, 1>>, <<2>>, <<4, 4>>, <<5>>, 100, 1000, TWOBODY),         \* 2  same, with a window
     RX(<<2>>, <<1, 1>>, <<5>>, <<4, 4>>, -10, -10, COSMIC),           \* 3  H2 -> H + H
     RX(<<3, 1>>, <<4>>, <<1, 4>>, <<2>>, -10, -10, TWOBODY),          \* 4  C + H -> CH
     RX(<<1, 3>>, <<4>>, <<4, 1>>, <<2>>, -10, -10, TWOBODY),          \* 5  H + C -> CH     (permuted 4)
     RX(<<2, 5>>, <<1, 1, 5>>, <<5, 7>>, <<4, 4, 7>>, -10, -10, TWOBODY),    \* 6  H2 + e- -> H + H + e-
     RX(<<5, 2>>, <<1, 5, 1>>, <<3, 5>>, <<4, 3, 4>>, -10, -10, TWOBODY) >>  \* 7  E + H2 -> H + E + H  (6 respelled: "E" < "H" < "e-")
WildR == << RX(<<1, 1>>, <<2>>, <<4, 4>>, <<5>>, -10, -10, UNKNOWN),    \* 8  H + H -> H2, type unknown (equal to 1 AND to 9)
            RX(<<1, 1>>, <<2>>, <<4, 4>>, <<5>>, -10, -10, COSMIC) >>   \* 9  H + H -> H2, another type (not equal to 1)
Universe == [R |-> IF Wild THEN Base \o WildR ELSE Base, S |-> [c \in 1..5 |-> [surface |-> FALSE, neutral |-> c # 5, gas |-> 0]]]

AllowedChoices == { {}, {1, 2}, {1, 2, 3, 4}, {1, 2, 5} }
RequiredChoices == { {}, {5} }

MCInit == Init0(Universe) /\ last = <<"Init">>

Small == Len(rlist) + Len(skipped) < MaxLen

MCNext ==
  \/ \E i \in DOMAIN U.R : Small /\ Add(i) /\ last' = <<"Add", i>>
  \/ \E k \in DOMAIN rlist : RemoveIdx(k) /\ last' = <<"RemoveIdx", k>>
  \/ \E ps \in SUBSET (DOMAIN rlist) : ps # {} /\ RemoveIdxList(ps) /\ last' = <<"RemoveIdxList", ps>>
  \/ \E i \in DOMAIN U.R : RemoveInst(i) /\ last' = <<"RemoveInst", i>>
  \/ \E i, j \in DOMAIN U.R : i < j /\ RemoveInstList({i, j}) /\ last' = <<"RemoveInstList", {i, j}>>
  \/ \E c \in 1..5, m \in {"reactant", "product", "all"} :                      \* net.remove_reaction(net.where_species(c, m))
        WhereSpecies(c, m) # {} /\ RemoveIdxList(WhereSpecies(c, m)) /\ last' = <<"RemoveWhere", c, m>>
  \/ \E S \in AllowedChoices : SetAllowed(S) /\ last' = <<"SetAllowed", S>>
  \/ \E S \in RequiredChoices : SetRequired(S) /\ last' = <<"SetRequired", S>>
  \/ Reindex /\ last' = <<"Reindex">>
  \/ \E m \in Modes : FindDup(m) /\ last' = <<"FindDup", m>>
  \/ RemoveDup /\ last' = <<"RemoveDup">>

MCSpec == MCInit /\ [][MCNext]_<<nvars, last>>

Depth == TLCGet("level") <= MaxDepth
NoLast == <<rlist, skipped, reactants, products, allowed, required, idxs, sidx, report, pool>>
=============================================================================

SPECIFICATION Spec
INVARIANT NamesUniquePerRegistry
INVARIANT MergedSymbolsUnique
INVARIANT MergeCoversAll
INVARIANT LastWriterWins
CHECK_DEADLOCK FALSE

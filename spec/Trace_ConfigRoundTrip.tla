------------------------ MODULE Trace_ConfigRoundTrip ------------------------
(* One trace per `naunet init ... --render` run in a scratch project.  Header: the requested option values as token sequences
   (shape + id; the strings live in the driver).  Events: the configuration file `init` wrote (decoded from TOML into token ids),
   the keyword arguments the render command passed to Network(...) / TemplateLoader(...) (captured by wrapping the constructors),
   and whether the rendered tree is byte-identical to the tree of the equivalent API call. *)
EXTENDS ConfigRoundTrip, Json, IOUtils, TLCExt
VARIABLES tid, l
JTrace == JsonDeserialize(IOEnv.TRACE_FILE)
Traces == JTrace.traces
NT     == Len(Traces)
Ev     == Traces[tid].ev[l]
ASSUME \A i \in 1..NT : TLCSet(i, 0)
Chk(nm, c) == IF c THEN TRUE ELSE PrintT(<<"MISMATCH", Traces[tid].tid, l, nm>>) /\ FALSE
TInit == tid \in 1..NT /\ l = 1 /\ CInit(Traces[tid].req)
IsEv(a) == l <= Len(Traces[tid].ev) /\ Ev.act = a /\ l' = l + 1 /\ UNCHANGED tid
Opts == DOMAIN req
FieldEq(obs, model) == \A o \in Opts : Chk(o, obs[o] = model[o])
TConfig  == IsEv("Config") /\ InitParse /\ Chk("InitSucceeds", Ev.ok) /\ UNCHANGED <<>>
(* the Python entry: the configuration file written by BaseConfiguration(...).content from values, then `naunet render --force` *)
TDirect  == IsEv("Direct") /\ DirectWrite /\ Chk("ConfigWritten", Ev.ok)
TContent == IsEv("Toml") /\ Content /\ FieldEq(Ev.fields, toml')
TRender  == IsEv("NetworkArgs") /\ RenderRead /\ Chk("RenderSucceeds", Ev.ok) /\ FieldEq(Ev.fields, args')
TSources == IsEv("Sources") /\ pc = "done" /\ Chk("SameSourcesAsApi", Ev.same) /\ UNCHANGED cvars
(* the [summary] table the render command writes back into the configuration file against the generated headers: counts equal the
   NSPECIES / NELEMENTS / NREACTIONS macros and the lengths of its own lists; gas + ice = all *)
TSummary == IsEv("Summary") /\ pc = "done" /\ Chk("SummaryAgreesWithSources", Ev.consistent) /\ UNCHANGED cvars
(* `naunet example`: the configuration it writes (through `naunet init`) holds the tables of the bundled example it was asked for *)
TExample == IsEv("Example") /\ Chk("ExampleConfigIsTheExample", Ev.same) /\ UNCHANGED cvars
(* `naunet example` run for real into a directory that already holds an older copy of the example's network file: the project holds the
   bundled network (the file, and the reaction count of the rendered sources) *)
TExampleRun == IsEv("ExampleRun") /\ Chk("ExampleProjectHoldsTheBundledNetwork", Ev.same) /\ UNCHANGED cvars
TNext == TExampleRun \/ TConfig \/ TDirect \/ TContent \/ TRender \/ TSources \/ TSummary \/ TExample
TSpec == TInit /\ [][TNext]_<<cvars, tid, l>>
Track ==
  /\ Chk("Inv:RoundTripId", RoundTripId)
  /\ TLCSet(tid, IF l > TLCGet(tid) THEN l ELSE TLCGet(tid))
Verdicts == \A i \in 1..NT : PrintT(<<"VERDICT", Traces[i].tid, TLCGet(i), Len(Traces[i].ev) + 1>>)
=============================================================================

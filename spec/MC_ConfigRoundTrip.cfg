CONSTANTS
  Variant = "asis"
SPECIFICATION MSpec
INVARIANT RoundTripId
CHECK_DEADLOCK FALSE

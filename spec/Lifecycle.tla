----------------------------- MODULE Lifecycle -----------------------------
(***************************************************************************)
(* Public life cycle of the generated solver object (cvode dense/sparse):  *)
(*   Naunet::Init -> (Naunet::Reset | Naunet::Solve)* -> Naunet::Finalize  *)
(* as the templates implement it (naunet/templates/cvode/src/naunet.cpp.j2)*)
(* One action per public entry point; each lists the API objects it        *)
(* creates and destroys and the configuration it stores or applies.        *)
(*                                                                         *)
(* State                                                                   *)
(*   phase    "new" | "ready" | "closed"                                   *)
(*   live     number of live API objects per kind (context, vector, matrix,*)
(*            linear solver, integrator memory)                            *)
(*   mat      the matrix attached to the linear solver: declared layout,   *)
(*            rows and non-zero capacity (NoMat before Init)               *)
(*   cfg      tolerances / step limit most recently REQUESTED              *)
(*   applied  what the last Solve configured the integrator with           *)
(*   jac      how the linear solver reads the filled Jacobian in the last  *)
(*            Solve: "asfilled" (declared layout = layout the Jacobian     *)
(*            routine writes) or "transposed"                              *)
(*   dirty    a configuration was requested since the last Solve           *)
(***************************************************************************)
EXTENDS Naturals, FiniteSets, TLC

CONSTANTS Method,      \* "dense" | "sparse"
          NEQ, NNZ,    \* declared sizes
          Tols,        \* small set of configurations [atol, rtol, mx]
          Variant      \* "asis" | seeded design variants (must violate an invariant)

VARIABLES phase, live, mat, cfg, applied, jac, dirty
lvars == <<phase, live, mat, cfg, applied, jac, dirty>>

NoMat == [fmt |-> "none", n |-> 0, nnz |-> 0]
None  == [atol |-> 0, rtol |-> 0, mx |-> 0]
Zero  == [ctx |-> 0, vec |-> 0, mat |-> 0, ls |-> 0, mem |-> 0]
Ready == [ctx |-> 1, vec |-> 1, mat |-> 1, ls |-> 1, mem |-> 0]

(* the layout the generated Jacobian routine writes *)
FilledLayout == IF Method = "dense" THEN "dense" ELSE "CSR"
NewMat(where) ==
  [fmt |-> IF Method = "dense" THEN "dense"
           ELSE IF Variant = "reset_csc" /\ where = "reset" THEN "CSC" ELSE "CSR",
   n |-> NEQ, nnz |-> IF Method = "dense" THEN 0 ELSE NNZ]

LInit == phase = "new" /\ live = Zero /\ mat = NoMat /\ cfg = None /\ applied = None /\ jac = "none" /\ dirty = FALSE

(* Init(nsystem, atol, rtol, mxsteps): stores the configuration FIRST, then rejects nsystem # 1 *)
Init(n, c) ==
  /\ phase = "new"
  /\ cfg' = c /\ dirty' = TRUE
  /\ IF n = 1
       THEN /\ phase' = "ready" /\ live' = Ready /\ mat' = NewMat("init")
       ELSE UNCHANGED <<phase, live, mat>>
  /\ UNCHANGED <<applied, jac>>

(* Reset: stores the configuration FIRST (also when it then rejects nsystem # 1), destroys vector, matrix and linear solver
   and creates new ones; the context is kept *)
Reset(n, c) ==
  /\ phase = "ready"
  /\ cfg' = c /\ dirty' = TRUE
  /\ IF n = 1
       THEN /\ live' = IF Variant = "reset_leak" THEN [live EXCEPT !.mat = @ + 1] ELSE live
            /\ mat' = NewMat("reset")
       ELSE UNCHANGED <<live, mat>>
  /\ UNCHANGED <<phase, applied, jac>>

(* Solve: creates the integrator memory, configures it from cfg, attaches the linear solver and matrix, integrates, frees *)
Solve ==
  /\ phase = "ready"
  /\ applied' = IF Variant = "stale_cfg" /\ applied # None THEN applied ELSE cfg
  /\ jac' = IF mat.fmt = FilledLayout THEN "asfilled" ELSE "transposed"
  /\ dirty' = FALSE
  /\ UNCHANGED <<phase, live, mat, cfg>>

Finalize ==
  /\ phase = "ready"
  /\ phase' = "closed" /\ live' = Zero /\ mat' = NoMat
  /\ UNCHANGED <<cfg, applied, jac, dirty>>

LNext == \/ \E n \in {1, 2}, c \in Tols : Init(n, c) \/ Reset(n, c)
         \/ Solve \/ Finalize
LSpec == LInit /\ [][LNext]_lvars

-----------------------------------------------------------------------------
TypeOK == /\ phase \in {"new", "ready", "closed"}
          /\ \A k \in DOMAIN live : live[k] \in 0..3
Balanced ==       (* nothing leaks and nothing is freed twice, whatever the history *)
  /\ phase = "ready" => live = Ready
  /\ phase # "ready" => live = Zero
SolverSeesDeclaredLayout ==   (* the matrix handed to the linear solver has the layout the Jacobian routine fills *)
  phase = "ready" => mat = [fmt |-> FilledLayout, n |-> NEQ, nnz |-> IF Method = "dense" THEN 0 ELSE NNZ]
JacobianReadAsFilled == jac # "transposed"
AppliedIsRequested == (~dirty /\ applied # None) => applied = cfg   (* every Solve runs with the most recently requested configuration *)
=============================================================================

---------------------------- MODULE NetworkEdit ----------------------------
(***************************************************************************)
(* Layer L1: a naunet.network.Network object under edits (C14, C15, the    *)
(* re-index part of C13).  One action per public entry point.              *)
(*                                                                         *)
(* Universe U (fixed during a behaviour; a constant in the model-checking  *)
(* configs, read from the trace header in trace validation):               *)
(*   U.R[i]   reaction descriptor  [r, p  : Seq of species CLASS ids in     *)
(*                                  the order written,                     *)
(*                                  rn, pn: Seq of species NAME ids (rank   *)
(*                                  of the name string in sorted order),   *)
(*                                  tmin, tmax : window in tenths of K,    *)
(*                                  ty : type code, tn : id of the type's  *)
(*                                  printed name, idx : index from file,   *)
(*                                  hk : id of the reaction's hash value]  *)
(* Species classes are the classes of Species.__eq__; name ids order the   *)
(* names as Python's str < does.  Reaction objects are never shared        *)
(* between list positions (the drivers create one object per addition).   *)
(***************************************************************************)
EXTENDS Integers, Sequences, FiniteSets, SequencesExt, Bags, TLC

CONSTANTS Variant       \* "asis" (= the repaired code) | "stale_remove" | "keep_skipped" | "hash_by_name"

VARIABLES U,            \* the universe record (see above), never changes
          rlist,        \* Network.reaction_list            : Seq of reaction ids
          skipped,      \* Network._skipped_reactions       : Seq of reaction ids
          reactants,    \* Network._reactants (cache)        : set of species classes
          products,     \* Network._products  (cache)        : set of species classes
          allowed,      \* Network._allowed_species          : set of species classes ({} = no filter)
          required,     \* Network._required_species         : set of species classes
          idxs,         \* idxfromfile of the object at each position of rlist : Seq of Int
          sidx,         \* idxfromfile of the objects in skipped
          report,       \* last result of find_duplicate_reaction: [mode, dupidx, first] or <<>>
          pool          \* ghost: bag of reaction ids added and not explicitly removed

nvars == <<U, rlist, skipped, reactants, products, allowed, required, idxs, sidx, report, pool>>

UNKNOWN == 999
Modes == {"default", "brief", "minimal", "short"}

D(i) == U.R[i]
Rs(i) == {D(i).r[k] : k \in DOMAIN D(i).r}
Ps(i) == {D(i).p[k] : k \in DOMAIN D(i).p}
Spc(i) == Rs(i) \cup Ps(i)
SeqBag(s) == [x \in {s[k] : k \in DOMAIN s} |-> Cardinality({k \in DOMAIN s : s[k] = x})]

(* Reaction.rpeq: Counter(reactants) == Counter(products), species compared by class *)
RpEq(a, b) == SeqBag(D(a).r) = SeqBag(D(b).r) /\ SeqBag(D(a).p) = SeqBag(D(b).p)
(* Reaction.__eq__ *)
EqDefault(a, b) ==
  /\ RpEq(a, b) /\ D(a).tmin = D(b).tmin /\ D(a).tmax = D(b).tmax
  /\ (D(a).ty = D(b).ty \/ D(a).ty = UNKNOWN \/ D(b).ty = UNKNOWN)
MinKey(a)   == <<SortSeq(D(a).rn, <), SortSeq(D(a).pn, <)>>
ShortKey(a) == <<MinKey(a), D(a).tmin, D(a).tmax, D(a).tn>>    \* "short" prints the type's NAME (tn), which each reader class chooses
Equiv(mode, a, b) ==
  CASE mode = "default" -> EqDefault(a, b)
    [] mode = "brief"   -> RpEq(a, b)
    [] mode = "minimal" -> MinKey(a) = MinKey(b)
    [] mode = "short"   -> ShortKey(a) = ShortKey(b)

Position(s, x) == CHOOSE k \in DOMAIN s : s[k] = x
(* hash of the object used as dictionary key in each mode.  After the repair the hash of a reaction is a
   function of the multisets of its species' hashes (hence equal for rpeq reactions whatever the spelling
   or order); "hash_by_name" is the original: species sorted by NAME, so e- + H and H + E hash differently *)
HashKey(mode, a) ==
  CASE mode \in {"default", "brief"} ->
         IF Variant = "hash_by_name"
           THEN <<[k \in DOMAIN D(a).r |-> D(a).r[Position(D(a).rn, SortSeq(D(a).rn, <)[k])]],
                  [k \in DOMAIN D(a).p |-> D(a).p[Position(D(a).pn, SortSeq(D(a).pn, <)[k])]]>>
           ELSE <<SeqBag(D(a).r), SeqBag(D(a).p)>>
    [] mode = "minimal" -> MinKey(a)
    [] mode = "short"   -> ShortKey(a)

SelectSeqByPos(s, keep) ==
  LET F[k \in 0..Len(s)] == IF k = 0 THEN <<>> ELSE IF k \in keep THEN Append(F[k-1], s[k]) ELSE F[k-1]
  IN F[Len(s)]

Fits(S, i) == S = {} \/ Spc(i) \subseteq S

UnionOver(f(_), s) == UNION {f(s[k]) : k \in DOMAIN s}

Init0(u) ==
  /\ U = u /\ rlist = <<>> /\ skipped = <<>> /\ reactants = {} /\ products = {}
  /\ allowed = {} /\ required = {} /\ idxs = <<>> /\ sidx = <<>> /\ report = <<>> /\ pool = EmptyBag

(* Network.add_reaction(Reaction) -> _add_reaction *)
AddWith(i, ix) ==
  IF Fits(allowed, i)
    THEN /\ rlist' = Append(rlist, i) /\ idxs' = Append(idxs, ix)
         /\ reactants' = reactants \cup Rs(i) /\ products' = products \cup Ps(i)
         /\ UNCHANGED <<skipped, sidx>>
    ELSE /\ skipped' = Append(skipped, i) /\ sidx' = Append(sidx, ix)
         /\ UNCHANGED <<rlist, idxs, reactants, products>>

Add(i) ==
  /\ i \in DOMAIN U.R
  /\ AddWith(i, D(i).idx)
  /\ pool' = pool (+) SetToBag({i})
  /\ report' = <<>>                      \* a report refers to the list it was computed on
  /\ UNCHANGED <<U, allowed, required>>

(* Network.__init__(allowed_species=A, required_species=Rq): both lists are installed before any reaction *)
InitNet(A, Rq) ==
  /\ rlist = <<>> /\ skipped = <<>>
  /\ allowed' = A /\ required' = Rq
  /\ UNCHANGED <<U, rlist, skipped, reactants, products, idxs, sidx, report, pool>>

(* add_reaction_from_file: one _add_reaction per data line, in file order *)
AddAll(is) ==
  LET inpos  == {k \in DOMAIN is : Fits(allowed, is[k])}
      outpos == DOMAIN is \ inpos
      ixs    == [k \in DOMAIN is |-> D(is[k]).idx]
  IN /\ \A k \in DOMAIN is : is[k] \in DOMAIN U.R
     /\ rlist' = rlist \o SelectSeqByPos(is, inpos) /\ idxs' = idxs \o SelectSeqByPos(ixs, inpos)
     /\ skipped' = skipped \o SelectSeqByPos(is, outpos) /\ sidx' = sidx \o SelectSeqByPos(ixs, outpos)
     /\ reactants' = reactants \cup UnionOver(Rs, SelectSeqByPos(is, inpos))
     /\ products' = products \cup UnionOver(Ps, SelectSeqByPos(is, inpos))
     /\ pool' = pool (+) SeqBag(is)
     /\ report' = <<>>
     /\ UNCHANGED <<U, allowed, required>>

(* naunet extend --append-depletion / --append-<kind>-desorption.  U.S[c] = [surface, neutral, gas] describes species class c
   (gas = class of its gas-phase counterpart, 0 if none).  Depletion appends, for EVERY neutral gas species the network holds at
   that moment, exactly one reaction  c -> ice(c)  of type 200; desorption of kind ty appends, for EVERY ice species held at that
   moment (including those depletion has just created), exactly one reaction  s -> gas(s)  of type ty. *)
Held == reactants \cup products
IsDepl(i, c) == D(i).r = <<c>> /\ Len(D(i).p) = 1 /\ U.S[D(i).p[1]].surface /\ U.S[D(i).p[1]].gas = c /\ D(i).ty = 200
IsDesorb(i, c, ty) == D(i).r = <<c>> /\ D(i).p = <<U.S[c].gas>> /\ D(i).ty = ty
ExactlyOneEach(ids, wanted, Is(_, _)) ==
  /\ \A c \in wanted : Cardinality({k \in DOMAIN ids : Is(ids[k], c)}) = 1
  /\ \A k \in DOMAIN ids : \E c \in wanted : Is(ids[k], c)
DepletionComplete(ids) == ExactlyOneEach(ids, {c \in Held : U.S[c].neutral}, IsDepl)
DesorptionComplete(ids, ty) == ExactlyOneEach(ids, {c \in Held : U.S[c].surface}, LAMBDA i, c : IsDesorb(i, c, ty))
AppendDepletion(ids) == DepletionComplete(ids) /\ AddAll(ids)
AppendDesorption(ty, ids) == DesorptionComplete(ids, ty) /\ AddAll(ids)

(* caches after a removal: recomputed from the reactions that remain (the repaired remove_reaction) *)
AfterRemove(newlist) ==
  IF Variant = "stale_remove"
    THEN UNCHANGED <<reactants, products>>
    ELSE /\ reactants' = UnionOver(Rs, newlist) /\ products' = UnionOver(Ps, newlist)

KeepPos(keep) ==     \* keep: set of positions that survive
  /\ rlist' = SelectSeqByPos(rlist, keep) /\ idxs' = SelectSeqByPos(idxs, keep)
  /\ AfterRemove(SelectSeqByPos(rlist, keep))
  /\ pool' = pool (-) SeqBag(SelectSeqByPos(rlist, DOMAIN rlist \ keep))
  /\ report' = <<>>
  /\ UNCHANGED <<U, skipped, sidx, allowed, required>>

(* remove_reaction(int): positions are 0-based in the code, 1-based here *)
RemoveIdx(pos) == pos \in DOMAIN rlist /\ KeepPos(DOMAIN rlist \ {pos})
(* remove_reaction(list[int]) *)
RemoveIdxList(ps) == KeepPos(DOMAIN rlist \ ps)
(* remove_reaction(Reaction): [r for r in reaction_list if r != reaction] *)
RemoveInst(i) == KeepPos({k \in DOMAIN rlist : ~EqDefault(rlist[k], i)})
(* remove_reaction(list[Reaction]): [r for r in reaction_list if r not in reaction] *)
RemoveInstList(is) == KeepPos({k \in DOMAIN rlist : \A i \in is : ~EqDefault(rlist[k], i)})

(* allowed_species setter: re-examines reaction_list + _skipped_reactions, in that order *)
SetAllowed(S) ==
  LET all  == rlist \o (IF Variant = "keep_skipped" THEN skipped \o skipped ELSE skipped)
      allx == idxs \o (IF Variant = "keep_skipped" THEN sidx \o sidx ELSE sidx)
      inpos  == {k \in DOMAIN all : Fits(S, all[k])}
      outpos == DOMAIN all \ inpos
  IN /\ allowed' = S
     /\ rlist' = SelectSeqByPos(all, inpos) /\ idxs' = SelectSeqByPos(allx, inpos)
     /\ skipped' = SelectSeqByPos(all, outpos) /\ sidx' = SelectSeqByPos(allx, outpos)
     /\ reactants' = UnionOver(Rs, SelectSeqByPos(all, inpos))
     /\ products' = UnionOver(Ps, SelectSeqByPos(all, inpos))
     /\ report' = <<>>
     /\ UNCHANGED <<U, required, pool>>

SetRequired(S) == required' = S /\ UNCHANGED <<U, rlist, skipped, reactants, products, allowed, idxs, sidx, report, pool>>

Reindex ==
  /\ idxs' = [k \in DOMAIN rlist |-> k - 1]
  /\ UNCHANGED <<U, rlist, skipped, reactants, products, allowed, required, sidx, report, pool>>

(* find_duplicate_reaction(mode): the first-seen table, with Python dict semantics: a key matches when its
   hash is equal and == holds; keys are probed in insertion order *)
RECURSIVE Scan(_, _, _, _, _)
Scan(mode, k, keys, groups, dup) ==   \* keys: Seq of positions that are table keys; groups: positions per key
  IF k > Len(rlist) THEN [dupidx |-> dup,
                           first |-> SelectSeqByPos([j \in DOMAIN keys |-> keys[j]], {j \in DOMAIN keys : Len(groups[j]) > 1})]
  ELSE LET hit == {j \in DOMAIN keys : HashKey(mode, rlist[keys[j]]) = HashKey(mode, rlist[k])
                                        /\ Equiv(mode, rlist[keys[j]], rlist[k])}
       IN IF hit = {} THEN Scan(mode, k + 1, Append(keys, k), Append(groups, <<k>>), dup)
          ELSE LET j == CHOOSE x \in hit : \A y \in hit : x <= y
               IN Scan(mode, k + 1, keys, [groups EXCEPT ![j] = Append(@, k)], Append(dup, k))
FindDupCoded(mode) == Scan(mode, 1, <<>>, <<>>, <<>>)

FindDup(mode) ==
  /\ report' = [mode |-> mode] @@ FindDupCoded(mode)
  /\ UNCHANGED <<U, rlist, skipped, reactants, products, allowed, required, idxs, sidx, pool>>

(* remove_reaction(dupidx) with the report just obtained *)
RemoveDup ==
  /\ report # <<>>
  /\ LET ps == {report.dupidx[k] : k \in DOMAIN report.dupidx} IN
       /\ rlist' = SelectSeqByPos(rlist, DOMAIN rlist \ ps) /\ idxs' = SelectSeqByPos(idxs, DOMAIN rlist \ ps)
       /\ AfterRemove(SelectSeqByPos(rlist, DOMAIN rlist \ ps))
       /\ pool' = pool (-) SeqBag(SelectSeqByPos(rlist, ps))
  /\ report' = <<>>
  /\ UNCHANGED <<U, skipped, sidx, allowed, required>>

-----------------------------------------------------------------------------
(* derived views (Network.species, find_source_sink) *)
SpeciesSet == reactants \cup products \cup required
Sources    == reactants \ products
Sinks      == products \ reactants

(* queries.  Network.where_species(s, mode): positions of the reactions that involve species class c as a reactant / as a
   product / at all, ascending; Network.where_reaction(reaction, mode): positions of the reactions equivalent to `reaction`
   under the mode (None = __eq__, otherwise the formatted strings are compared).  `naunet extend --remove-species` removes
   exactly WhereSpecies(c, "all") for every named species. *)
Involved(mode, i) == CASE mode = "reactant" -> Rs(i) [] mode = "product" -> Ps(i) [] mode = "all" -> Spc(i)
WhereSpeciesIn(list, c, mode) == {k \in DOMAIN list : c \in Involved(mode, list[k])}
WhereSpecies(c, mode) == WhereSpeciesIn(rlist, c, mode)
WhereReactionIn(list, i, mode) == {k \in DOMAIN list : Equiv(mode, list[k], i)}
WhereReaction(i, mode) == WhereReactionIn(rlist, i, mode)
(* what the queries and the caches say about one state agree, whatever the history *)
QueriesAgreeWithCaches ==
  /\ reactants = {c \in UNION {Spc(rlist[k]) : k \in DOMAIN rlist} \cup reactants : WhereSpecies(c, "reactant") # {}}
  /\ products  = {c \in UNION {Spc(rlist[k]) : k \in DOMAIN rlist} \cup products : WhereSpecies(c, "product") # {}}
  /\ \A c \in reactants \cup products : WhereSpecies(c, "all") = WhereSpecies(c, "reactant") \cup WhereSpecies(c, "product")
  /\ \A k \in DOMAIN rlist : k \in WhereReaction(rlist[k], "default")
(* removing what where_species reports leaves no reaction that mentions the species, and loses no other reaction *)
RemoveWhereIsExact ==
  \A c \in reactants \cup products :
     LET rest == SelectSeqByPos(rlist, DOMAIN rlist \ WhereSpecies(c, "all"))
     IN /\ \A k \in DOMAIN rest : c \notin Spc(rest[k])
        /\ \A k \in DOMAIN rlist : c \notin Spc(rlist[k]) => \E j \in DOMAIN rest : rest[j] = rlist[k]

(* C14 *)
CacheConsistent  == reactants = UnionOver(Rs, rlist) /\ products = UnionOver(Ps, rlist)
AllowedRespected == \A k \in DOMAIN rlist : Fits(allowed, rlist[k])
SkippedDisallowed == \A k \in DOMAIN skipped : ~Fits(allowed, skipped[k])
IdxParallel      == Len(idxs) = Len(rlist) /\ Len(sidx) = Len(skipped)
(* nothing lost / nothing kept contrary to the edits: what the network holds (kept + skipped) is what was
   added minus what was explicitly removed, with multiplicity *)
NothingLost == SeqBag(rlist \o skipped) = pool

(* C15 *)
DeclDup(mode) == {k \in DOMAIN rlist : \E j \in 1..(k-1) : Equiv(mode, rlist[j], rlist[k])}
DeclFirst(mode) == {k \in DOMAIN rlist : (\A j \in 1..(k-1) : ~Equiv(mode, rlist[j], rlist[k]))
                                          /\ (\E j \in (k+1)..Len(rlist) : Equiv(mode, rlist[k], rlist[j]))}
SeqToSet(s) == {s[k] : k \in DOMAIN s}
StrictlyInc(s) == \A a, b \in DOMAIN s : a < b => s[a] < s[b]
ReportIsDecl ==
  report # <<>> => /\ SeqToSet(report.dupidx) = DeclDup(report.mode)
                   /\ StrictlyInc(report.dupidx)
                   /\ SeqToSet(report.first) = DeclFirst(report.mode)
(* after removing the reported positions no two remaining reactions are equivalent and every class survives *)
RemovalSound ==
  report # <<>> =>
    LET ps   == SeqToSet(report.dupidx)
        rest == SelectSeqByPos(rlist, DOMAIN rlist \ ps)
    IN /\ \A a, b \in DOMAIN rest : a < b => ~Equiv(report.mode, rest[a], rest[b])
       /\ \A k \in DOMAIN rlist : \E a \in DOMAIN rest : Equiv(report.mode, rest[a], rlist[k])
=============================================================================

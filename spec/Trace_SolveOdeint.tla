------------------------- MODULE Trace_SolveOdeint -------------------------
(* Each trace is one run of the real odeint Solve (compiled against the scripted
   integrate_adaptive stand-in): header {need, budget, wrapper} + one "Return" event.
   TLC steps the model through its internal actions and compares at the return. *)
EXTENDS SolveOdeint, Json, IOUtils, TLCExt, Sequences
VARIABLES tid, l
JTrace == JsonDeserialize(IOEnv.TRACE_FILE)
Traces == JTrace.traces
NT     == Len(Traces)
ASSUME \A i \in 1..NT : TLCSet(i, 0)
Chk(name, c) == IF c THEN TRUE ELSE PrintT(<<"MISMATCH", Traces[tid].tid, l, name>>) /\ FALSE
TInit ==
  /\ tid \in 1..NT /\ l = 1
  /\ pc = "start" /\ need = Traces[tid].need /\ budget = Traces[tid].budget /\ viaWrapper = Traces[tid].wrapper
  /\ calls = 0 /\ done = 0 /\ ret = "none" /\ logged = FALSE /\ raised = FALSE
TSilent == (Observe \/ Step \/ Catch \/ Finish \/ Wrapper) /\ UNCHANGED <<tid, l>>
TReturn ==
  /\ pc = "done" /\ l = 1 /\ l' = 2 /\ UNCHANGED tid
  /\ LET e == Traces[tid].ev[1] IN
       /\ Chk("ReturnValue", ret = e.ret)
       /\ Chk("ObserverCalls", calls = e.calls)
       /\ Chk("ExactSpanObserved", e.ret = "SUCCESS" => e.span)
       /\ Chk("BudgetLogged", logged = e.logged)
       /\ Chk("WrapperRaised", raised = e.raised)
  /\ UNCHANGED ovars
TNext == TSilent \/ TReturn
TSpec == TInit /\ [][TNext]_<<ovars, tid, l>>
Track ==
  /\ Chk("Inv:ExactSpan", ExactSpan) /\ Chk("Inv:BudgetRespected", BudgetRespected)
  /\ Chk("Inv:OverBudgetFails", OverBudgetFails) /\ Chk("Inv:FailLogged", FailLogged)
  /\ Chk("Inv:WrapperReports", WrapperReports)
  /\ TLCSet(tid, IF l > TLCGet(tid) THEN l ELSE TLCGet(tid))   \* progress register: only states that satisfy every invariant count
Verdicts == \A i \in 1..NT : PrintT(<<"VERDICT", Traces[i].tid, TLCGet(i), 2>>)
=============================================================================

---------------------------- MODULE SpeciesName ----------------------------
(***************************************************************************)
(* Layer L0: Species._parse_molecule_name / _add_element_count and the     *)
(* derived attributes (C08; alias for C09).  Names and symbols are         *)
(* sequences of one-character strings.                                     *)
(*                                                                         *)
(* Table Tb (fixed during a behaviour):                                    *)
(*   Tb.elems, Tb.pseudo : Seq of symbols (the global lists, in order)     *)
(*   Tb.grain, Tb.surf   : the grain symbol and the surface prefix         *)
(*   Tb.repl             : Seq of <<from, to>> (Species._replacement)      *)
(*   Tb.pseudoRaw        : the pseudo list as STORED (the default list     *)
(*                         stores the excited-state marker regex-escaped,  *)
(*                         so the membership test of _add_element_count    *)
(*                         sees "\*", not "*")                             *)
(* One action per step of the code: StripCharge, one MatchSymbol per       *)
(* component (longest first, masking what it consumed), Assemble.          *)
(***************************************************************************)
EXTENDS Integers, Sequences, FiniteSets, TLC

CONSTANTS Variant       \* "asis" (the repaired code) | "raw_membership" (the escaped marker is missed and counted)

VARIABLES Tb, name, pc, parsename, chargeStr, comps, ci, masked, matches, res

svars == <<Tb, name, pc, parsename, chargeStr, comps, ci, masked, matches, res>>

Digits == {"0", "1", "2", "3", "4", "5", "6", "7", "8", "9"}
DigitVal(c) == CASE c = "0" -> 0 [] c = "1" -> 1 [] c = "2" -> 2 [] c = "3" -> 3 [] c = "4" -> 4 [] c = "5" -> 5
                 [] c = "6" -> 6 [] c = "7" -> 7 [] c = "8" -> 8 [] c = "9" -> 9
RECURSIVE NumVal(_)
NumVal(s) == IF s = <<>> THEN 0 ELSE NumVal(SubSeq(s, 1, Len(s) - 1)) * 10 + DigitVal(s[Len(s)])
IsDigits(s) == s # <<>> /\ \A k \in DOMAIN s : s[k] \in Digits

(* re.sub(r"\+*$", "", x) then re.sub(r"-*$", "", x) *)
RECURSIVE StripTail(_, _)
StripTail(s, c) == IF s # <<>> /\ s[Len(s)] = c THEN StripTail(SubSeq(s, 1, Len(s) - 1), c) ELSE s
Stripped(s) == StripTail(StripTail(s, "+"), "-")

(* sorted(elements + symbols, key=len, reverse=True): stable *)
AllComps(t) == t.elems \o t.pseudo \o <<t.grain, t.surf>>
RECURSIVE SortByLen(_, _)
SortByLen(cs, len) ==      \* all of length len (in list order), then shorter ones
  IF len = 0 THEN <<>> ELSE SelectSeq(cs, LAMBDA c : Len(c) = len) \o SortByLen(cs, len - 1)
MaxLen(cs) == IF cs = <<>> THEN 0 ELSE CHOOSE m \in {Len(cs[k]) : k \in DOMAIN cs} : \A k \in DOMAIN cs : Len(cs[k]) <= m

(* re.finditer(c, s) for a literal c: leftmost, non-overlapping *)
RECURSIVE FindAll(_, _, _)
FindAll(s, pat, from) ==
  IF pat = <<>> \/ from + Len(pat) - 1 > Len(s) THEN <<>>
  ELSE IF SubSeq(s, from, from + Len(pat) - 1) = pat THEN <<from>> \o FindAll(s, pat, from + Len(pat))
  ELSE FindAll(s, pat, from + 1)
MaskAt(s, starts, len) == [i \in DOMAIN s |-> IF \E k \in DOMAIN starts : starts[k] <= i /\ i < starts[k] + len THEN " " ELSE s[i]]

Repl(t, n) == IF \E k \in DOMAIN t.repl : t.repl[k][1] = n THEN t.repl[CHOOSE k \in DOMAIN t.repl : t.repl[k][1] = n][2] ELSE n

EmptyRes == [ok |-> TRUE, counts |-> <<>>, surface |-> FALSE, sgroup |-> -1, grain |-> FALSE, ggroup |-> -1, err |-> ""]

SInit(t, nm) ==
  /\ Tb = t /\ name = nm /\ pc = "strip" /\ parsename = <<>> /\ chargeStr = <<>> /\ comps = <<>> /\ ci = 1
  /\ masked = <<>> /\ matches = {} /\ res = EmptyRes

StripCharge ==
  /\ pc = "strip"
  /\ parsename' = Stripped(name)
  /\ chargeStr' = SubSeq(name, Len(Stripped(name)) + 1, Len(name))
  /\ comps' = SortByLen(AllComps(Tb), MaxLen(AllComps(Tb)))
  /\ masked' = Stripped(name) /\ ci' = 1 /\ pc' = "match"
  /\ UNCHANGED <<Tb, name, matches, res>>

(* for c in components: for it in re.finditer(c, firstparse): record, mask *)
MatchSymbol ==
  /\ pc = "match" /\ ci <= Len(comps)
  /\ LET c == comps[ci]
         st == FindAll(masked, c, 1)
     IN /\ matches' = matches \cup {<<st[k], Len(c), c>> : k \in DOMAIN st}
        /\ masked' = MaskAt(masked, st, Len(c))
  /\ ci' = ci + 1
  /\ UNCHANGED <<Tb, name, pc, parsename, chargeStr, comps, res>>

(* _add_element_count *)
AddCount(r, t, el, count) ==
  IF (IF Variant = "raw_membership" THEN \E k \in DOMAIN t.pseudoRaw : t.pseudoRaw[k] = el
                                     ELSE \E k \in DOMAIN t.pseudo : t.pseudo[k] = el) THEN r
  ELSE IF el = t.surf THEN (IF r.surface THEN [r EXCEPT !.ok = FALSE, !.err = "RepeatedSurface"] ELSE [r EXCEPT !.surface = TRUE, !.sgroup = count])
  ELSE LET isg == el = t.grain
           r1  == IF isg THEN (IF r.grain THEN [r EXCEPT !.ok = FALSE, !.err = "RepeatedGrain"] ELSE [r EXCEPT !.grain = TRUE, !.ggroup = count]) ELSE r
           cnt == IF isg THEN 1 ELSE IF count <= 0 THEN 1 ELSE count
           pos == {k \in DOMAIN r1.counts : r1.counts[k][1] = el}
       IN IF ~r1.ok THEN r1
          ELSE IF pos = {} THEN [r1 EXCEPT !.counts = Append(@, <<el, cnt>>)]
          ELSE [r1 EXCEPT !.counts = [k \in DOMAIN @ |-> IF k \in pos THEN <<el, @[k][2] + cnt>> ELSE @[k]]]

(* the matches in order of start, the gaps between them are the counts *)
RECURSIVE SortedMatches(_)
SortedMatches(ms) ==
  IF ms = {} THEN <<>>
  ELSE LET m == CHOOSE x \in ms : \A y \in ms : x[1] <= y[1] IN <<m>> \o SortedMatches(ms \ {m})
RECURSIVE Walk(_, _, _, _)
Walk(r, t, sm, k) ==      \* k-th match: its count is the gap up to the next match (or the end)
  IF ~r.ok \/ k > Len(sm) THEN r
  ELSE LET e == sm[k][1] + sm[k][2]
           s == IF k = Len(sm) THEN Len(parsename) + 1 ELSE sm[k + 1][1]
           gap == SubSeq(parsename, e, s - 1)
           n == Repl(t, sm[k][3])
       IN IF gap # <<>>
            THEN IF IsDigits(gap) THEN Walk(AddCount(r, t, n, NumVal(gap)), t, sm, k + 1)
                 ELSE [r EXCEPT !.ok = FALSE, !.err = "Unrecognized"]
            ELSE IF n \in {t.grain, t.surf} THEN Walk(AddCount(r, t, n, 0), t, sm, k + 1)    \* if n in symbols: count 0
                 ELSE Walk(AddCount(r, t, n, 1), t, sm, k + 1)

Assemble ==
  /\ pc = "match" /\ ci = Len(comps) + 1
  /\ LET sm == IF matches = {} THEN <<>> ELSE SortedMatches(matches)
         first == IF sm = <<>> THEN Len(parsename) + 1 ELSE sm[1][1]
     IN res' = IF first # 1 THEN [EmptyRes EXCEPT !.ok = FALSE, !.err = "StartsUnrecognizable"]
               ELSE Walk(EmptyRes, Tb, sm, 1)
  /\ pc' = "done"
  /\ UNCHANGED <<Tb, name, parsename, chargeStr, comps, ci, masked, matches>>

SNext == StripCharge \/ MatchSymbol \/ Assemble

-----------------------------------------------------------------------------
(* derived attributes *)
CountOf(r, el) == IF \E k \in DOMAIN r.counts : r.counts[k][1] = el THEN r.counts[CHOOSE k \in DOMAIN r.counts : r.counts[k][1] = el][2] ELSE 0
Upper1(c) == CASE c = "e" -> "E" [] OTHER -> c
IsElectronName(nm) == nm \in {<<"e">>, <<"E">>, <<"e", "-">>, <<"E", "-">>}
(* the '+' run at the very end minus the '-' run at the very end (for well-formed names one of them is empty) *)
ChargeOf(nm) == IF IsElectronName(nm) THEN -1
                ELSE (Len(nm) - Len(StripTail(nm, "+"))) - (Len(nm) - Len(StripTail(nm, "-")))
TotalAtoms(r) == LET F[k \in 0..Len(r.counts)] == IF k = 0 THEN 0 ELSE F[k - 1] + r.counts[k][2] IN F[Len(r.counts)]
IsAtom(r, nm) == Len(r.counts) = 1 /\ TotalAtoms(r) = 1 /\ ChargeOf(nm) = 0 /\ ~IsElectronName(nm) /\ ~r.surface

-----------------------------------------------------------------------------
(* the declarative meaning for a name built from a token sequence: toks = Seq of [sym, cnt (0 = no digits), kind] *)
RECURSIVE NumStr(_)
DigitChr(d) == CASE d = 0 -> "0" [] d = 1 -> "1" [] d = 2 -> "2" [] d = 3 -> "3" [] d = 4 -> "4" [] d = 5 -> "5" [] d = 6 -> "6"
                 [] d = 7 -> "7" [] d = 8 -> "8" [] d = 9 -> "9"
NumStr(n) == IF n < 10 THEN <<DigitChr(n)>> ELSE NumStr(n \div 10) \o <<DigitChr(n % 10)>>
RECURSIVE Encode(_)
Encode(toks) == IF toks = <<>> THEN <<>> ELSE toks[1].sym \o (IF toks[1].cnt = 0 THEN <<>> ELSE NumStr(toks[1].cnt)) \o Encode(Tail(toks))
RECURSIVE Intended(_, _, _)
Intended(r, t, toks) ==
  IF toks = <<>> THEN r
  ELSE LET tk == toks[1] IN
       Intended(CASE tk.kind = "pseudo" -> r
                  [] tk.kind = "surf"   -> [r EXCEPT !.surface = TRUE, !.sgroup = tk.cnt]
                  [] tk.kind = "grain"  -> LET r1 == [r EXCEPT !.grain = TRUE, !.ggroup = tk.cnt] IN
                                           [r1 EXCEPT !.counts = IF CountOf(r1, tk.sym) > 0 THEN [k \in DOMAIN @ |-> IF @[k][1] = tk.sym THEN <<tk.sym, @[k][2] + 1>> ELSE @[k]]
                                                                 ELSE Append(@, <<tk.sym, 1>>)]
                  [] OTHER -> LET c == IF tk.cnt = 0 THEN 1 ELSE tk.cnt
                                  el == Repl(t, tk.sym) IN
                              [r EXCEPT !.counts = IF CountOf(r, el) > 0 THEN [k \in DOMAIN @ |-> IF @[k][1] = el THEN <<el, @[k][2] + c>> ELSE @[k]]
                                                   ELSE Append(@, <<el, c>>)],
                t, Tail(toks))
CountsAsSet(r) == {r.counts[k] : k \in DOMAIN r.counts}
SameComposition(a, b) == /\ a.ok = b.ok /\ CountsAsSet(a) = CountsAsSet(b) /\ a.surface = b.surface /\ a.grain = b.grain
                         /\ (a.surface => a.sgroup = b.sgroup) /\ (a.grain => a.ggroup = b.ggroup)
(* a token sequence is canonical when no configured symbol occurs in its encoding except inside ONE token's symbol text *)
TokSpans(ts) ==
  LET F[k \in 0..Len(ts)] == IF k = 0 THEN 0 ELSE F[k - 1] + Len(ts[k].sym) + (IF ts[k].cnt = 0 THEN 0 ELSE Len(NumStr(ts[k].cnt)))
  IN {<<F[k - 1] + 1, F[k - 1] + Len(ts[k].sym)>> : k \in DOMAIN ts}
Canonical(t, ts) ==
  LET enc == Encode(ts)
      cs == AllComps(t)
  IN \A k \in DOMAIN cs : \A p \in 1..(Len(enc) - Len(cs[k]) + 1) :
        SubSeq(enc, p, p + Len(cs[k]) - 1) = cs[k] => \E sp \in TokSpans(ts) : sp[1] <= p /\ p + Len(cs[k]) - 1 <= sp[2]

=============================================================================

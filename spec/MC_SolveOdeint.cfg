CONSTANTS
  MaxN = 6
  MaxBudget = 8
  Variant = "asis"
SPECIFICATION OSpec
INVARIANT ExactSpan
INVARIANT BudgetRespected
INVARIANT OverBudgetFails
INVARIANT FailLogged
INVARIANT WrapperReports
CHECK_DEADLOCK FALSE

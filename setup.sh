#!/bin/sh
# Offline setup: nothing is downloaded or built ahead of time; every check renders and compiles from /repo's working tree.
set -e
cd "$(dirname "$0")"
command -v java >/dev/null
command -v g++ >/dev/null
test -x /venv/bin/python
test -f /opt/veriftools/tla/tla2tools.jar
/venv/bin/python -c "import lark, jinja2, tomlkit, hypothesis" 
( cd spec && for f in *.tla; do
  java -cp /opt/veriftools/tla/tla2tools.jar:/opt/veriftools/tla/CommunityModules-deps.jar tla2sany.SANY "$f" >/dev/null 2>&1 || { echo "SANY failed on $f"; exit 1; }
done )
mkdir -p evidence
echo setup ok

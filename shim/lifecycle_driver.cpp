// Drives the public life cycle of the generated Naunet class (cvode dense/sparse): Init / Reset / Solve / Finalize in the
// order given by a script, against the stand-in that counts live objects and decodes the Jacobian the way it was declared.
// usage: lifecycle_driver <scripts.txt> <scratchdir>       (ndjson on stdout)
// script line:  tid nops { I n atol rtol mx | R n atol rtol mx | S dt | F }*nops
#include <stdio.h>
#include <stdlib.h>
#include <string.h>
#include <unistd.h>
#include "naunet.h"
ShimState g_shim;
static void report(const char *op, int ret) {
    printf("{\"ev\":\"Op\",\"op\":\"%s\",\"ret\":%d,\"ctx\":%ld,\"vec\":%ld,\"mat\":%ld,\"ls\":%ld,\"mem\":%ld,\"bad_free\":%ld,\"use_dead\":%ld}\n",
           op, ret, g_shim.live_ctx, g_shim.live_vec, g_shim.live_mat, g_shim.live_ls, g_shim.live_mem, g_shim.bad_free, g_shim.use_dead);
}
int main(int argc, char **argv) {
    if (argc < 3) return 2;
    FILE *in = fopen(argv[1], "r"); if (!in) return 2;
    if (chdir(argv[2]) != 0) return 2;
    long tid; int nops;
    while (fscanf(in, "%ld %d", &tid, &nops) == 2) {
        g_shim = ShimState(); g_shim.lifecycle = true; g_shim.log = stdout;
        remove("naunet_error_record.txt");
        printf("{\"ev\":\"Begin\",\"tid\":%ld,\"neq\":%d,\"nnz\":%d}\n", tid, (int)NEQUATIONS, (int)NNZ);
        Naunet *n = new Naunet();
        NaunetData data; memset(&data, 0, sizeof(data));
        data.nH = 1e4; data.Tgas = 50.0;
        double ab[NEQUATIONS];
        for (int k = 0; k < nops; k++) {
            char op[8]; if (fscanf(in, "%7s", op) != 1) return 2;
            if (op[0] == 'I' || op[0] == 'R') {
                int ns, mx; double atol, rtol; if (fscanf(in, "%d %lf %lf %d", &ns, &atol, &rtol, &mx) != 4) return 2;
                int r = op[0] == 'I' ? n->Init(ns, atol, rtol, mx) : n->Reset(ns, atol, rtol, mx);
                report(op, r);
            } else if (op[0] == 'S') {
                double dt; if (fscanf(in, "%lf", &dt) != 1) return 2;
                for (int i = 0; i < NEQUATIONS; i++) ab[i] = 1.0 + 0.25 * i;
                int r = n->Solve(ab, dt, &data);
                report(op, r);
            } else if (op[0] == 'F') {
                int r = n->Finalize();
                report(op, r);
            } else return 2;
        }
        // the object is deliberately not deleted: the destructor is not part of the scripted life cycle
    }
    return 0;
}

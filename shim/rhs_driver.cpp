// Evaluates the generated right-hand side and Jacobian ONCE PER STATE, in one process, for the cvode-dense back-end or (with
// -DODEINT) the odeint back-end, and prints them.  usage: rhs_driver <states.txt>   (one state per line: NEQUATIONS numbers)
// set_fields.inc (written by the harness from naunet_data.h) assigns every field of NaunetData.
#include <stdio.h>
#include <stdlib.h>
#include <string.h>
#include "naunet_macros.h"
#include "naunet_data.h"
#include "naunet_ode.h"
#ifdef ODEINT
OdeintShimState g_oshim;
#else
ShimState g_shim;
#endif
int main(int argc, char **argv) {
    if (argc < 2) return 2;
    FILE *in = fopen(argv[1], "r"); if (!in) return 2;
    double st[NEQUATIONS];
    for (;;) {
        int ok = 1; for (int i = 0; i < NEQUATIONS; i++) if (fscanf(in, "%lf", &st[i]) != 1) ok = 0;
        if (!ok) break;
        NaunetData data; memset(&data, 0, sizeof(data));
#include "set_fields.inc"
        double yd[NEQUATIONS]; static double J[NEQUATIONS][NEQUATIONS];
        for (int i = 0; i < NEQUATIONS; i++) for (int j = 0; j < NEQUATIONS; j++) J[i][j] = 0.0;
#ifdef ODEINT
        vector_type ab(NEQUATIONS), ydv(NEQUATIONS), dfdt(NEQUATIONS); matrix_type Jm(NEQUATIONS, NEQUATIONS);
        for (int i = 0; i < NEQUATIONS; i++) { ab[i] = st[i]; ydv[i] = -777.0; }
        for (int i = 0; i < NEQUATIONS; i++) for (int j = 0; j < NEQUATIONS; j++) Jm(i, j) = 0.0;
        Fex f(&data); f(ab, ydv, 0.0);
        Jac jj(&data); jj(ab, Jm, 0.0, dfdt);
        for (int i = 0; i < NEQUATIONS; i++) { yd[i] = ydv[i]; for (int j = 0; j < NEQUATIONS; j++) J[i][j] = Jm(i, j); }
        // the stepper reuses the SAME matrix for every step and overwrites it in between: a second call must give the same matrix
        for (int i = 0; i < NEQUATIONS; i++) for (int j = 0; j < NEQUATIONS; j++) Jm(i, j) = 99.0 + i - j;
        jj(ab, Jm, 0.0, dfdt);
        for (int i = 0; i < NEQUATIONS; i++) for (int j = 0; j < NEQUATIONS; j++) if (!(Jm(i, j) == J[i][j]) && !(Jm(i, j) != Jm(i, j) && J[i][j] != J[i][j])) J[i][j] = Jm(i, j) + 1e300;
#else
        SUNContext ctx; SUNContext_Create(NULL, &ctx);
        double y[NEQUATIONS]; for (int i = 0; i < NEQUATIONS; i++) { y[i] = st[i]; yd[i] = -777.0; }   // CVODE hands over an uncleared vector
        N_Vector u = N_VMake_Serial(NEQUATIONS, y, ctx), ud = N_VMake_Serial(NEQUATIONS, yd, ctx);
        SUNMatrix A = SUNDenseMatrix(NEQUATIONS, NEQUATIONS, ctx);
        Fex(0.0, u, ud, &data);
        Jac(0.0, u, ud, A, &data, NULL, NULL, NULL);
        for (int i = 0; i < NEQUATIONS; i++) for (int j = 0; j < NEQUATIONS; j++) J[i][j] = SM_ELEMENT_D(A, i, j);
#endif
        printf("{\"ydot\":[");
        for (int i = 0; i < NEQUATIONS; i++) printf("%s%.17g", i ? "," : "", yd[i]);
        printf("],\"jac\":[");
        for (int i = 0; i < NEQUATIONS; i++) for (int j = 0; j < NEQUATIONS; j++) printf("%s%.17g", (i || j) ? "," : "", J[i][j]);
        printf("]}\n");
    }
    return 0;
}

// Drives the generated Naunet::SetReferenceAbund / Naunet::Renorm (cvode dense, or odeint with -DODEINT) against the stand-ins;
// all cases run in ONE process, one after the other (a solver object per case).
// usage: renorm_driver <cases.txt> <scratchdir>
// case line:  tid  ref[NELEMENTS]  ab[NEQUATIONS]  nops  {op}*      op: 0 SetReferenceAbund(ref, 0) | 1 Renorm | 2 perturb | 100+s perturb species s only
#include <stdio.h>
#include <stdlib.h>
#include <string.h>
#include <unistd.h>
#include <math.h>
#include "naunet.h"
#include "naunet_physics.h"
#ifdef ODEINT
OdeintShimState g_oshim;
#else
ShimState g_shim;
#endif
int main(int argc, char **argv) {
    if (argc < 3) return 2;
    FILE *in = fopen(argv[1], "r"); if (!in) return 2;
    if (chdir(argv[2]) != 0) return 2;
    long tid;
    while (fscanf(in, "%ld", &tid) == 1) {
        double ref[NELEMENTS > 0 ? NELEMENTS : 1], ab[NEQUATIONS];
        for (int i = 0; i < NELEMENTS; i++) if (fscanf(in, "%lf", &ref[i]) != 1) return 2;
        for (int i = 0; i < NEQUATIONS; i++) if (fscanf(in, "%lf", &ab[i]) != 1) return 2;
        int nops; if (fscanf(in, "%d", &nops) != 1) return 2;
        Naunet n; n.Init(1, 1e-20, 1e-5, 500);
        for (int k = 0; k < nops; k++) {
            int op; if (fscanf(in, "%d", &op) != 1) return 2;
            int ret = 0;
            if (op == 0) ret = n.SetReferenceAbund(ref, 0);
            else if (op == 1) ret = n.Renorm(ab);
            else if (op >= 100) ab[(op - 100) % NSPECIES] *= 1.03;      // one species only, by three per cent
            else for (int i = 0; i < NSPECIES; i++) ab[i] *= (1.0 + 0.37 * ((i * 7 + k * 3) % 5));
            printf("{\"tid\":%ld,\"k\":%d,\"op\":%d,\"ret\":%d,\"ab\":[", tid, k, op, ret);
            for (int i = 0; i < NEQUATIONS; i++) printf("%s%.17g", i ? "," : "", ab[i]);
            printf("],\"elem\":[");
            for (int i = 0; i < NELEMENTS; i++) printf("%s%.17g", i ? "," : "", GetElementAbund(ab, i));
            printf("],\"hn\":%.17g}\n", GetHNuclei(ab));
        }
        n.Finalize();
    }
    return 0;
}

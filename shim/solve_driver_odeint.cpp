// Drives the generated Naunet::Solve (odeint) against the scripted integrate_adaptive stand-in.
// usage: solve_driver_odeint <scripts.txt> <scratchdir>    script line: tid dt y0 nsteps mxsteps premx
// premx < 0: Init(mxsteps); premx >= 0: Init(premx) followed by Reset(.., mxsteps) -- the budget of the LAST configuring call counts
#include <stdio.h>
#include <stdlib.h>
#include <string.h>
#include <unistd.h>
#include "naunet.h"
OdeintShimState g_oshim;
int main(int argc, char **argv) {
    if (argc < 3) return 2;
    FILE *in = fopen(argv[1], "r"); if (!in) return 2;
    if (chdir(argv[2]) != 0) return 2;
    long tid, nsteps; double dt, y0; int mx, premx;
    while (fscanf(in, "%ld %lf %lf %ld %d %d", &tid, &dt, &y0, &nsteps, &mx, &premx) == 6) {
        g_oshim = OdeintShimState(); g_oshim.nsteps = nsteps;
        remove("naunet_error_record.txt");
        Naunet n; NaunetData data; memset(&data, 0, sizeof(data));
        double ab[NEQUATIONS]; for (int i = 0; i < NEQUATIONS; i++) ab[i] = y0;
        if (premx < 0) n.Init(1, 1e-20, 1e-5, mx);
        else { n.Init(1, 1e-20, 1e-5, premx); n.Reset(1, 1e-20, 1e-5, mx); }
#ifdef PYMODULE
        int ret = 0; bool raised = false;
        try { py::array_t<double> arr(std::vector<ssize_t>{(ssize_t)NEQUATIONS}, ab); n.PyWrapSolve(arr, dt, &data); }
        catch (const std::runtime_error &e) { raised = true; ret = 1; }
#else
        int ret = n.Solve(ab, dt, &data); bool raised = false;
#endif
        n.Finalize();
        bool has_msg = false;
        FILE *ef = fopen("naunet_error_record.txt", "r");
        if (ef) { char line[512]; while (fgets(line, sizeof line, ef)) if (strstr(line, "mxstep")) has_msg = true; fclose(ef); }
        printf("{\"ev\":\"OdeintRun\",\"tid\":%ld,\"dt\":%.17g,\"y0\":%.17g,\"nsteps\":%ld,\"mxsteps\":%d,\"ret\":%d,\"y\":%.17g,\"observer_calls\":%ld,\"logged\":%s,\"raised\":%s}\n",
               tid, dt, y0, nsteps, mx, ret, ab[0], g_oshim.observer_calls, has_msg ? "true" : "false", raised ? "true" : "false");
    }
    return 0;
}

// Calls the generated Fex (cvode dense) repeatedly IN ONE PROCESS at a sequence of gas temperatures and prints ydot.
// usage: fex_driver <temps.txt>     temps.txt: one temperature per line     (y[i] = 1 for all species)
#include <stdio.h>
#include <stdlib.h>
#include <string.h>
#include "naunet_macros.h"
#include "naunet_data.h"
#include "naunet_ode.h"
ShimState g_shim;
int main(int argc, char **argv) {
    if (argc < 2) return 2;
    FILE *in = fopen(argv[1], "r"); if (!in) return 2;
    double T;
    realtype y[NEQUATIONS], yd[NEQUATIONS];
    SUNContext ctx; SUNContext_Create(NULL, &ctx);
    N_Vector u = N_VMake_Serial(NEQUATIONS, y, ctx), ud = N_VMake_Serial(NEQUATIONS, yd, ctx);
    while (fscanf(in, "%lf", &T) == 1) {
        NaunetData data; memset(&data, 0, sizeof(data));
        data.Tgas = T; data.nH = 1e4; data.zeta = 1.3e-17; data.Av = 1.0; data.omega = 0.5;
        for (int i = 0; i < NEQUATIONS; i++) { y[i] = 1.0; yd[i] = -777.0; }
        Fex(0.0, u, ud, &data);
        printf("{\"T\":%.17g,\"ydot\":[", T);
        for (int i = 0; i < NEQUATIONS; i++) printf("%s%.17g", i ? "," : "", yd[i]);
        printf("]}\n");
    }
    return 0;
}

// Stand-in for the subset of Boost.uBLAS / Boost.Odeint that naunet's odeint templates use.
// integrate_adaptive is SCRIPTED: it performs g_oshim.nsteps uniform steps of the "solution"
// y_i(t) = y_i(0) + t from t0 to t1, calling the observer before the first step and after
// every step exactly as boost::numeric::odeint::integrate_adaptive does, and returns the
// number of steps.  An exception thrown by the observer propagates (state left where it was).
#ifndef NAUNET_BOOST_SHIM_H
#define NAUNET_BOOST_SHIM_H
#include <stdio.h>
#include <stdlib.h>
#include <math.h>
#include <stddef.h>
#include <vector>
#include <utility>
#include <stdexcept>
#include <iostream>

struct OdeintShimState { long nsteps = 1; long observer_calls = 0; FILE *log = NULL; };
extern OdeintShimState g_oshim;

// uBLAS does not initialise the elements of a vector / matrix built from its sizes only (unbounded_array<double> leaves them as the
// heap had them): the stand-in makes that deterministic by filling such storage with NaN, so that any entry the generated code reads
// before writing it shows up in the result instead of depending on what the previous call left behind
#include <limits>
template <class T> inline T shim_unset() { return std::numeric_limits<T>::has_quiet_NaN ? std::numeric_limits<T>::quiet_NaN() : T(); }
namespace boost { namespace numeric { namespace ublas {
template <class T> class vector {
    std::vector<T> d_;
   public:
    vector() {}
    explicit vector(size_t n) : d_(n, shim_unset<T>()) {}
    vector(size_t n, const T &v) : d_(n, v) {}
    size_t size() const { return d_.size(); }
    T &operator[](size_t i) { if (i >= d_.size()) { fprintf(stderr, "SHIM: ublas::vector index %zu out of range %zu\n", i, d_.size()); abort(); } return d_[i]; }
    const T &operator[](size_t i) const { if (i >= d_.size()) { fprintf(stderr, "SHIM: ublas::vector index %zu out of range %zu\n", i, d_.size()); abort(); } return d_[i]; }
    T &operator()(size_t i) { return (*this)[i]; }
    const T &operator()(size_t i) const { return (*this)[i]; }
};
template <class T> struct zero_matrix { size_t r, c; zero_matrix(size_t r_, size_t c_) : r(r_), c(c_) {} };
template <class T> class matrix {
    size_t r_, c_; std::vector<T> d_;
   public:
    matrix() : r_(0), c_(0) {}
    matrix(size_t r, size_t c) : r_(r), c_(c), d_(r * c, shim_unset<T>()) {}
    size_t size1() const { return r_; }
    size_t size2() const { return c_; }
    T &operator()(size_t i, size_t j) { if (i >= r_ || j >= c_) { fprintf(stderr, "SHIM: ublas::matrix (%zu,%zu) out of range %zux%zu\n", i, j, r_, c_); abort(); } return d_[i * c_ + j]; }
    const T &operator()(size_t i, size_t j) const { if (i >= r_ || j >= c_) { fprintf(stderr, "SHIM: ublas::matrix (%zu,%zu) out of range %zux%zu\n", i, j, r_, c_); abort(); } return d_[i * c_ + j]; }
    matrix &operator=(const zero_matrix<T> &z) { r_ = z.r; c_ = z.c; d_.assign(r_ * c_, T()); return *this; }
};
template <class S> struct permutation_matrix { std::vector<S> p; explicit permutation_matrix(size_t n) : p(n) { for (size_t i = 0; i < n; i++) p[i] = (S)i; } };
// LU with partial pivoting in place; returns 0 on success (as uBLAS: singular index otherwise)
template <class T, class S> size_t lu_factorize(matrix<T> &A, permutation_matrix<S> &pm) {
    size_t n = A.size1();
    for (size_t c = 0; c < n; c++) {
        size_t p = c; for (size_t r = c + 1; r < n; r++) if (fabs(A(r, c)) > fabs(A(p, c))) p = r;
        if (A(p, c) == 0.0) return c + 1;
        // as uBLAS: pm(c) is WRITTEN only when a row swap happens; otherwise it is expected to hold c already (uBLAS only asserts that
        // in debug builds) -- the caller must hand in a fresh (identity) permutation
        if (p != c) { pm.p[c] = (S)p; for (size_t j = 0; j < n; j++) std::swap(A(p, j), A(c, j)); }
        for (size_t r = c + 1; r < n; r++) { A(r, c) /= A(c, c); for (size_t j = c + 1; j < n; j++) A(r, j) -= A(r, c) * A(c, j); }
    }
    return 0;
}
template <class T, class S> void lu_substitute(const matrix<T> &A, const permutation_matrix<S> &pm, vector<T> &b) {
    size_t n = A.size1();
    for (size_t i = 0; i < n; i++) if (pm.p[i] != i) std::swap(b[i], b[pm.p[i]]);
    for (size_t i = 0; i < n; i++) for (size_t j = 0; j < i; j++) b[i] -= A(i, j) * b[j];
    for (size_t ii = n; ii-- > 0;) { for (size_t j = ii + 1; j < n; j++) b[ii] -= A(ii, j) * b[j]; b[ii] /= A(ii, ii); }
}
}  // namespace ublas
namespace odeint {
template <class T> struct rosenbrock4 {};
template <class St> struct controlled_stepper_shim { double atol, rtol; };
template <class St> controlled_stepper_shim<St> make_controlled(double atol, double rtol) { return controlled_stepper_shim<St>{atol, rtol}; }
template <class St> controlled_stepper_shim<St> make_dense_output(double atol, double rtol) { return controlled_stepper_shim<St>{atol, rtol}; }
template <class Stepper, class System, class State, class Obs>
size_t integrate_adaptive(Stepper, System, State &y, double t0, double t1, double dt, Obs obs) {
    long n = g_oshim.nsteps < 1 ? 1 : g_oshim.nsteps; (void)dt;
    double t = t0;
    g_oshim.observer_calls++; obs(y, t);
    for (long s = 1; s <= n; s++) {
        double tn = (s == n) ? t1 : t0 + (t1 - t0) * ((double)s / (double)n);
        for (size_t i = 0; i < y.size(); i++) y[i] += (tn - t);
        t = tn;
        g_oshim.observer_calls++; obs(y, t);
    }
    return (size_t)n;
}
}  // namespace odeint
}}  // namespace boost::numeric
#endif

// Force-included (-include) into a program that USES the generated Naunet class (the example programs under tests/): every public call
// the program makes goes through a subclass that reports the call and the stand-in's object counters, exactly as
// shim/lifecycle_driver.cpp does for its scripted histories.  The generated class itself is compiled unchanged.
#ifndef NAUNET_TRACED_CLASS_H
#define NAUNET_TRACED_CLASS_H
#include <stdio.h>
#include "naunet.h"
extern ShimState g_shim;
static inline void nv_report(const char *op, int ret, int n, double atol, double rtol, int mx) {
    printf("\n{\"ev\":\"Op\",\"op\":\"%s\",\"ret\":%d,\"n\":%d,\"atol\":%.17g,\"rtol\":%.17g,\"mx\":%d,\"ctx\":%ld,\"vec\":%ld,\"mat\":%ld,\"ls\":%ld,\"mem\":%ld,"
           "\"bad_free\":%ld,\"use_dead\":%ld}\n", op, ret, n, atol, rtol, mx,
           g_shim.live_ctx, g_shim.live_vec, g_shim.live_mat, g_shim.live_ls, g_shim.live_mem, g_shim.bad_free, g_shim.use_dead);
}
class TracedNaunet : public Naunet {
   public:
    int Init(int nsystem = MAX_NSYSTEMS, double atol = 1e-20, double rtol = 1e-5, int mxsteps = 500) {
        int r = Naunet::Init(nsystem, atol, rtol, mxsteps); nv_report("I", r, nsystem, atol, rtol, mxsteps); return r; }
    int Reset(int nsystem = MAX_NSYSTEMS, double atol = 1e-20, double rtol = 1e-5, int mxsteps = 500) {
        int r = Naunet::Reset(nsystem, atol, rtol, mxsteps); nv_report("R", r, nsystem, atol, rtol, mxsteps); return r; }
    int Solve(realtype *ab, realtype dt, NaunetData *data) { int r = Naunet::Solve(ab, dt, data); nv_report("S", r, 0, 0.0, 0.0, 0); return r; }
    int Finalize() { int r = Naunet::Finalize(); nv_report("F", r, 0, 0.0, 0.0, 0); return r; }
};
#define Naunet TracedNaunet
#endif

// Stand-in for the sliver of pybind11 that naunet.h / naunet.cpp use under -DPYMODULE.
#ifndef NAUNET_PYBIND11_SHIM_H
#define NAUNET_PYBIND11_SHIM_H
#include <vector>
#include <stdexcept>
#include <sys/types.h>
namespace pybind11 {
struct buffer_info { void *ptr; std::vector<ssize_t> shape; };
template <class T> struct array_t {
    T *p; std::vector<ssize_t> shape;
    array_t(std::vector<ssize_t> s, T *ptr) : p(ptr), shape(s) {}
    buffer_info request() { return buffer_info{(void *)p, shape}; }
};
struct arg { const char *n; explicit arg(const char *n_) : n(n_) {} template <class V> arg &operator=(V) { return *this; } };
struct init_t {}; inline init_t init() { return init_t(); }
struct module_ {};
template <class C> struct class_ {
    class_(module_ &, const char *) {}
    template <class... A> class_ &def(A &&...) { return *this; }
    template <class... A> class_ &def_readwrite(A &&...) { return *this; }
};
}  // namespace pybind11
#define PYBIND11_MODULE(name, m) static void pybind11_init_shim_##name(pybind11::module_ &m)
#endif

#include "naunet_sundials_shim.h"

// Stand-in for the subset of the SUNDIALS 6 API that naunet's cvode templates use.
// It implements the documented call contracts only: serial vectors over a user array,
// dense and CSR matrices, a small dense LU for SUNLinSolSolve, and a SCRIPTED CVode /
// CVodeReInit whose "solution" is y_i(t) = y_i(t_origin) + (t - t_origin), so that the
// state measures integrated time.  Every API call of interest is logged (see ShimLog).
#ifndef NAUNET_SUNDIALS_SHIM_H
#define NAUNET_SUNDIALS_SHIM_H
#include <stdio.h>
#include <stdlib.h>
#include <string.h>
#include <math.h>
#include <vector>
#include <set>
#include <string>

typedef double realtype;
typedef long sunindextype;
typedef int booleantype;
#define SUNTRUE 1
#define SUNFALSE 0
#define CV_BDF 2
#define CV_ADAMS 1
#define CV_NORMAL 1
#define CV_ONE_STEP 2
#define CV_SUCCESS 0
#define CSR_MAT 1
#define CSC_MAT 0
#define RCONST(x) x
#define SUNRabs(x) fabs(x)
#define SUNRsqrt(x) sqrt(x)
#define SUNSQR(x) ((x)*(x))

struct _ShimContext { int dummy; };
typedef _ShimContext *SUNContext;

struct _ShimVector { sunindextype n; realtype *data; bool own; };
typedef _ShimVector *N_Vector;

struct _ShimMatrix {
    int kind;  // 0 dense, 1 sparse
    int sptype = CSR_MAT;   // declared layout of a sparse matrix: CSR_MAT or CSC_MAT
    sunindextype M, N, NNZ;
    std::vector<realtype> dense;          // column-major M*N (as SUNDIALS)
    std::vector<realtype> data;           // NNZ
    std::vector<sunindextype> idxvals;    // NNZ
    std::vector<sunindextype> idxptrs;    // M+1
};
typedef _ShimMatrix *SUNMatrix;

struct _ShimLinSol { N_Vector y; SUNMatrix A; };
typedef _ShimLinSol *SUNLinearSolver;

typedef int (*CVRhsFn)(realtype, N_Vector, N_Vector, void *);
typedef int (*CVLsJacFn)(realtype, N_Vector, N_Vector, SUNMatrix, void *, N_Vector, N_Vector, N_Vector);

// ---------------------------------------------------------------- stand-in state
// One entry per CVode call, consumed in order; when exhausted every call succeeds.
struct ShimOutcome { int flag; double frac; };   // flag >= 0: success. flag < 0: fail after frac of the way
struct ShimState {
    std::vector<ShimOutcome> cvode_script;  size_t cv_pos = 0;
    std::vector<int> reinit_script;         size_t ri_pos = 0;   // flags returned by CVodeReInit
    FILE *log = NULL;
    double t_cur = 0.0;      // integrator's internal current time
    bool integer_fail_times = true;
    long n_cvode = 0, n_reinit = 0, n_init = 0, n_free = 0, n_create = 0;
    // object lifecycle (always counted; logged and acted on only when `lifecycle` is set)
    bool lifecycle = false;
    std::set<void *> alive;                        // every stand-in object currently alive
    long live_ctx = 0, live_vec = 0, live_mat = 0, live_ls = 0, live_mem = 0;
    long bad_free = 0;                             // destroy calls on something that is not alive (double free / wild pointer)
    long use_dead = 0;                             // an API call was handed an object that is not alive
};
extern ShimState g_shim;
static inline void _shim_born(void *p, long &ctr) { g_shim.alive.insert(p); ctr++; }
static inline bool _shim_dies(void *p, long &ctr) { if (!p || !g_shim.alive.count(p)) { g_shim.bad_free++; return false; } g_shim.alive.erase(p); ctr--; return true; }
static inline void _shim_use(void *p) { if (!p || !g_shim.alive.count(p)) g_shim.use_dead++; }

// ---------------------------------------------------------------- context
static inline int SUNContext_Create(void *, SUNContext *c) { *c = new _ShimContext(); _shim_born(*c, g_shim.live_ctx); return 0; }
static inline int SUNContext_Free(SUNContext *c) { if (_shim_dies(*c, g_shim.live_ctx)) delete *c; *c = NULL; return 0; }

// ---------------------------------------------------------------- vectors
static inline N_Vector _shim_vec(N_Vector v) { _shim_born(v, g_shim.live_vec); return v; }
static inline N_Vector N_VNewEmpty_Serial(sunindextype n, SUNContext) { return _shim_vec(new _ShimVector{n, NULL, false}); }
static inline N_Vector N_VNew_Serial(sunindextype n, SUNContext) { return _shim_vec(new _ShimVector{n, (realtype *)calloc(n ? n : 1, sizeof(realtype)), true}); }
static inline N_Vector N_VMake_Serial(sunindextype n, realtype *d, SUNContext) { return _shim_vec(new _ShimVector{n, d, false}); }
static inline void N_VDestroy(N_Vector v) { if (!v) return; if (!_shim_dies(v, g_shim.live_vec)) return; if (v->own) free(v->data); delete v; }
static inline void N_VFreeEmpty(N_Vector v) { if (_shim_dies(v, g_shim.live_vec)) delete v; }
static inline realtype *N_VGetArrayPointer(N_Vector v) { return v->data; }
static inline void N_VSetArrayPointer(realtype *d, N_Vector v) { v->data = d; }
static inline void N_VConst(realtype c, N_Vector v) { for (sunindextype i = 0; i < v->n; i++) v->data[i] = c; }
#define NV_Ith_S(v, i) ((v)->data[i])
#define NV_LENGTH_S(v) ((v)->n)

// ---------------------------------------------------------------- matrices
static inline SUNMatrix SUNDenseMatrix(sunindextype M, sunindextype N, SUNContext) {
    SUNMatrix A = new _ShimMatrix(); A->kind = 0; A->M = M; A->N = N; A->NNZ = 0; A->dense.assign((size_t)M * N, 0.0); _shim_born(A, g_shim.live_mat); return A;
}
static inline SUNMatrix SUNSparseMatrix(sunindextype M, sunindextype N, sunindextype NNZ, int type, SUNContext) {
    SUNMatrix A = new _ShimMatrix(); A->kind = 1; A->M = M; A->N = N; A->NNZ = NNZ;
    A->data.assign((size_t)NNZ, 0.0); A->idxvals.assign((size_t)NNZ, 0); A->idxptrs.assign((size_t)(type == CSR_MAT ? M : N) + 1, 0); A->sptype = type; _shim_born(A, g_shim.live_mat); return A;
}
static inline void SUNMatDestroy(SUNMatrix A) { if (_shim_dies(A, g_shim.live_mat)) delete A; }
static inline int SUNMatZero(SUNMatrix A) {
    for (auto &x : A->dense) x = 0.0; for (auto &x : A->data) x = 0.0;
    for (auto &x : A->idxvals) x = 0; for (auto &x : A->idxptrs) x = 0; return 0;
}
// bounds-checked element access: an out-of-range (i, j) aborts loudly
static inline realtype &_shim_elem(SUNMatrix A, long i, long j) {
    if (A->kind != 0 || i < 0 || j < 0 || i >= A->M || j >= A->N) { fprintf(stderr, "SHIM: SM_ELEMENT_D(%ld,%ld) out of range %ldx%ld\n", i, j, (long)A->M, (long)A->N); abort(); }
    return A->dense[(size_t)j * A->M + i];
}
#define SM_ELEMENT_D(A, i, j) (_shim_elem((A), (i), (j)))
static inline sunindextype *SUNSparseMatrix_IndexPointers(SUNMatrix A) { return A->idxptrs.data(); }
static inline sunindextype *SUNSparseMatrix_IndexValues(SUNMatrix A) { return A->idxvals.data(); }
static inline realtype *SUNSparseMatrix_Data(SUNMatrix A) { return A->data.data(); }
static inline sunindextype SUNSparseMatrix_NNZ(SUNMatrix A) { return A->NNZ; }

// ---------------------------------------------------------------- linear solvers
static inline SUNLinearSolver _shim_ls(SUNLinearSolver s) { _shim_use(s->y); _shim_use(s->A); _shim_born(s, g_shim.live_ls); return s; }
static inline SUNLinearSolver SUNLinSol_Dense(N_Vector y, SUNMatrix A, SUNContext) { return _shim_ls(new _ShimLinSol{y, A}); }
static inline SUNLinearSolver SUNLinSol_KLU(N_Vector y, SUNMatrix A, SUNContext) { return _shim_ls(new _ShimLinSol{y, A}); }
static inline int SUNLinSolFree(SUNLinearSolver s) { if (_shim_dies(s, g_shim.live_ls)) delete s; return 0; }
static inline int SUNLinSolSetup(SUNLinearSolver, SUNMatrix) { return 0; }
// dense Gaussian elimination with partial pivoting: solves A x = b
static inline int SUNLinSolSolve(SUNLinearSolver, SUNMatrix A, N_Vector x, N_Vector b, realtype) {
    long n = A->M; std::vector<double> a((size_t)n * n), rhs(n);
    for (long i = 0; i < n; i++) { rhs[i] = b->data[i]; for (long j = 0; j < n; j++) a[i * n + j] = A->dense[(size_t)j * n + i]; }
    for (long c = 0; c < n; c++) {
        long p = c; for (long r = c + 1; r < n; r++) if (fabs(a[r * n + c]) > fabs(a[p * n + c])) p = r;
        if (a[p * n + c] == 0.0) return -1;
        if (p != c) { for (long j = 0; j < n; j++) std::swap(a[p * n + j], a[c * n + j]); std::swap(rhs[p], rhs[c]); }
        for (long r = c + 1; r < n; r++) { double f = a[r * n + c] / a[c * n + c]; for (long j = c; j < n; j++) a[r * n + j] -= f * a[c * n + j]; rhs[r] -= f * rhs[c]; }
    }
    for (long i = n - 1; i >= 0; i--) { double s = rhs[i]; for (long j = i + 1; j < n; j++) s -= a[i * n + j] * x->data[j]; x->data[i] = s / a[i * n + i]; }
    return 0;
}

// ---------------------------------------------------------------- scripted CVODE
struct _ShimCVodeMem { N_Vector y = NULL; void *user = NULL; SUNLinearSolver ls = NULL; SUNMatrix A = NULL; CVLsJacFn jac = NULL;
                       double rtol = -1, atol = -1; long mxsteps = -1; };

static inline void *CVodeCreate(int, SUNContext) { g_shim.n_create++; if (g_shim.log) fprintf(g_shim.log, "{\"ev\":\"CVodeCreate\"}\n"); void *m = new _ShimCVodeMem(); _shim_born(m, g_shim.live_mem); return m; }
static inline void CVodeFree(void **m) { g_shim.n_free++; if (g_shim.log) fprintf(g_shim.log, "{\"ev\":\"CVodeFree\"}\n"); if (_shim_dies(*m, g_shim.live_mem)) delete (_ShimCVodeMem *)*m; *m = NULL; }
static inline int CVodeSetErrFile(void *, FILE *) { return 0; }
static inline int CVodeSetMaxNumSteps(void *m, long n) { ((_ShimCVodeMem *)m)->mxsteps = n; return 0; }
static inline int CVodeSStolerances(void *m, realtype rtol, realtype atol) { ((_ShimCVodeMem *)m)->rtol = rtol; ((_ShimCVodeMem *)m)->atol = atol; return 0; }
static inline int CVodeSetLinearSolver(void *m, SUNLinearSolver ls, SUNMatrix A) { _shim_use(ls); _shim_use(A); ((_ShimCVodeMem *)m)->ls = ls; ((_ShimCVodeMem *)m)->A = A; return 0; }
static inline int CVodeSetJacFn(void *m, CVLsJacFn f) { ((_ShimCVodeMem *)m)->jac = f; return 0; }
static inline int CVodeSetUserData(void *m, void *u) { ((_ShimCVodeMem *)m)->user = u; return 0; }
static inline int CVodeGetNumSteps(void *, long *n) { *n = 0; return 0; }
static inline int CVodeGetNumRhsEvals(void *, long *n) { *n = 0; return 0; }
static inline int CVodeGetNumLinSolvSetups(void *, long *n) { *n = 0; return 0; }
static inline int CVodeGetNumErrTestFails(void *, long *n) { *n = 0; return 0; }
static inline int CVodeGetNumNonlinSolvIters(void *, long *n) { *n = 0; return 0; }
static inline int CVodeGetNumNonlinSolvConvFails(void *, long *n) { *n = 0; return 0; }
static inline int CVodeGetNumJacEvals(void *, long *n) { *n = 0; return 0; }
static inline int CVodeGetNumGEvals(void *, long *n) { *n = 0; return 0; }
static inline int CVodeGetCurrentTime(void *, realtype *t) { *t = g_shim.t_cur; return 0; }

static inline int CVodeInit(void *m, CVRhsFn, realtype t0, N_Vector y) {
    g_shim.n_init++; g_shim.t_cur = t0; ((_ShimCVodeMem *)m)->y = y;
    if (g_shim.log) fprintf(g_shim.log, "{\"ev\":\"CVodeInit\",\"t0\":%.17g,\"y0\":%.17g}\n", t0, y->data[0]);
    return 0;
}
static inline int CVodeReInit(void *m, realtype t0, N_Vector y) {
    g_shim.n_reinit++;
    int flag = 0;
    if (g_shim.ri_pos < g_shim.reinit_script.size()) flag = g_shim.reinit_script[g_shim.ri_pos++];
    if (flag >= 0) { g_shim.t_cur = t0; ((_ShimCVodeMem *)m)->y = y; }
    if (g_shim.log) fprintf(g_shim.log, "{\"ev\":\"CVodeReInit\",\"t0\":%.17g,\"y0\":%.17g,\"flag\":%d}\n", t0, y->data[0], flag);
    return flag;
}
static inline int CVode(void *m, realtype tout, N_Vector yout, realtype *tret, int) {
    g_shim.n_cvode++;
    if (g_shim.lifecycle && g_shim.log) {
        // what the integrator was configured with, and the Jacobian AS THE LINEAR SOLVER READS IT: the user's Jacobian routine is
        // called once and the matrix is decoded according to the layout it was DECLARED with when it was created
        _ShimCVodeMem *mm = (_ShimCVodeMem *)m;
        _shim_use(mm->ls); _shim_use(mm->A); _shim_use(yout);
        bool ok = mm->ls && mm->A && g_shim.alive.count(mm->ls) && g_shim.alive.count(mm->A);
        fprintf(g_shim.log, "{\"ev\":\"Configured\",\"rtol\":%.17g,\"atol\":%.17g,\"mxsteps\":%ld,\"ls_matrix_is_attached\":%s",
                mm->rtol, mm->atol, mm->mxsteps, (ok && mm->ls->A == mm->A) ? "true" : "false");
        if (ok && mm->jac) {
            SUNMatrix A = mm->A;
            mm->jac(g_shim.t_cur, yout, NULL, A, mm->user, NULL, NULL, NULL);
            fprintf(g_shim.log, ",\"fmt\":\"%s\",\"rows\":%ld,\"cols\":%ld,\"nnz\":%ld,\"seen\":[",
                    A->kind == 0 ? "dense" : (A->sptype == CSR_MAT ? "CSR" : "CSC"), (long)A->M, (long)A->N, (long)A->NNZ);
            bool first = true;
            if (A->kind == 0) {
                for (long i = 0; i < A->M; i++) for (long j = 0; j < A->N; j++) if (A->dense[(size_t)j * A->M + i] != 0.0) {
                    fprintf(g_shim.log, "%s[%ld,%ld,%.17g]", first ? "" : ",", i, j, A->dense[(size_t)j * A->M + i]); first = false; }
            } else {
                long np = (long)A->idxptrs.size() - 1;
                for (long a = 0; a < np; a++) for (long q = A->idxptrs[a]; q < A->idxptrs[a + 1] && q < A->NNZ; q++) {
                    long r = A->sptype == CSR_MAT ? a : A->idxvals[q], c = A->sptype == CSR_MAT ? A->idxvals[q] : a;
                    fprintf(g_shim.log, "%s[%ld,%ld,%.17g]", first ? "" : ",", r, c, A->data[q]); first = false; }
            }
            fprintf(g_shim.log, "]");
        }
        fprintf(g_shim.log, "}\n");
    }
    ShimOutcome o{0, 0.0};
    bool scripted = false;
    if (g_shim.cv_pos < g_shim.cvode_script.size()) { o = g_shim.cvode_script[g_shim.cv_pos++]; scripted = true; }
    double tstart = g_shim.t_cur, tstop = tout; int flag = o.flag;
    if (flag < 0) {
        double p = tstart + o.frac * (tout - tstart);
        if (g_shim.integer_fail_times) {
            double lo = ceil(tstart), q = floor(p);
            if (q < lo) q = lo;
            if (q > tout - 0.5) { flag = 0; } else p = q;   // no integer point clearly before tout: the call succeeds instead
        }
        if (flag < 0) tstop = p;
    }
    if (!(tout > tstart)) { /* CVODE: tout too close to / behind t0 */ if (flag >= 0) { flag = -27; tstop = tstart; } }
    double adv = tstop - tstart;
    for (sunindextype i = 0; i < yout->n; i++) yout->data[i] += adv;
    g_shim.t_cur = tstop; *tret = tstop;
    if (g_shim.log) fprintf(g_shim.log, "{\"ev\":\"CVode\",\"tstart\":%.17g,\"tout\":%.17g,\"flag\":%d,\"tret\":%.17g,\"y\":%.17g,\"scripted\":%s}\n",
                            tstart, tout, flag, tstop, yout->data[0], scripted ? "true" : "false");
    (void)m; return flag;
}
#endif

// Stand-in for the subset of the SUNDIALS 6 API that naunet's cvode templates use.
// It implements the documented call contracts only: serial vectors over a user array,
// dense and CSR matrices, a small dense LU for SUNLinSolSolve, and a SCRIPTED CVode /
// CVodeReInit whose "solution" is y_i(t) = y_i(t_origin) + (t - t_origin), so that the
// state measures integrated time.  Every API call of interest is logged (see ShimLog).
#ifndef NAUNET_SUNDIALS_SHIM_H
#define NAUNET_SUNDIALS_SHIM_H
#include <stdio.h>
#include <stdlib.h>
#include <string.h>
#include <math.h>
#include <vector>
#include <string>

typedef double realtype;
typedef long sunindextype;
typedef int booleantype;
#define SUNTRUE 1
#define SUNFALSE 0
#define CV_BDF 2
#define CV_ADAMS 1
#define CV_NORMAL 1
#define CV_ONE_STEP 2
#define CV_SUCCESS 0
#define CSR_MAT 1
#define CSC_MAT 0
#define RCONST(x) x
#define SUNRabs(x) fabs(x)
#define SUNRsqrt(x) sqrt(x)
#define SUNSQR(x) ((x)*(x))

struct _ShimContext { int dummy; };
typedef _ShimContext *SUNContext;

struct _ShimVector { sunindextype n; realtype *data; bool own; };
typedef _ShimVector *N_Vector;

struct _ShimMatrix {
    int kind;  // 0 dense, 1 sparse CSR
    sunindextype M, N, NNZ;
    std::vector<realtype> dense;          // column-major M*N (as SUNDIALS)
    std::vector<realtype> data;           // NNZ
    std::vector<sunindextype> idxvals;    // NNZ
    std::vector<sunindextype> idxptrs;    // M+1
};
typedef _ShimMatrix *SUNMatrix;

struct _ShimLinSol { N_Vector y; SUNMatrix A; };
typedef _ShimLinSol *SUNLinearSolver;

typedef int (*CVRhsFn)(realtype, N_Vector, N_Vector, void *);
typedef int (*CVLsJacFn)(realtype, N_Vector, N_Vector, SUNMatrix, void *, N_Vector, N_Vector, N_Vector);

// ---------------------------------------------------------------- context
static inline int SUNContext_Create(void *, SUNContext *c) { *c = new _ShimContext(); return 0; }
static inline int SUNContext_Free(SUNContext *c) { delete *c; *c = NULL; return 0; }

// ---------------------------------------------------------------- vectors
static inline N_Vector N_VNewEmpty_Serial(sunindextype n, SUNContext) { return new _ShimVector{n, NULL, false}; }
static inline N_Vector N_VNew_Serial(sunindextype n, SUNContext) { return new _ShimVector{n, (realtype *)calloc(n ? n : 1, sizeof(realtype)), true}; }
static inline N_Vector N_VMake_Serial(sunindextype n, realtype *d, SUNContext) { return new _ShimVector{n, d, false}; }
static inline void N_VDestroy(N_Vector v) { if (!v) return; if (v->own) free(v->data); delete v; }
static inline void N_VFreeEmpty(N_Vector v) { delete v; }
static inline realtype *N_VGetArrayPointer(N_Vector v) { return v->data; }
static inline void N_VSetArrayPointer(realtype *d, N_Vector v) { v->data = d; }
static inline void N_VConst(realtype c, N_Vector v) { for (sunindextype i = 0; i < v->n; i++) v->data[i] = c; }
#define NV_Ith_S(v, i) ((v)->data[i])
#define NV_LENGTH_S(v) ((v)->n)

// ---------------------------------------------------------------- matrices
static inline SUNMatrix SUNDenseMatrix(sunindextype M, sunindextype N, SUNContext) {
    SUNMatrix A = new _ShimMatrix(); A->kind = 0; A->M = M; A->N = N; A->NNZ = 0; A->dense.assign((size_t)M * N, 0.0); return A;
}
static inline SUNMatrix SUNSparseMatrix(sunindextype M, sunindextype N, sunindextype NNZ, int type, SUNContext) {
    SUNMatrix A = new _ShimMatrix(); A->kind = 1; A->M = M; A->N = N; A->NNZ = NNZ;
    A->data.assign((size_t)NNZ, 0.0); A->idxvals.assign((size_t)NNZ, 0); A->idxptrs.assign((size_t)M + 1, 0); (void)type; return A;
}
static inline void SUNMatDestroy(SUNMatrix A) { delete A; }
static inline int SUNMatZero(SUNMatrix A) {
    for (auto &x : A->dense) x = 0.0; for (auto &x : A->data) x = 0.0;
    for (auto &x : A->idxvals) x = 0; for (auto &x : A->idxptrs) x = 0; return 0;
}
// bounds-checked element access: an out-of-range (i, j) aborts loudly
static inline realtype &_shim_elem(SUNMatrix A, long i, long j) {
    if (A->kind != 0 || i < 0 || j < 0 || i >= A->M || j >= A->N) { fprintf(stderr, "SHIM: SM_ELEMENT_D(%ld,%ld) out of range %ldx%ld\n", i, j, (long)A->M, (long)A->N); abort(); }
    return A->dense[(size_t)j * A->M + i];
}
#define SM_ELEMENT_D(A, i, j) (_shim_elem((A), (i), (j)))
static inline sunindextype *SUNSparseMatrix_IndexPointers(SUNMatrix A) { return A->idxptrs.data(); }
static inline sunindextype *SUNSparseMatrix_IndexValues(SUNMatrix A) { return A->idxvals.data(); }
static inline realtype *SUNSparseMatrix_Data(SUNMatrix A) { return A->data.data(); }
static inline sunindextype SUNSparseMatrix_NNZ(SUNMatrix A) { return A->NNZ; }

// ---------------------------------------------------------------- linear solvers
static inline SUNLinearSolver SUNLinSol_Dense(N_Vector y, SUNMatrix A, SUNContext) { return new _ShimLinSol{y, A}; }
static inline SUNLinearSolver SUNLinSol_KLU(N_Vector y, SUNMatrix A, SUNContext) { return new _ShimLinSol{y, A}; }
static inline int SUNLinSolFree(SUNLinearSolver s) { delete s; return 0; }
static inline int SUNLinSolSetup(SUNLinearSolver, SUNMatrix) { return 0; }
// dense Gaussian elimination with partial pivoting: solves A x = b
static inline int SUNLinSolSolve(SUNLinearSolver, SUNMatrix A, N_Vector x, N_Vector b, realtype) {
    long n = A->M; std::vector<double> a((size_t)n * n), rhs(n);
    for (long i = 0; i < n; i++) { rhs[i] = b->data[i]; for (long j = 0; j < n; j++) a[i * n + j] = A->dense[(size_t)j * n + i]; }
    for (long c = 0; c < n; c++) {
        long p = c; for (long r = c + 1; r < n; r++) if (fabs(a[r * n + c]) > fabs(a[p * n + c])) p = r;
        if (a[p * n + c] == 0.0) return -1;
        if (p != c) { for (long j = 0; j < n; j++) std::swap(a[p * n + j], a[c * n + j]); std::swap(rhs[p], rhs[c]); }
        for (long r = c + 1; r < n; r++) { double f = a[r * n + c] / a[c * n + c]; for (long j = c; j < n; j++) a[r * n + j] -= f * a[c * n + j]; rhs[r] -= f * rhs[c]; }
    }
    for (long i = n - 1; i >= 0; i--) { double s = rhs[i]; for (long j = i + 1; j < n; j++) s -= a[i * n + j] * x->data[j]; x->data[i] = s / a[i * n + i]; }
    return 0;
}

// ---------------------------------------------------------------- scripted CVODE
// One entry per CVode call, consumed in order; when exhausted every call succeeds.
struct ShimOutcome { int flag; double frac; };   // flag >= 0: success. flag < 0: fail after frac of the way
struct ShimState {
    std::vector<ShimOutcome> cvode_script;  size_t cv_pos = 0;
    std::vector<int> reinit_script;         size_t ri_pos = 0;   // flags returned by CVodeReInit
    FILE *log = NULL;
    double t_cur = 0.0;      // integrator's internal current time
    bool integer_fail_times = true;
    long n_cvode = 0, n_reinit = 0, n_init = 0, n_free = 0, n_create = 0;
};
extern ShimState g_shim;

struct _ShimCVodeMem { N_Vector y; void *user; };

static inline void *CVodeCreate(int, SUNContext) { g_shim.n_create++; if (g_shim.log) fprintf(g_shim.log, "{\"ev\":\"CVodeCreate\"}\n"); return new _ShimCVodeMem{NULL, NULL}; }
static inline void CVodeFree(void **m) { g_shim.n_free++; if (g_shim.log) fprintf(g_shim.log, "{\"ev\":\"CVodeFree\"}\n"); delete (_ShimCVodeMem *)*m; *m = NULL; }
static inline int CVodeSetErrFile(void *, FILE *) { return 0; }
static inline int CVodeSetMaxNumSteps(void *, long) { return 0; }
static inline int CVodeSStolerances(void *, realtype, realtype) { return 0; }
static inline int CVodeSetLinearSolver(void *, SUNLinearSolver, SUNMatrix) { return 0; }
static inline int CVodeSetJacFn(void *, CVLsJacFn) { return 0; }
static inline int CVodeSetUserData(void *m, void *u) { ((_ShimCVodeMem *)m)->user = u; return 0; }
static inline int CVodeGetNumSteps(void *, long *n) { *n = 0; return 0; }
static inline int CVodeGetNumRhsEvals(void *, long *n) { *n = 0; return 0; }
static inline int CVodeGetNumLinSolvSetups(void *, long *n) { *n = 0; return 0; }
static inline int CVodeGetNumErrTestFails(void *, long *n) { *n = 0; return 0; }
static inline int CVodeGetNumNonlinSolvIters(void *, long *n) { *n = 0; return 0; }
static inline int CVodeGetNumNonlinSolvConvFails(void *, long *n) { *n = 0; return 0; }
static inline int CVodeGetNumJacEvals(void *, long *n) { *n = 0; return 0; }
static inline int CVodeGetNumGEvals(void *, long *n) { *n = 0; return 0; }
static inline int CVodeGetCurrentTime(void *, realtype *t) { *t = g_shim.t_cur; return 0; }

static inline int CVodeInit(void *m, CVRhsFn, realtype t0, N_Vector y) {
    g_shim.n_init++; g_shim.t_cur = t0; ((_ShimCVodeMem *)m)->y = y;
    if (g_shim.log) fprintf(g_shim.log, "{\"ev\":\"CVodeInit\",\"t0\":%.17g,\"y0\":%.17g}\n", t0, y->data[0]);
    return 0;
}
static inline int CVodeReInit(void *m, realtype t0, N_Vector y) {
    g_shim.n_reinit++;
    int flag = 0;
    if (g_shim.ri_pos < g_shim.reinit_script.size()) flag = g_shim.reinit_script[g_shim.ri_pos++];
    if (flag >= 0) { g_shim.t_cur = t0; ((_ShimCVodeMem *)m)->y = y; }
    if (g_shim.log) fprintf(g_shim.log, "{\"ev\":\"CVodeReInit\",\"t0\":%.17g,\"y0\":%.17g,\"flag\":%d}\n", t0, y->data[0], flag);
    return flag;
}
static inline int CVode(void *m, realtype tout, N_Vector yout, realtype *tret, int) {
    g_shim.n_cvode++;
    ShimOutcome o{0, 0.0};
    bool scripted = false;
    if (g_shim.cv_pos < g_shim.cvode_script.size()) { o = g_shim.cvode_script[g_shim.cv_pos++]; scripted = true; }
    double tstart = g_shim.t_cur, tstop = tout; int flag = o.flag;
    if (flag < 0) {
        double p = tstart + o.frac * (tout - tstart);
        if (g_shim.integer_fail_times) {
            double lo = ceil(tstart), q = floor(p);
            if (q < lo) q = lo;
            if (q > tout - 0.5) { flag = 0; } else p = q;   // no integer point clearly before tout: the call succeeds instead
        }
        if (flag < 0) tstop = p;
    }
    if (!(tout > tstart)) { /* CVODE: tout too close to / behind t0 */ if (flag >= 0) { flag = -27; tstop = tstart; } }
    double adv = tstop - tstart;
    for (sunindextype i = 0; i < yout->n; i++) yout->data[i] += adv;
    g_shim.t_cur = tstop; *tret = tstop;
    if (g_shim.log) fprintf(g_shim.log, "{\"ev\":\"CVode\",\"tstart\":%.17g,\"tout\":%.17g,\"flag\":%d,\"tret\":%.17g,\"y\":%.17g,\"scripted\":%s}\n",
                            tstart, tout, flag, tstop, yout->data[0], scripted ? "true" : "false");
    (void)m; return flag;
}
#endif

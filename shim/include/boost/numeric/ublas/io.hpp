#include "naunet_boost_shim.h"

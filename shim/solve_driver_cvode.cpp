// Drives the generated Naunet::Solve (cvode dense/sparse) against the scripted CVODE stand-in.
// usage: solve_driver_cvode <scripts.txt> <scratchdir>     (ndjson on stdout)
// script line:  tid dt y0 intfail ncv {flag frac}*ncv nri {flag}*nri
#include <stdio.h>
#include <stdlib.h>
#include <string.h>
#include <unistd.h>
#include <string>
#include "naunet.h"
ShimState g_shim;
int main(int argc, char **argv) {
    if (argc < 3) return 2;
    FILE *in = fopen(argv[1], "r"); if (!in) return 2;
    if (chdir(argv[2]) != 0) return 2;
    long tid; double dt, y0; int ncv, intfail;
    while (fscanf(in, "%ld %lf %lf %d %d", &tid, &dt, &y0, &intfail, &ncv) == 5) {
        g_shim = ShimState(); g_shim.integer_fail_times = intfail != 0;
        for (int i = 0; i < ncv; i++) { int f; double fr; if (fscanf(in, "%d %lf", &f, &fr) != 2) return 2; g_shim.cvode_script.push_back({f, fr}); }
        int nri; if (fscanf(in, "%d", &nri) != 1) return 2;
        for (int i = 0; i < nri; i++) { int f; if (fscanf(in, "%d", &f) != 1) return 2; g_shim.reinit_script.push_back(f); }
        remove("naunet_error_record.txt");
        g_shim.log = stdout;
        printf("{\"ev\":\"Begin\",\"tid\":%ld,\"dt\":%.17g,\"y0\":%.17g,\"neq\":%d}\n", tid, dt, y0, (int)NEQUATIONS);
        Naunet n; NaunetData data; memset(&data, 0, sizeof(data));
        double ab[NEQUATIONS]; for (int i = 0; i < NEQUATIONS; i++) ab[i] = y0;
        int fi = n.Init(1, 1e-20, 1e-5, 500);
#ifdef PYMODULE
        int ret = 0; bool raised = false;
        try { py::array_t<realtype> arr(std::vector<ssize_t>{(ssize_t)NEQUATIONS}, ab); n.PyWrapSolve(arr, dt, &data); }
        catch (const std::runtime_error &e) { raised = true; ret = 1; }
#else
        int ret = n.Solve(ab, dt, &data); bool raised = false;
#endif
        n.Finalize();
        // inspect the error record
        bool has_init = false, has_unrec = false; double logged_y0 = 0.0;
        FILE *ef = fopen("naunet_error_record.txt", "r");
        if (ef) { char line[512]; while (fgets(line, sizeof line, ef)) {
            if (strstr(line, "Some unrecoverable error")) has_unrec = true;
            if (!has_init && sscanf(line, "    y[0] = %lf", &logged_y0) == 1) has_init = true; }
            fclose(ef); }
        bool same = true; for (int i = 1; i < NEQUATIONS; i++) if (ab[i] != ab[0]) same = false;
        printf("{\"ev\":\"Return\",\"ret\":%d,\"init\":%d,\"y\":%.17g,\"allsame\":%s,\"logged_init\":%s,\"logged_y0\":%.17g,\"unrec_msg\":%s,\"n_create\":%ld,\"n_free\":%ld,\"raised\":%s}\n",
               ret, fi, ab[0], same ? "true" : "false", has_init ? "true" : "false", logged_y0, has_unrec ? "true" : "false", g_shim.n_create, g_shim.n_free, raised ? "true" : "false");
    }
    return 0;
}

// Linked with an example program (tests/singlegrid.cpp of a generated project): defines the stand-in's state in life-cycle mode
// (objects counted, the Jacobian read by the layout it was declared with) before main() starts.
#include <stdio.h>
#include "naunet.h"
ShimState g_shim;
static struct NvBoot {
    NvBoot() {
        g_shim.lifecycle = true; g_shim.log = stdout;
        printf("{\"ev\":\"Begin\",\"tid\":1,\"neq\":%d,\"nnz\":%d}\n", (int)NEQUATIONS, (int)NNZ);
    }
} nv_boot;

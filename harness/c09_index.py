"""C09 — one index per species: identifiers valid, unique and consistent everywhere (Index.tla).

(A) TLC: alias construction (legal, injective over classes) and the (connectivity, name) order for all small species sets of a
    hazard-rich universe; three seeded design variants must fail.
(B-D) networks over a pool of species with KNOWN attributes (labels, excited marker, several charge states, ice on two grain
    populations, grains, electrons under three spellings) are built (at once and incrementally with intermediate reads),
    rendered; every artefact's identifier table is read back and judged by Trace_Index.tla.
"""
from __future__ import annotations

import ast
import random
import re

import tomlkit

from common import Ctx, MachineryError, finish, import_naunet, quiet, render, require_clean_mc, run_tlc, validate_traces
import creader

#        name: (base, surface, sgroup, charge)      base = the name without prefix/group and charge signs
POOL = {
    "H": ("H", False, 0, 0), "H2": ("H2", False, 0, 0), "H+": ("H", False, 0, 1), "H-": ("H", False, 0, -1), "H2+": ("H2", False, 0, 1),
    "He": ("He", False, 0, 0), "He+": ("He", False, 0, 1), "He++": ("He", False, 0, 2), "C": ("C", False, 0, 0), "C+": ("C", False, 0, 1),
    "C-": ("C", False, 0, -1), "C2": ("C2", False, 0, 0), "C2-": ("C2", False, 0, -1), "C2--": ("C2", False, 0, -2),
    "CO": ("CO", False, 0, 0), "HCO+": ("HCO", False, 0, 1), "O": ("O", False, 0, 0), "OH": ("OH", False, 0, 0), "H2O": ("H2O", False, 0, 0),
    "#CO": ("CO", True, 0, 0), "#2CO": ("CO", True, 2, 0), "#H2O": ("H2O", True, 0, 0), "#1H2O": ("H2O", True, 1, 0), "#H": ("H", True, 0, 0),
    "H2*": ("H2*", False, 0, 0), "c-C3H2": ("c-C3H2", False, 0, 0), "l-C3H": ("l-C3H", False, 0, 0), "C3H": ("C3H", False, 0, 0),
    "oH2": ("oH2", False, 0, 0), "pH2": ("pH2", False, 0, 0), "oH2D+": ("oH2D", False, 0, 1), "D": ("D", False, 0, 0), "HD": ("HD", False, 0, 0),
    "Si++++": ("Si", False, 0, 4), "N2D+": ("N2D", False, 0, 1), "O*": ("O*", False, 0, 0), "C*": ("C*", False, 0, 0),
}
ELECTRON = {"e-": ("e", False, 0, -1), "E": ("E", False, 0, -1), "E-": ("E", False, 0, -1)}
# dust grains of population 0 under both spellings (GRAIN0 / GRAIN): one species each, whichever spelling a file uses
GRAINS = {"GRAIN0": ("GRAIN0", False, 0, 0), "GRAIN": ("GRAIN", False, 0, 0), "GRAIN0-": ("GRAIN0", False, 0, -1), "GRAIN-": ("GRAIN", False, 0, -1)}
# (not part of the pool the random networks draw from: a grain next to ice of another population is refused by the network itself)


# isotopologues (element list extended by 13C, 15N) as gas, as ice of population 0 and as ice of population 1: the name of the ice on
# population 1 starts with the population's digit followed by the isotope's digits
ISO = {"13CO": ("13CO", False, 0, 0), "#13CO": ("13CO", True, 0, 0), "#113CO": ("13CO", True, 1, 0), "15NH3": ("15NH3", False, 0, 0),
       "#15NH3": ("15NH3", True, 0, 0), "#115NH3": ("15NH3", True, 1, 0), "#1CO": ("CO", True, 1, 0)}
ISO_ELEMENTS = ["13C", "15N"]


def key_of(name: str, base: str) -> str:
    """identity of the species apart from its spelling"""
    return "GRAIN" if name in GRAINS else base
# the upper-case naming convention (UCLCHEM style): element list in capitals; the identifier uses the standard symbols.
#        name: (base in standard symbols, surface, sgroup, charge, the name after element replacement)
UPPER_ELEMENTS = ["E", "H", "HE", "C", "N", "O", "NA", "MG", "SI", "S", "CL", "FE", "NI"]
UPPER_PSEUDO = ["CR", "CRP", "PHOTON", "CRPHOT"]
UPPER_REPLACEMENT = {"HE": "He", "NA": "Na", "MG": "Mg", "SI": "Si", "CL": "Cl", "FE": "Fe", "NI": "Ni"}
POOL_UPPER = {
    "H": ("H", False, 0, 0, "H"), "H2": ("H2", False, 0, 0, "H2"), "H+": ("H", False, 0, 1, "H+"), "HE": ("He", False, 0, 0, "He"),
    "HE+": ("He", False, 0, 1, "He+"), "C": ("C", False, 0, 0, "C"), "C+": ("C", False, 0, 1, "C+"), "CO": ("CO", False, 0, 0, "CO"),
    "O": ("O", False, 0, 0, "O"), "N": ("N", False, 0, 0, "N"), "N+": ("N", False, 0, 1, "N+"), "NO": ("NO", False, 0, 0, "NO"),
    "S": ("S", False, 0, 0, "S"), "S+": ("S", False, 0, 1, "S+"), "S++": ("S", False, 0, 2, "S++"), "SI": ("Si", False, 0, 0, "Si"),
    "SI+": ("Si", False, 0, 1, "Si+"), "SIO": ("SiO", False, 0, 0, "SiO"), "SIH4": ("SiH4", False, 0, 0, "SiH4"), "MG": ("Mg", False, 0, 0, "Mg"),
    "MG+": ("Mg", False, 0, 1, "Mg+"), "NA+": ("Na", False, 0, 1, "Na+"), "CL": ("Cl", False, 0, 0, "Cl"), "HCL": ("HCl", False, 0, 0, "HCl"),
    "FE+": ("Fe", False, 0, 1, "Fe+"), "NI": ("Ni", False, 0, 0, "Ni"), "NI+": ("Ni", False, 0, 1, "Ni+"), "#CO": ("CO", True, 0, 0, "#CO"),
    "#SIO": ("SiO", True, 0, 0, "#SiO"), "#HCL": ("HCl", True, 0, 0, "#HCl"), "CS": ("CS", False, 0, 0, "CS"), "SO": ("SO", False, 0, 0, "SO"),
    "E-": ("E", False, 0, -1, "E-"),
}
UPPER_BY_REPLACED = {v[4]: v for v in POOL_UPPER.values()}


def attrs(name, upper=False):
    if upper:
        return (POOL_UPPER.get(name) or UPPER_BY_REPLACED[name])[:4]
    return POOL.get(name) or GRAINS.get(name) or ISO.get(name) or ELECTRON[name]


def gen_upper_case(rng: random.Random):
    """a network in the upper-case convention, with or without the element replacement table of the render route"""
    repl = rng.random() < 0.5
    # without the replacement table the built-in binding energies (keyed by standard spelling) do not cover upper-case ices
    avail = [x for x in sorted(POOL_UPPER) if repl or x not in ("#SIO", "#HCL")]
    names = rng.sample(avail, rng.randint(4, 14))
    reactions = []
    for _ in range(rng.randint(2, 9)):
        r = [rng.choice(names) for _ in range(rng.choice([1, 2, 2, 3]))]
        p = [rng.choice(names) for _ in range(rng.choice([0, 1, 2, 2, 3]))]
        reactions.append((r, p))
    used = {x for r, p in reactions for x in r + p}
    return {"reactions": reactions, "required": [x for x in names if x not in used][: rng.randint(0, 2)], "incremental": rng.random() < 0.5,
            "upper": True, "replacement": repl, "preceded": rng.random() < 0.5, "late_required": rng.random() < 0.5}


def gen_case(rng: random.Random):
    names = rng.sample(sorted(POOL), rng.randint(3, 12))
    espell = [rng.choice(sorted(ELECTRON))] if rng.random() < 0.6 else []
    if espell and rng.random() < 0.4:
        espell.append(rng.choice(sorted(ELECTRON)))
    allnames = names + espell
    reactions = []
    for _ in range(rng.randint(1, 8)):
        r = [rng.choice(allnames) for _ in range(rng.choice([1, 2, 2, 3]))]
        p = [rng.choice(allnames) for _ in range(rng.choice([0, 1, 2, 2, 3]))]
        reactions.append((r, p))
    used = {x for r, p in reactions for x in r + p}
    required = [x for x in names if x not in used][: rng.randint(0, 2)]
    if required and rng.random() < 0.4:
        required = required + [required[0]]                 # a species asked for twice is still one species
    if not espell and rng.random() < 0.3:
        required = required + rng.sample(sorted(ELECTRON), 2)   # ... also under two spellings, and taking part in no reaction
    return {"reactions": reactions, "required": required, "incremental": rng.random() < 0.5, "late_required": rng.random() < 0.5}


def build(case):
    from naunet.network import Network
    from naunet.reactions.reaction import Reaction
    from naunet.reactiontype import ReactionType
    from naunet.species import Species
    mk = lambda r, p: Reaction(list(r), list(p), alpha=1e-10, reaction_type=ReactionType.GAS_TWOBODY)
    Species.reset()
    kw = {}
    if case.get("preceded"):
        # a network in the OTHER naming convention is built and its identifiers are read first, in the same process and with no reset in
        # between (a script that prepares two projects): nothing derived from its element lists may survive into this one
        with quiet():
            _n0 = Network([mk(["H", "H"], ["H2"]), mk(["He+", "e-"], ["He"])], elements=list(Species.default_elements),
                          pseudo_elements=list(Species.default_pseudoelements))
            _ = [(x.alias, x.basename, x.charge) for x in _n0.species], _n0.elements
    if case.get("upper"):
        kw = {"elements": list(UPPER_ELEMENTS), "pseudo_elements": list(UPPER_PSEUDO)}
        Species.set_known_elements(list(UPPER_ELEMENTS))
        Species.set_known_pseudoelements(list(UPPER_PSEUDO))
        if case.get("replacement"):
            Species._replacement = dict(UPPER_REPLACEMENT)      # as `naunet render` installs the [chemistry.element] replacement table
    from naunet import chemistrydata
    chemistrydata.user_binding_energy.clear()
    if case.get("isotopes"):
        # (the built-in binding energies know the main isotopologues only)
        chemistrydata.update_binding_energy({"#13CO": 1150.0, "#113CO": 1150.0, "#15NH3": 5534.0, "#115NH3": 5534.0})
        kw = {"elements": list(Species.default_elements) + ISO_ELEMENTS, "pseudo_elements": list(Species.default_pseudoelements)}
        Species.set_known_elements(list(kw["elements"]))
        Species.set_known_pseudoelements(list(kw["pseudo_elements"]))
    if not case["incremental"]:
        return Network([mk(r, p) for r, p in case["reactions"]], required_species=case["required"], **kw)
    late = bool(case.get("late_required"))
    net = Network(**kw) if late else Network(required_species=case["required"], **kw)
    for k, (r, p) in enumerate(case["reactions"]):
        net.add_reaction(mk(r, p))
        if k % 2 == 0:
            _ = [s.name for s in net.species], net.elements     # intermediate reads, as a notebook user would do
    if late:
        # the required species are declared AFTER the reactions were added and the species were read (a notebook user who finds out
        # that a cooling process needs one more species): the network is the one the constructor would have made
        _ = [s.name for s in net.species], net.elements
        net.required_species = list(case["required"])
    return net


def chars(s):
    return list(s)


def make_trace(ctx, tid, case, net, k):
    from naunet.species import Species
    from naunet.configuration import NetworkConfiguration
    from naunet.patches import patch_factory
    # classes of the species that occur, by the real equality; first occurrence is the representative
    names = []
    for r, p in case["reactions"]:
        names += r + p
    names += case["required"]
    reps = []
    objs = {}
    for n in names:
        s = objs.setdefault(n, Species(n))
        if not any(s == q for q in reps):
            reps.append(s)
    # which spelling the NETWORK kept for each class decides the name used for ordering and the alias
    kept = {id(c): next((s for s in net.species if s == c), None) for c in reps}
    conn = {id(c): set() for c in reps}
    cls = lambda s: next(c for c in reps if c == s)
    for r, p in case["reactions"]:
        members = {id(cls(objs[x])) for x in r + p}
        for x in r + p:
            conn[id(cls(objs[x]))] |= members
    allnames = sorted(kept[id(c)].name if kept[id(c)] is not None else c.name for c in reps)
    species = []
    for c in reps:
        nm = kept[id(c)].name if kept[id(c)] is not None else c.name
        base, surf, grp, q = attrs(nm, case.get("upper", False))
        species.append({"name": nm, "rank": allnames.index(nm) + 1, "degree": len(conn[id(c)]), "base": chars(base), "key": chars(key_of(nm, base)),
                        "surface": surf, "sgroup": grp, "charge": q})
    rank_of = {s["name"]: s["rank"] for s in species}
    ev = [{"act": "Sort", "ranks": [rank_of.get(s.name, -1) for s in net.species]}]
    out = ctx.scratch / "r" / str(k)
    render(net, "cvode", "dense", out, templates=["include/naunet_macros.h.j2", "python/pynaunet_model/constant_indexes.py.j2",
                                                  "python/pynaunet_model/constants.py.j2"])
    text = creader.strip_comments((out / "include/naunet_macros.h").read_text())
    idx = [(m.group(1), int(m.group(2))) for m in re.finditer(r"^[ \t]*#define[ \t]+IDX_(\S+)[ \t]+(\d+)[ \t]*$", text, re.M)]
    raw = [(m.group(1), m.group(2)) for m in re.finditer(r"^[ \t]*#define[ \t]+IDX_(\S+)[ \t]+(\S+)", text, re.M)]
    sp = [(a, n) for a, n in idx if not a.startswith("ELEM_")]
    el = [(a[5:], n) for a, n in idx if a.startswith("ELEM_")]
    odd = [a for a, v in raw if not re.fullmatch(r"\d+", v) and a != "TGAS"]
    nspec = int(re.search(r"#define NSPECIES (\d+)", text).group(1))
    nelem = int(re.search(r"#define NELEMENTS (\d+)", text).group(1))
    if odd:
        sp += [(a, -1) for a in odd]
    ev.append({"act": "EmitView", "kind": "macros", "ids": [chars(a) for a, _ in sp], "slots": [n for _, n in sp], "n": nspec,
               "has_elems": True, "elem_ids": [chars(a) for a, _ in el], "elem_slots": [n for _, n in el], "nelem": nelem})
    # python index constants
    pyi = (out / "python/pynaunet_model/constant_indexes.py").read_text()
    try:
        tree = ast.parse(pyi)
        assigns = [(t.targets[0].id, t.value.value) for t in tree.body if isinstance(t, ast.Assign) and isinstance(t.targets[0], ast.Name)
                   and isinstance(t.value, ast.Constant)]
        sp2 = [(a[4:], n) for a, n in assigns if a.startswith("IDX_") and not a.startswith("IDX_ELEM_")]
        el2 = [(a[9:], n) for a, n in assigns if a.startswith("IDX_ELEM_")]
    except SyntaxError:
        # not a Python module: present the raw left-hand sides so that the identifier check names the problem
        lines = [ln.split("=") for ln in pyi.splitlines() if ln.startswith("IDX_") and "=" in ln]
        sp2 = [(a.strip()[4:], int(b)) for a, b in lines if not a.startswith("IDX_ELEM_")]
        el2 = [(a.strip()[9:], int(b)) for a, b in lines if a.startswith("IDX_ELEM_")]
    pyc = {}
    exec((out / "python/pynaunet_model/constants.py").read_text(), pyc)
    ev.append({"act": "EmitView", "kind": "pyindex", "ids": [chars(a) for a, _ in sp2], "slots": [n for _, n in sp2], "n": pyc["NSPEC"],
               "has_elems": True, "elem_ids": [chars(a) for a, _ in el2], "elem_slots": [n for _, n in el2], "nelem": pyc["NELEM"]})
    ev.append({"act": "EmitView", "kind": "pylists", "ids": [chars(a) for a in pyc["ALL_ALIAS"]], "slots": list(range(len(pyc["ALL_ALIAS"]))),
               "n": len(pyc["ALL_SPECIES"]), "has_elems": False})
    # ANOTHER network with other element symbols is created before the summary of this one is written (a script that prepares two
    # projects, exporting the first after building the second): the summary still names this network's species as its other artefacts do
    from naunet.network import Network as _Net
    known = (list(Species.known_elements()), list(Species.known_pseudoelements()))
    try:
        with quiet():
            _Net(**({"elements": list(Species.default_elements), "pseudo_elements": list(Species.default_pseudoelements)} if case.get("upper") else
                   {"elements": list(UPPER_ELEMENTS), "pseudo_elements": list(UPPER_PSEUDO)}))
        conf = tomlkit.loads(NetworkConfiguration("p", net).content)["summary"]
    finally:
        Species.set_known_elements(known[0])
        Species.set_known_pseudoelements(known[1])
    ev.append({"act": "EmitView", "kind": "summary", "ids": [chars(a) for a in conf["list_of_species_alias"]],
               "slots": list(range(len(conf["list_of_species_alias"]))), "n": int(conf["num_of_species"]), "has_elems": False})
    pout = ctx.scratch / "p" / str(k)
    with quiet():
        patch_factory("enzo", "cpu", None).render(net, templates=["naunet_enzo.h.j2"], path=pout)
    et = creader.strip_comments((pout / "naunet_enzo.h").read_text())
    m = re.search(r"A_Table\[NSPECIES\]\s*=\s*\{(.*?)\}", et, re.S)
    tab = [x.strip()[2:] for x in m.group(1).split(",") if x.strip()]
    ev.append({"act": "EmitView", "kind": "enzo", "ids": [chars(a) for a in tab], "slots": list(range(len(tab))), "n": len(tab), "has_elems": False})
    # the patch for the twin network in which the electron is spelled "e-" (the spelling Enzo itself predefines)
    spelled = {x for r, p in case["reactions"] for x in r + p if x in ELECTRON} | {x for x in case["required"] if x in ELECTRON}
    if spelled and spelled != {"e-"} and not case.get("upper"):
        def patch_facts(n2, where):
            with quiet():
                patch_factory("enzo", "cpu", None).render(n2, templates=["naunet_enzo.h.j2", "typedefs.h.j2"], path=where)
            h = creader.strip_comments((where / "naunet_enzo.h").read_text())
            m2 = re.search(r"#define\s+ENZO_NSPECIES\s+(\S+)", h)
            return (m2.group(1) if m2 else "?"), creader.strip_comments((where / "typedefs.h").read_text())
        respell = lambda lst: ["e-" if x in ELECTRON else x for x in lst]
        twin_case = dict(case, reactions=[(respell(r), respell(p)) for r, p in case["reactions"]], required=respell(case["required"]))
        a_cnt, a_txt = patch_facts(net, ctx.scratch / "p" / f"{k}_own")
        b_cnt, b_txt = patch_facts(build(twin_case), ctx.scratch / "p" / f"{k}_twin")
        ev.append({"act": "PatchTwin", "same_count": a_cnt == b_cnt, "same_fields": a_txt == b_txt, "counts": [a_cnt, b_cnt], "spellings": sorted(spelled)})
    return {"tid": tid, "species": species, "ev": ev, "case": case}


# the host code's species list and the cooling library's sub-list (the first twelve), as the patch templates assume them
HOST_SPECIES = ["e-", "H", "H+", "He", "He+", "He++", "H-", "H2", "H2+", "D", "D+", "HD", "C", "C+", "O", "O+", "Si", "Si+", "Si++", "CH", "CH2", "CH3+", "C2",
                "CO", "HCO+", "OH", "H2O", "O2"]
FOREIGN_SPECIES = ["N", "NH", "NH3", "CS", "H3+", "O-", "N2", "HCN", "CH4", "S", "SO", "C-"]


def patch_species(ctx: Ctx, rng: random.Random, cov: dict):
    """PatchSpecies.tla: which network species get a new field type in the simulation-code patch, and the species count"""
    from naunet.network import Network
    from naunet.patches import patch_factory
    from naunet.reactions.reaction import Reaction
    from naunet.reactiontype import ReactionType
    from naunet.species import Species
    r = run_tlc("MC_PatchSpecies.tla", "MC_PatchSpecies.cfg", ctx.sub("meta") / "ps", workers=4)
    require_clean_mc(r, "MC_PatchSpecies")
    if r["error"]:
        ctx.violation(f"C09|Design|Patch|{','.join(r['violated'])}", "TLC counterexample in PatchSpecies", {"tlc": r["out"][-3000:]})
    c = ctx.scratch / "ps_v.cfg"
    c.write_text(open("/verif/spec/MC_PatchSpecies.cfg").read().replace('"asis"', '"by_name"'))
    if "NoFieldForPredefinedClass" not in run_tlc("MC_PatchSpecies.tla", str(c), ctx.sub("meta") / "ps_v", workers=2)["violated"]:
        raise MachineryError("design variant by_name of PatchSpecies not caught")
    cls = {n: (i + 1, 0) for i, n in enumerate(HOST_SPECIES)}
    cls.update({"E": (1, 1), "E-": (1, 2)})
    cls.update({n: (29 + i, 0) for i, n in enumerate(FOREIGN_SPECIES)})
    traces = []
    for k in range(12 if ctx.quick else 200):
        Species.reset()
        names = rng.sample(HOST_SPECIES[1:], rng.randint(2, 6)) + rng.sample(FOREIGN_SPECIES, rng.randint(0, 4))
        if rng.random() < 0.8:
            names.append(rng.choice(["e-", "E", "E-", "E", "E-"]))
        rng.shuffle(names)
        reacs = [Reaction([a], [b], alpha=1e-10, reaction_type=ReactionType.GAS_TWOBODY) for a, b in zip(names, names[1:] + names[:1])]
        ev = {"ok": True, "fields": [], "numbers": [], "undefined": -1, "nspecies": -1, "err": ""}
        species = []
        try:
            net = Network(reacs)
            species = [{"c": cls[x.name][0], "s": cls[x.name][1]} for x in net.species]
            pos = {x.alias: i + 1 for i, x in enumerate(net.species)}
            d = ctx.scratch / "ps" / str(k)
            with quiet():
                patch_factory("enzo", "cpu", None).render(net, templates=["typedefs.h.j2", "naunet_enzo.h.j2"], path=d)
            td = creader.strip_comments((d / "typedefs.h").read_text())
            new = [(m.group(1), int(m.group(2))) for m in re.finditer(r"\b(\w+?)Density\s*=\s*(\d+)\s*,", td) if int(m.group(2)) >= 104]
            ev["fields"] = [pos.get(a, 0) for a, _ in new]
            ev["numbers"] = [n for _, n in new]
            ev["undefined"] = int(re.search(r"FieldUndefined\s*=\s*(\d+)", td).group(1))
            ev["nspecies"] = int(re.search(r"#define\s+ENZO_NSPECIES\s+(\d+)", creader.strip_comments((d / "naunet_enzo.h").read_text())).group(1))
        except Exception as e:   # noqa
            ev["ok"], ev["err"] = False, f"{type(e).__name__}: {str(e)[:120]}"
        traces.append({"tid": k + 1, "species": species, "ev": [ev], "names": names})
    Species.reset()
    v = validate_traces(ctx, "Trace_PatchSpecies.tla", "Trace_PatchSpecies.cfg", [{k2: t[k2] for k2 in ("tid", "species", "ev")} for t in traces], "patchspecies")
    cov["patch_networks"] = len(traces)
    cov["patch_networks_accepted"] = v["accepted"]
    by = {t["tid"]: t for t in traces}
    for tid, rj in sorted(v["rejected"].items()):
        tr = by[tid]
        clause = (rj["clauses"] or ["NoEnabledAction"])[0]
        ctx.violation(f"C09|Patch:{clause}|electron={'+'.join(sorted(x for x in tr['names'] if x in ('e-', 'E', 'E-'))) or 'none'}",
                      f"simulation-code patch for species {tr['names']}: {tr['ev'][0]} : {rj['clauses']}", {"names": tr["names"], "event": tr["ev"][0], "species": tr["species"]})


def main(ctx: Ctx) -> int:
    import_naunet()
    cov: dict = {"samples": []}
    r = run_tlc("MC_Index.tla", "MC_Index.cfg", ctx.sub("meta") / "mc", workers=16)
    require_clean_mc(r, "MC_Index")
    if r["error"]:
        ctx.violation(f"C09|Design|{','.join(r['violated'])}", "TLC counterexample in Index", {"tlc": r["out"][-4000:]})
    cov["states"], cov["transitions"] = r["distinct"], r["generated"]
    base = open("/verif/spec/MC_Index.cfg").read()
    for v in ("raw_alias", "no_group", "one_M"):
        c = ctx.scratch / f"{v}.cfg"
        c.write_text(base.replace('"asis"', f'"{v}"'))
        rv = run_tlc("MC_Index.tla", str(c), ctx.sub("meta") / v, workers=4)
        if not rv["error"]:
            raise MachineryError(f"design variant {v} not caught")
    cov["design_variants_caught"] = 3
    rng = random.Random(ctx.seed)
    traces = []
    n = 40 if ctx.quick else 600
    allc = [gen_upper_case(rng) if k % 4 == 3 else gen_case(rng) for k in range(n)]
    allc += [dict(c_) for c_ in allc[:8]]        # second pass: the first networks again at the end of the run
    for k, case in enumerate(allc):
        try:
            net = build(case)
            traces.append(make_trace(ctx, len(traces) + 1, case, net, k))
        except Exception as e:   # noqa
            ctx.violation(f"C09|Render|{type(e).__name__}", f"{type(e).__name__}: {e} for {case}", {"case": case})
    # one grain population written under both spellings in one network (files of different origin): still one neutral and one charged grain
    for bcase in ({"reactions": [(["GRAIN0", "e-"], ["GRAIN0-"]), (["C+", "GRAIN-"], ["C", "GRAIN"]), (["H", "H"], ["H2"])], "required": [], "incremental": False},
                  {"reactions": [(["C+", "GRAIN-"], ["C", "GRAIN"]), (["H", "H"], ["H2"])], "required": ["GRAIN0", "GRAIN0-"], "incremental": True}):
        try:
            traces.append(make_trace(ctx, len(traces) + 1, bcase, build(bcase), n + 101 + len(traces)))
        except Exception as e:  # noqa
            ctx.violation(f"C09|Render|{type(e).__name__}|grain spellings", f"{type(e).__name__}: {e}", {"case": bcase})
    # isotopologue ices on two populations
    for icase in ({"reactions": [(["13CO"], ["#13CO"]), (["13CO"], ["#113CO"]), (["CO"], ["#1CO"]), (["CO"], ["#CO"]), (["15NH3"], ["#15NH3"]), (["15NH3"], ["#115NH3"]),
                                 (["#113CO"], ["13CO"]), (["H", "H"], ["H2"])], "required": [], "incremental": False, "isotopes": True},
                  {"reactions": [(["13CO"], ["#113CO"]), (["13CO"], ["#13CO"]), (["#115NH3"], ["15NH3"])], "required": ["#15NH3", "#1CO"], "incremental": True, "isotopes": True}):
        try:
            traces.append(make_trace(ctx, len(traces) + 1, icase, build(icase), n + 201 + len(traces)))
        except Exception as e:  # noqa
            ctx.violation(f"C09|Render|{type(e).__name__}|isotopologue ices", f"{type(e).__name__}: {e}", {"case": icase})
    # two grain populations: the element table (recorded finding when it fails)
    gcase = {"reactions": [(["GRAIN1", "e-"], ["GRAIN1-"]), (["GRAIN2", "e-"], ["GRAIN2-"]), (["H", "H"], ["H2"])], "required": [], "incremental": False}
    POOL.update({"GRAIN1": ("GRAIN1", False, 0, 0), "GRAIN1-": ("GRAIN1", False, 0, -1), "GRAIN2": ("GRAIN2", False, 0, 0), "GRAIN2-": ("GRAIN2", False, 0, -1)})
    try:
        traces.append(make_trace(ctx, len(traces) + 1, gcase, build(gcase), n + 100))
    except Exception as e:  # noqa
        ctx.violation(f"C09|Render|{type(e).__name__}|grains", f"{type(e).__name__}: {e}", {"case": gcase})
    v = validate_traces(ctx, "Trace_Index.tla", "Trace_Index.cfg", [{k2: t[k2] for k2 in ("tid", "species", "ev")} for t in traces], "idx")
    cov["traces_validated_against_impl"] = len(traces)
    cov["traces_accepted"] = v["accepted"]
    cov["trace_states"] = v["states"]
    by = {t["tid"]: t for t in traces}
    for tid, rj in sorted(v["rejected"].items()):
        clause = (rj["clauses"] or ["NoEnabledAction"])[0]
        tr = by[tid]
        at = max(1, min(rj["at"], len(tr["ev"])))
        e = tr["ev"][at - 1]
        feat = f"view={e.get('kind', 'order')}"
        if clause.startswith("Element"):
            feat += ",grain_groups=" + str(len({s["name"] for s in tr["species"] if s["name"].startswith("GRAIN") and s["charge"] == 0}))
        ctx.violation(f"C09|{clause}|{feat}", f"species {[s['name'] for s in tr['species']]} ({'incremental' if tr['case']['incremental'] else 'at once'}): "
                      f"event {e.get('kind', e['act'])} rejected: {rj['clauses']}; ids {[''.join(x) for x in e.get('ids', [])][:12]}",
                      {"case": tr["case"], "species": tr["species"], "event": e, "clauses": rj["clauses"]})
    patch_species(ctx, rng, cov)
    if traces:
        t = traces[0]
        cov["samples"].append({"species": t["species"][:4], "events": [{k2: (e[k2] if k2 != "ids" else ["".join(x) for x in e[k2]]) for k2 in e if k2 in ("act", "kind", "ids", "slots", "ranks")} for e in t["ev"][:3]]})
    cov["rule"] = "networks over a 38-name pool with known attributes, built at once or incrementally with intermediate reads; non-trivial = >= 3 species"
    cov["exhaustive"] = False
    return finish(ctx, "model_checking", cov, [
        "species attributes (base name, phase, group, charge) are the INTENDED ones of the pool, not what the parser reports",
        "the configuration summary is read from NetworkConfiguration (the export path); the render command's summary is C20's subject",
    ])

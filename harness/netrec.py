"""Recorder for naunet.network.Network (layer L1): wraps the public entry points (only when NAUNET_VERIF=1),
logs one event per outermost call at its return (error path too) with the projected abstract state, and turns
the log into traces for Trace_NetworkEdit.tla.  Nothing in /repo is modified: the wrapping is done from here."""
from __future__ import annotations

import functools
import os

from common import import_naunet

_depth = 0
_active: "Recorder | None" = None


class Recorder:
    def __init__(self):
        self.nets: dict[int, dict] = {}      # id(net) -> {"net": net, "ev": [], "objs": {id(obj): desc-key}}
        self.order: list[int] = []
        self.byname: dict[str, object] = {}   # species name -> first Species object seen with that name
        self.queries = False                  # True: every logged state also carries answers of where_species / where_reaction

    # ------------------------------------------------------------------ raw descriptors (names, not ids)
    def rdesc(self, reac, idx=None):
        for s in reac.reactants + reac.products:
            self.byname.setdefault(s.name, s)
        return (tuple(s.name for s in reac.reactants), tuple(s.name for s in reac.products),
                round(reac.temp_min * 10), round(reac.temp_max * 10), int(reac.reaction_type),
                reac.idxfromfile if idx is None else idx,
                # the NAME of the type as the "short" format prints it: each reader class has its own enumeration, so two
                # reactions of one type value may print different names (KIDA_MA / UMIST_NN / GAS_TWOBODY)
                getattr(reac.reaction_type, "name", str(int(reac.reaction_type))))

    def slot(self, net):
        k = id(net)
        if k not in self.nets:
            self.nets[k] = {"net": net, "ev": [], "objs": {}, "keep": []}
            self.order.append(k)
        return self.nets[k]

    def obj_key(self, sl, reac):
        k = id(reac)
        if k not in sl["objs"]:
            sl["objs"][k] = self.rdesc(reac)
            sl["keep"].append(reac)          # keep alive so id() stays unique
        return sl["objs"][k]

    def project(self, sl):
        net = sl["net"]
        src, snk = net.find_source_sink()
        q = self.ask(sl) if self.queries else {}
        return {
            **q,
            "rlist": [self.obj_key(sl, r) for r in net.reaction_list],
            "skipped": [self.obj_key(sl, r) for r in net._skipped_reactions],
            "reactants": list(net._reactants), "products": list(net._products),
            "species": list(net.species), "sources": list(src), "sinks": list(snk),
            "idxs": [r.idxfromfile for r in net.reaction_list],
            "allowed": list(net._allowed_species), "required": list(net._required_species),
        }

    def ask(self, sl):
        """where_species for (a deterministic handful of) the species the network holds plus one it does not, in the three modes;
        where_reaction for the first, middle and last reaction held and one skipped, in the three comparison modes.  Species
        OBJECTS are passed, so no name is parsed on the way."""
        net = sl["net"]
        held = sorted(set(net._reactants) | set(net._products), key=lambda s: s.name)
        step = max(1, len(held) // 5)
        asked = held[::step][:6]
        absent = [s for nm, s in sorted(self.byname.items()) if s not in held][:1]
        ws = []
        for s in asked + absent:
            for m in ("reactant", "product", "all"):
                try:
                    ws.append((s, m, [i + 1 for i in net.where_species(s, m)]))
                except Exception as e:   # noqa
                    ws.append((s, m, [-1]))
        rl = net.reaction_list
        cand = ([rl[0], rl[len(rl) // 2], rl[-1]] if rl else []) + list(net._skipped_reactions[:1])
        wr = []
        for r in cand:
            for m in (None, "minimal", "short"):
                try:
                    wr.append((self.obj_key(sl, r), m or "default", [i + 1 for i in net.where_reaction(r, m)]))
                except Exception as e:   # noqa
                    wr.append((self.obj_key(sl, r), m or "default", [-1]))
        return {"ws": ws, "wr": wr}

    def log(self, net, ev):
        sl = self.slot(net)
        ev["post"] = self.project(sl)
        sl["ev"].append(ev)


def _wrap(cls, name, mk_event, pre=None):
    orig = getattr(cls, name)

    @functools.wraps(orig)
    def w(self, *a, **kw):
        global _depth
        rec = _active
        if rec is None or _depth > 0:
            return orig(self, *a, **kw)
        ctxv = pre(rec, self, *a, **kw) if pre else None
        _depth += 1
        err = ""
        res = None
        try:
            res = orig(self, *a, **kw)
            return res
        except Exception as e:   # noqa
            err = type(e).__name__
            raise
        finally:
            _depth -= 1
            ev = mk_event(rec, self, ctxv, res, *a, **kw)
            if ev is not None:
                ev["err"] = err
                rec.log(self, ev)
    setattr(cls, name, w)


def install():
    """Patch Network once; recording happens only while a Recorder is active (start()/stop())."""
    if os.environ.get("NAUNET_VERIF") != "1":
        return
    import_naunet()
    from naunet.network import Network
    from naunet.reactions.reaction import Reaction
    if getattr(Network, "_nv_patched", False):
        return
    Network._nv_patched = True

    # __init__: an Init event (allowed/required) followed by the inner add events (not nested: depth stays 0)
    orig_init = Network.__init__

    @functools.wraps(orig_init)
    def init(self, *a, **kw):
        rec = _active
        if rec is None or _depth > 0:
            return orig_init(self, *a, **kw)
        sl = rec.slot(self)
        ev = {"act": "Init", "post": None, "err": ""}
        sl["ev"].append(ev)
        try:
            return orig_init(self, *a, **kw)
        finally:
            ev["allowed"] = list(getattr(self, "_allowed_species", []))
            ev["required"] = list(getattr(self, "_required_species", []))
    Network.__init__ = init

    def ev_add(rec, net, pre, res, reaction):
        sl = rec.slot(net)
        if isinstance(reaction, Reaction):
            return {"act": "Add", "i": rec.obj_key(sl, reaction)}
        # (string, format): the object is created inside; it is the new tail element of one of the two lists
        n_r, n_s = pre
        new = net.reaction_list[n_r:] + net._skipped_reactions[n_s:]
        return {"act": "AddAll", "ids": [rec.obj_key(sl, r) for r in new]}

    def pre_counts(rec, net, *a, **kw):
        return (len(net.reaction_list), len(net._skipped_reactions))
    _wrap(Network, "add_reaction", ev_add, pre_counts)

    def ev_addfile(rec, net, pre, res, filename, format):
        sl = rec.slot(net)
        n_r, n_s = pre
        # file order is lost between the two lists; recover it through object creation order (ids are kept alive)
        new = net.reaction_list[n_r:] + net._skipped_reactions[n_s:]
        return {"act": "AddAll", "ids": [rec.obj_key(sl, r) for r in new], "unordered": True}
    _wrap(Network, "add_reaction_from_file", ev_addfile, pre_counts)

    def pre_remove(rec, net, reaction):
        sl = rec.slot(net)
        if isinstance(reaction, int):
            return {"act": "RemoveIdx", "pos": reaction + 1 if reaction >= 0 else len(net.reaction_list) + reaction + 1}
        if isinstance(reaction, list) and all(isinstance(r, int) for r in reaction):
            return {"act": "RemoveIdxList", "poss": [p + 1 for p in reaction]}
        if isinstance(reaction, Reaction):
            return {"act": "RemoveInst", "i": rec.obj_key(sl, reaction)}
        if isinstance(reaction, list):
            return {"act": "RemoveInstList", "ids": [rec.obj_key(sl, r) for r in reaction]}
        return None
    _wrap(Network, "remove_reaction", lambda rec, net, pre, res, reaction: pre, pre_remove)
    _wrap(Network, "reindex", lambda rec, net, pre, res: {"act": "Reindex"})

    def ev_find(rec, net, pre, res, mode=None):
        sl = rec.slot(net)
        if res is None:
            return {"act": "FindDup", "mode": mode or "default", "dupidx": [], "first": []}
        dupes, dupidx, first = res
        return {"act": "FindDup", "mode": mode or "default", "dupidx": [i + 1 for i in dupidx],
                "first": [rec.obj_key(sl, r) for r in first]}
    _wrap(Network, "find_duplicate_reaction", ev_find)

    # property setters
    for pname, act, key, attr in (("allowed_species", "SetAllowed", "allowed", "_allowed_species"),
                                  ("required_species", "SetRequired", "required", "_required_species")):
        prop = getattr(Network, pname)

        def mk(prop=prop, act=act, key=key, attr=attr):
            def setter(self, value):
                global _depth
                rec = _active
                if rec is None or _depth > 0:
                    return prop.fset(self, value)
                _depth += 1
                err = ""
                try:
                    return prop.fset(self, value)
                except Exception as e:  # noqa
                    err = type(e).__name__
                    raise
                finally:
                    _depth -= 1
                    # the event carries what was REQUESTED (the argument), not what the object stored: the specification's step installs the
                    # request, the projected state afterwards says what the object made of it
                    asked = list(getattr(self, attr))
                    if not err:
                        try:
                            from naunet.species import Species as _Sp
                            asked = [v if not isinstance(v, str) else _Sp(v, **getattr(self, "_species_kwargs", {})) for v in value]
                        except Exception:   # noqa
                            asked = list(getattr(self, attr))
                    rec.log(self, {"act": act, key: asked, "err": err})
            return setter
        setattr(Network, pname, property(prop.fget, mk(), prop.fdel, prop.__doc__))


def start() -> Recorder:
    global _active
    install()
    _active = Recorder()
    return _active


def stop():
    global _active
    _active = None


# ---------------------------------------------------------------------------------- log -> trace

def to_traces(rec: Recorder, tid0: int = 1, meta: dict | None = None, merge: bool = False, extra_keys: list | None = None) -> list[dict]:
    """One trace per Network object.  Species -> class ids by real `==` (first representative wins), names ->
    rank in Python string order; reaction descriptors -> ids in order of first appearance.
    merge=True: ONE trace for the whole recording (a command that works on several Network objects in turn): the events of all
    objects in order, each tagged with the ordinal `obj` of its object.  extra_keys: raw descriptors (see Recorder.rdesc) known to
    the caller from outside the recording (e.g. the lines of an input file); their ids are returned as trace["extra_ids"]."""
    out = []
    slots = [rec.nets[k] for k in rec.order]
    if merge:
        m = {"objs": {}, "ev": []}
        for n, sl in enumerate(slots):
            m["objs"].update(sl["objs"])
            m["ev"] += [dict(e, obj=n + 1) for e in sl["ev"]]
        slots = [m]
    for n, sl in enumerate(slots):
        reps: list = []

        def cls(s):
            if isinstance(s, str):
                s = rec.byname[s]
            for i, r in enumerate(reps):
                if r == s:
                    return i + 1
            reps.append(s)
            return len(reps)
        names: set[str] = set()
        for key in list(sl["objs"].values()) + list(extra_keys or []):
            for nm in key[0] + key[1]:
                names.add(nm)
                if nm not in rec.byname:
                    from naunet.species import Species as _Sp0
                    rec.byname[nm] = _Sp0(nm)
        rank = {nm: i + 1 for i, nm in enumerate(sorted(names))}
        rid: dict = {}
        R: list[dict] = []
        tnid: dict = {}

        def rix(key):
            if key not in rid:
                R.append({"r": [cls(s) for s in key[0]], "p": [cls(s) for s in key[1]],
                          "rn": [rank[nm] for nm in key[0]], "pn": [rank[nm] for nm in key[1]],
                          "tmin": key[2], "tmax": key[3], "ty": key[4], "idx": key[5],
                          "tn": tnid.setdefault(key[6] if len(key) > 6 else str(key[4]), len(tnid) + 1),
                          "text": " + ".join(key[0]) + " -> " + " + ".join(key[1])})
                rid[key] = len(R)
            return rid[key]
        evs = []
        for e in sl["ev"]:
            o = {"act": e["act"], "err": e.get("err", "")}
            if "obj" in e:
                o["obj"] = e["obj"]
            for f in ("i",):
                if f in e:
                    o[f] = rix(e[f])
            if "ids" in e:
                o["ids"] = [rix(x) for x in e["ids"]]
            for f in ("pos", "poss", "mode", "dupidx", "ty"):
                if f in e:
                    o[f] = e[f]
            if "first" in e:
                o["first"] = [rix(x) for x in e["first"]]
            for f in ("allowed", "required"):
                if f in e:
                    o[f] = sorted({cls(s) for s in e[f]})
            p = e.get("post")
            if p is None and e["act"] == "Init":
                # the state right after construction arguments were installed and before any reaction: by definition empty
                p = {"rlist": [], "skipped": [], "reactants": [], "products": [], "species": e.get("required", []),
                     "sources": [], "sinks": [], "idxs": [], "allowed": e.get("allowed", []), "required": e.get("required", [])}
            o["post"] = {
                "rlist": [rix(x) for x in p["rlist"]], "skipped": [rix(x) for x in p["skipped"]],
                "reactants": sorted({cls(s) for s in p["reactants"]}), "products": sorted({cls(s) for s in p["products"]}),
                "species": sorted({cls(s) for s in p["species"]}), "sources": sorted({cls(s) for s in p["sources"]}),
                "sinks": sorted({cls(s) for s in p["sinks"]}), "idxs": p["idxs"],
                "allowed": sorted({cls(s) for s in p["allowed"]}), "required": sorted({cls(s) for s in p.get("required", [])}),
            }
            if "ws" in p:
                o["post"]["ws"] = [{"c": cls(sp), "m": m, "a": a} for sp, m, a in p["ws"]]
                o["post"]["wr"] = [{"i": rix(k3), "m": m, "a": a} for k3, m, a in p["wr"]]
            if e.get("unordered"):
                # file order across kept/skipped is not observable from outside: present kept-then-skipped and let the
                # spec's AddAll re-derive both lists (it only needs the order WITHIN each list, which is preserved)
                pass
            evs.append(o)
        extra_ids = [rix(k2) for k2 in (extra_keys or [])]
        class_of = {nm: cls(nm) for nm in sorted(names)} if extra_keys is not None else {}
        # species attributes per class (after all classes are known), for the append phases of `naunet extend`
        S = []
        k = 0
        while k < len(reps):        # cls() may append gas counterparts while we iterate
            sp = reps[k]
            gas = 0
            if sp.is_surface:
                from naunet.species import Species as _Sp
                try:
                    gas = cls(rec.byname.get(sp.gasname) or _Sp(sp.gasname))
                except Exception:   # noqa
                    gas = 0
            S.append({"surface": bool(sp.is_surface), "neutral": (not sp.is_surface) and sp.charge == 0, "gas": gas})
            k += 1
        tr = {"tid": tid0 + n, "R": R, "S": S, "ev": evs, "classes": [r.name for r in reps]}
        if extra_keys is not None:
            tr["extra_ids"] = extra_ids
            tr["name_rank"] = rank
            tr["class_of"] = class_of
        if meta:
            tr.update(meta)
        out.append(tr)
    return out

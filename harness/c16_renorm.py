"""C16 — renormalisation restores the reference elemental abundances (Renorm.tla).

(A) TLC: Coupling + Additive of the coefficient tables, the lemma (element totals become Hn*ref, identity when the ratios match)
    on exact integers by Cramer's rule, and the SetReference/Renorm/perturb state machine (the reference survives).
(B-D) static: the tables emitted into naunet_renorm.cpp (cvode + odeint) are parsed and compared with the specification's tables
    for networks whose species have intended compositions.  dynamic: the generated Renorm is compiled against the SUNDIALS
    stand-in and driven through call sequences; Trace_Renorm.tla judges every step."""
from __future__ import annotations

import json
import math
import random
import re
import subprocess

from common import Ctx, MachineryError, SHIM, compile_cpp, finish, import_naunet, render, require_clean_mc, run_tlc, validate_traces
import cexpr
import creader
import c01_odegen as O

MASS = {"H": 1, "D": 2, "He": 4, "C": 12, "N": 14, "O": 16, "S": 32, "Si": 28, "Cl": 35, "Mg": 24}


def species_mass(name):
    comp, q = O.POOL[name]
    return sum(MASS.get(e, 0) * n for e, n in comp.items())


def gen_network(rng: random.Random):
    names = sorted(n for n in O.POOL if n not in O.NOT_DRAWN)
    for _ in range(100):
        pool = rng.sample(names, rng.randint(5, 12))
        if "H" not in pool:
            pool.append("H")
        if rng.random() < 0.6 and not (set(pool) & O.ELECTRONS):
            pool.append("e-")
        reactions = []
        for _ in range(rng.randint(2, 7)):
            br = O.balanced_reaction(rng, pool)
            if br:
                reactions.append(br)
        if not reactions:
            continue
        used = {x for r, p in reactions for x in r + p}
        elems = {e for n in used for e in O.POOL[n][0]}
        required = [e for e in sorted(elems | {"H"}) if e not in used]      # make every element's atom a species
        return {"reactions": reactions, "required": required}
    raise MachineryError("could not generate a network")


def term_list(tree, arr, want_h):
    """0.0 + n * arr[IDX] / d [/ Hnuclei] + ...   ->  [(subscript, n, d)]"""
    items = tree[1] if tree[0] == "add" else [tree]
    out = []
    for t in items:
        if t[0] == "num":
            if float(t[2]) != 0.0 and not (len(items) == 1):
                raise ValueError(f"unexpected constant {t}")
            if len(items) == 1 and float(t[2]) == 1.0:
                return [("__one__", 1, 1)]
            continue
        if want_h:
            if not (t[0] == "div" and t[2] == ["var", "Hnuclei"]):
                raise ValueError(f"term not divided by Hnuclei: {t}")
            t = t[1]
        if not (t[0] == "div" and t[2][0] == "num" and t[1][0] == "mul" and len(t[1][1]) == 2 and t[1][1][0][0] == "num"
                and t[1][1][1][0] == "idx" and t[1][1][1][1] == arr and t[1][1][1][2][0] == "var"):
            raise ValueError(f"unexpected term shape {t}")
        num, den = float(t[1][1][0][2]) * (-1 if t[1][1][0][1] else 1), float(t[2][2]) * (-1 if t[2][1] else 1)
        if num != int(num) or den != int(den):
            raise ValueError(f"non-integral coefficient {num}/{den}")
        out.append((t[1][1][1][2][1], int(num), int(den)))
    return out


def read_renorm(text, macros, kind):
    text = creader.strip_comments(text)
    pat = r"\bIJth\s*\(\s*A\s*,\s*(\w+)\s*,\s*(\w+)\s*\)\s*=([^;]*);" if kind == "cvode" else r"(?<![\w.])A\s*\(\s*(\w+)\s*,\s*(\w+)\s*\)\s*=([^;]*);"
    M = {}
    for m in re.finditer(pat, text):
        i, j = macros[m.group(1)], macros[m.group(2)]
        M[(i, j)] = [(macros[s], n, d) for s, n, d in term_list(cexpr.canon(cexpr.parse(m.group(3))), "ab", True)]
    F = {}
    for m in re.finditer(r"\bab\s*\[\s*(\w+)\s*\]\s*=\s*ab\s*\[\s*(\w+)\s*\]\s*\*\s*\(([^;]*)\)\s*;", text):
        if m.group(1) != m.group(2):
            raise ValueError("factor statement scales another species")
        inner = m.group(3).strip()
        if inner == "":
            raise ValueError(f"empty renormalisation factor for {m.group(1)}")
        tl = term_list(cexpr.canon(cexpr.parse(inner)), "rptr", False)
        F[macros[m.group(1)]] = [(0, 1, 1)] if tl == [("__one__", 1, 1)] else [(macros[e] + 1, n, d) for e, n, d in tl]
    return M, F


def build_trace_static(ctx, tid, desc, net, k):
    from naunet.species import Species
    tr = {"tid": tid, "ev": [], "desc": desc}
    names = sorted({x for r, p in desc["reactions"] for x in r + p} | set(desc["required"]))
    evs = []
    netrec = None
    for solver, method in (("cvode", "dense"), ("odeint", "rosenbrock4")):
        out = ctx.scratch / "r" / f"{k}_{solver}"
        render(net, solver, method, out, templates=["include/naunet_macros.h.j2", "src/naunet_renorm.cpp.j2"])
        macros = creader.parse_macros((out / "include/naunet_macros.h").read_text())
        elems = sorted((v, kk[9:]) for kk, v in macros.items() if isinstance(kk, str) and kk.startswith("IDX_ELEM_"))
        slot = {n: O.slot_of(n, macros, net.species) for n in names}
        nspec = macros["NSPECIES"]
        byslot = {}
        for n in names:
            byslot.setdefault(slot[n], n)
        if netrec is None:
            enames = [e for _, e in elems]
            comp, As, el = [], [], []
            for s in range(nspec):
                n = byslot[s]
                comp.append([O.POOL[n][0].get(e, 0) if e in MASS else (1 if n.startswith(e) and e == "GRAIN" else 0) for e in enames])
                As.append(species_mass(n))
                el.append(n in O.ELECTRONS)
            netrec = {"comp": comp, "A": [MASS.get(e, 0) for e in enames], "As": As, "electron": el}
        # the listed elements are those whose atom is a species of the network AS IT IS NOW (by the pool's intended compositions)
        atoms_now = {el2 for n in names for el2 in MASS if n in O.POOL and O.POOL[n] == ({el2: 1}, 0)}
        e = {"act": "Tables", "ok": True, "M": [], "F": [], "be": solver, "err": "", "elements_ok": {x for _, x in elems if x in MASS} == atoms_now and
             all(x in MASS for _, x in elems)}
        try:
            M, F = read_renorm((out / "src/naunet_renorm.cpp").read_text(), macros, solver)
            ne = len(elems)
            e["M"] = [[[s + 1, n, d] for s, n, d in M.get((i, j), [])] for i in range(ne) for j in range(ne)]
            e["F"] = [[[x, n, d] for x, n, d in F.get(s, [])] for s in range(nspec)]
        except (ValueError, KeyError, cexpr.ParseError) as ex:
            e["ok"] = False
            e["err"] = str(ex)[:200]
        evs.append(e)
    tr["net"] = netrec
    tr["ev"] = evs
    return tr


def dynamic_traces(ctx, tid0, desc, net, k, rng):
    """both back-ends: the cvode class solves the element system with the stand-in's dense LU, the odeint class with uBLAS-style
    lu_factorize / lu_substitute (pivot vector written only on a swap, as uBLAS does)"""
    a = _dynamic_one(ctx, tid0, desc, net, k, rng, "cvode", "dense", [])
    b = _dynamic_one(ctx, tid0 + len(a), desc, net, k, rng, "odeint", "rosenbrock4", ["-DODEINT"])
    return a + b


def _dynamic_one(ctx, tid0, desc, net, k, rng, solver, method, flags):
    out = ctx.scratch / "dyn" / f"{k}_{solver}"
    render(net, solver, method, out)
    macros = creader.parse_macros((out / "include/naunet_macros.h").read_text())
    exe = ctx.scratch / f"renorm_{k}_{solver}"
    p = compile_cpp(sorted((out / "src").glob("*.cpp")) + [SHIM / "renorm_driver.cpp"], [SHIM / "include", out / "include"], exe, flags)
    if p.returncode != 0:
        ctx.violation("C16|Compile|renorm", "generated project does not compile against the stand-in: " + p.stderr[-800:], {"desc": desc})
        return []
    nel, neq, nsp = macros["NELEMENTS"], macros["NEQUATIONS"], macros["NSPECIES"]
    hidx = macros["IDX_ELEM_H"]
    names = sorted({x for r, pp in desc["reactions"] for x in r + pp} | set(desc["required"]))
    slot = {n: O.slot_of(n, macros, net.species) for n in names}
    eslots = {s for n, s in slot.items() if n in O.ELECTRONS}
    # element totals computed HERE from the abundances and the intended compositions (not by the generated GetElementAbund, which the
    # generated Renorm itself relies on)
    eidx = {m_[len("IDX_ELEM_"):]: v_ for m_, v_ in macros.items() if m_.startswith("IDX_ELEM_")}

    def totals(ab_):
        tot = [0.0] * nel
        for n_, s_ in slot.items():
            for e_, c_ in O.POOL[n_][0].items():
                if e_ in eidx:
                    tot[eidx[e_]] += c_ * ab_[s_]
        return tot
    seqs = [[0, 1, 1, 2, 1, 1], [0, 1, 2, 1, 0, 1, 1], [0, 2, 1, 1, 1]]
    # a TRACE element (reference ratio 3e-9 of hydrogen; judged to 1e-6 relative: the element system spans five orders of magnitude) whose atom alone is off by three per cent while everything else sits on the reference
    # (an element carried only by species made of it alone, so that a small reference ratio does not force other carriers negative)
    trace_el = next((e_ for e_ in ("He", "N", "O", "C") if e_ in eidx and e_ in slot and eidx[e_] != hidx
                     and all(set(O.POOL[n_][0]) <= {e_} for n_ in slot if e_ in O.POOL[n_][0])), None)
    if trace_el is not None:
        seqs = seqs + [[0, 1, 100 + slot[trace_el], 1, 1]]
    lines, metas = [], []
    for q, ops in enumerate(seqs):
        refA = [rng.uniform(1e-5, 1e-3) for _ in range(nel)]
        if q == 3:
            refA[eidx[trace_el]] = 3.0e-9
        refA[hidx] = [1.0, 2.5e4, 0.37][q % 3]     # fractional abundances and number densities: the code divides by the H entry
        if refA[hidx] != 1.0:
            refA = [x * refA[hidx] if i != hidx else x for i, x in enumerate(refA)]
        ab = [rng.uniform(0.1, 5.0) for _ in range(neq)]
        lines.append(" ".join([str(tid0 + q)] + [repr(x) for x in refA] + [repr(x) for x in ab] + [str(len(ops))] + [str(o) for o in ops]))
        metas.append((refA, ab, ops))
    f = ctx.scratch / f"renorm_{k}_{solver}.txt"
    f.write_text("\n".join(lines) + "\n")
    wd = ctx.sub(f"rwd_{k}_{solver}")
    pr = subprocess.run([str(exe), str(f), str(wd)], capture_output=True, text=True, timeout=300)
    if pr.returncode != 0:
        if "runtime error: index" in pr.stderr:
            ctx.violation(f"C16|OutOfBounds|{solver}", f"the generated renormalisation code ({solver}) indexes an array outside its declared size: "
                          + pr.stderr.strip().splitlines()[0][:300], {"desc": desc, "stderr": pr.stderr[-1500:]})
            return []
        raise MachineryError(f"renorm driver failed: {pr.stderr[-500:]}")
    rows: dict = {}
    for line in pr.stdout.splitlines():
        if line.startswith("{"):
            line = re.sub(r"-?\b(?:nan|inf)\b", "null", line)
            e = json.loads(line)
            rows.setdefault(e["tid"], []).append(e)
    traces = []
    for q, (refA, ab0, ops) in enumerate(metas):
        prev = ab0
        evs = []
        nset = 0
        for e in rows[tid0 + q]:
            ab = e["ab"]
            if e["op"] == 0:
                nset += 1
                evs.append({"act": "SetRef", "v": "A" if nset % 2 else "B", "ok": e["ret"] == 0})
            elif e["op"] == 2 or e["op"] >= 100:
                evs.append({"act": "Perturb"})
            else:
                finite = all(x is not None and math.isfinite(x) for x in ab) and e["hn"] is not None
                tot = totals(ab) if finite else []
                rtol = 1e-6 if q == 3 else 1e-9
                ratios_ok = finite and tot[hidx] and all(abs(el / tot[hidx] - r / refA[hidx]) <= rtol * max(abs(r / refA[hidx]), 1e-300)
                                                           for el, r in zip(tot, refA))
                same_e = finite and all(ab[s] == prev[s] for s in eslots)
                unchanged = finite and all(abs(a - b) <= 1e-9 * max(abs(a), abs(b)) for a, b in zip(ab[:nsp], prev[:nsp]))
                evs.append({"act": "Renorm", "finite": bool(finite), "ratios_ok": bool(ratios_ok), "electrons_same": bool(same_e), "unchanged": bool(unchanged),
                            "ret": e["ret"]})
            prev = ab
        traces.append({"tid": tid0 + q, "net": {"comp": [[1]], "A": [1], "As": [1], "electron": [False]}, "ev": evs, "desc": desc, "ops": ops})
    return traces


def main(ctx: Ctx) -> int:
    import_naunet()
    cov: dict = {"samples": []}
    r = run_tlc("MC_Renorm.tla", "MC_Renorm.cfg", ctx.sub("meta") / "mc", workers=4)
    require_clean_mc(r, "MC_Renorm")
    if r["error"]:
        ctx.violation(f"C16|Design|{','.join(r['violated'])}", "TLC counterexample in Renorm", {"tlc": r["out"][-4000:]})
    c = ctx.scratch / "v.cfg"
    c.write_text(open("/verif/spec/MC_Renorm.cfg").read().replace('"asis"', '"inplace_solve"'))
    rv = run_tlc("MC_Renorm.tla", str(c), ctx.sub("meta") / "v", workers=2)
    if not rv["error"]:
        raise MachineryError("design variant inplace_solve not caught")
    cov["design_variants_caught"] = 1
    cov["states"], cov["transitions"] = r["distinct"], r["generated"]
    rng = random.Random(ctx.seed)
    traces = []
    nstat = 25 if ctx.quick else 300
    ndyn = 2 if ctx.quick else 12
    special = [
        # hydrogen is NOT the last element here (the element order follows the species order: least connected first)
        ({"reactions": [(["C", "O"], ["CO"]), (["O", "N"], ["N", "O"]), (["CO", "He+"], ["C+", "O", "He"]), (["O", "C+"], ["C+", "O"]), (["H", "H"], ["H2"])],
          "required": []}, "hydrogen-early"),
        ({"reactions": [(["GRAIN0", "e-"], ["GRAIN0-"]), (["H", "H"], ["H2"])], "required": []}, "grain"),
        ({"reactions": [(["H", "H"], ["H2"]), (["CO", "H"], ["CO", "H"])], "required": []}, "element-without-atom"),
        # an element (N) whose atom is NOT a species, carried by species that also hold elements whose atoms ARE species
        ({"reactions": [(["H", "H"], ["H2"]), (["HCN", "H"], ["CN", "H2"]), (["C", "H"], ["CH"]), (["CN", "H2"], ["HCN", "H"])], "required": []}, "atomless-partial"),
        # deuterium next to hydrogen (hydrogen nuclei are H only: deuterons are counted under their own element)
        ({"reactions": [(["D", "H2"], ["HD", "H"]), (["H", "H"], ["H2"]), (["HD", "H"], ["D", "H2"]), (["C", "H"], ["CH"])], "required": []}, "deuterated"),
        # hydrogen carried by ten species, carbon and oxygen by four each (the element sums run over more than one source line)
        ({"reactions": [(["H", "H"], ["H2"]), (["H2", "H+"], ["H3+"]), (["CH", "H"], ["C", "H2"]), (["OH", "H"], ["O", "H2"]), (["H2O", "H"], ["OH", "H2"]),
                        (["CH2", "H"], ["CH", "H2"]), (["H2+", "H2"], ["H3+", "H"]), (["CH+", "H"], ["C+", "H2"]), (["CO", "H3+"], ["HCO+", "H2"])],
          "required": []}, "many-carriers"),
        # elements whose atomic WEIGHT is far from a whole number (Cl 35.45, Mg 24.305): the mass number of a molecule is the SUM of the
        # mass numbers of its atoms (Cl2 70, MgCl 59), not its rounded weight (71, 60)
        ({"reactions": [(["H", "Cl"], ["HCl"]), (["Cl", "Cl"], ["Cl2"]), (["Mg", "Cl"], ["MgCl"]), (["H", "H"], ["H2"])], "required": []}, "fractional-weights"),
        # required species that bring a NEW element, declared after the network was built and read
        ({"reactions": [(["H", "H"], ["H2"]), (["C", "H"], ["CH"])], "required": ["He", "He+"]}, "late-required"),
    ]
    randoms = [gen_network(rng) for _ in range(nstat)]
    O.POOL.update({"GRAIN0": ({"GRAIN": 1}, 0), "GRAIN0-": ({"GRAIN": 1}, -1), "CN": ({"C": 1, "N": 1}, 0), "HCN": ({"H": 1, "C": 1, "N": 1}, 0),
                   "Cl": ({"Cl": 1}, 0), "Cl2": ({"Cl": 2}, 0), "HCl": ({"H": 1, "Cl": 1}, 0), "Mg": ({"Mg": 1}, 0), "MgCl": ({"Mg": 1, "Cl": 1}, 0)})
    for k in range(nstat + len(special)):
        desc, kind = (randoms[k], "random") if k < nstat else special[k - nstat]
        desc["kind"] = kind
        try:
            net = O.build_network(desc)
            if kind != "grain":      # the intended mass of a grain is not defined by the pool: judged dynamically only
                traces.append(build_trace_static(ctx, len(traces) + 1, desc, net, k))
        except Exception as e:   # noqa
            ctx.violation(f"C16|Render|{type(e).__name__}|{kind}", f"{type(e).__name__}: {e}", {"desc": desc})
            continue
        if k < ndyn or kind in ("grain", "hydrogen-early", "many-carriers", "deuterated", "fractional-weights"):
            try:
                traces += dynamic_traces(ctx, len(traces) + 1, desc, net, k, rng)
            except MachineryError:
                raise
            except Exception as e:   # noqa   (the generator itself refused a network it rendered a moment ago for the static tables)
                ctx.violation(f"C16|Render|{type(e).__name__}|{kind},whole project", f"rendering the whole project raised {type(e).__name__}: {e}", {"desc": desc})
        if (kind == "random" and k % 2 == 1 and desc["required"]) or kind == "late-required":
            # the required species are declared AFTER the network was built and its elements and species were read (a user who finds out
            # that one more species is needed): the emitted tables are those of the network the constructor would have made
            try:
                net3 = O.build_network(dict(desc, required=[]))
                _ = [e.name for e in net3.elements], [x.name for x in net3.species]
                net3.required_species = list(desc["required"])
                traces.append(build_trace_static(ctx, len(traces) + 1, dict(desc, kind="random", note="required species declared after the elements were read"),
                                                 net3, 60000 + k))
                cov["rendered_after_late_required_species"] = cov.get("rendered_after_late_required_species", 0) + 1
            except Exception as e:   # noqa
                ctx.violation(f"C16|Render|{type(e).__name__}|late-required", f"{type(e).__name__}: {e}", {"desc": desc})
        if kind == "random" and k % 2 == 0:
            # a network object, rendered once, then remove_reaction takes an element out of it entirely: the emitted tables must be those
            # of what is left.  (The element's atom must itself react, so that nothing keeps the element alive.)
            comp_of = lambda n: set(O.POOL[n][0]) if n in O.POOL else set()
            reacting = {x for r, p in desc["reactions"] for x in r + p}
            for el in sorted({e for x in reacting for e in comp_of(x)} - {"H"}):
                drop = [i for i, (r, p) in enumerate(desc["reactions"]) if any(el in comp_of(x) for x in r + p)]
                left = [rp for i, rp in enumerate(desc["reactions"]) if i not in drop]
                if el not in reacting or not drop or not left:
                    continue
                req2 = [x for x in desc["required"] if el not in comp_of(x)]
                present = {x for r, p in left for x in r + p} | set(req2)
                if not all(e in present for x in present for e in comp_of(x)):
                    continue         # (an element without its atom is the recorded finding, not this check's subject)
                try:
                    net2 = O.build_network(dict(desc, required=req2))
                    build_trace_static(ctx, 0, dict(desc, required=req2, kind="random"), net2, 40000 + k)      # first rendering (result not judged again)
                    net2.remove_reaction(list(drop))
                    traces.append(build_trace_static(ctx, len(traces) + 1, dict(desc, reactions=left, required=req2, kind="random",
                                                                                 note=f"after remove_reaction took element {el} out"), net2, 50000 + k))
                    cov["rendered_again_after_an_element_was_removed"] = cov.get("rendered_again_after_an_element_was_removed", 0) + 1
                except Exception as e:   # noqa
                    ctx.violation(f"C16|Render|{type(e).__name__}|after-removal", f"{type(e).__name__}: {e}", {"desc": desc})
                break
    for i, t in enumerate(traces):
        t["tid"] = i + 1
    v = validate_traces(ctx, "Trace_Renorm.tla", "Trace_Renorm.cfg", [{k2: t[k2] for k2 in ("tid", "net", "ev")} for t in traces], "renorm")
    cov["traces_validated_against_impl"] = len(traces)
    cov["traces_accepted"] = v["accepted"]
    cov["trace_states"] = v["states"]
    cov["dynamic_call_sequences"] = sum(1 for t in traces if "ops" in t)
    by = {t["tid"]: t for t in traces}
    for tid, rj in sorted(v["rejected"].items()):
        clause = (rj["clauses"] or ["NoEnabledAction"])[0]
        tr = by[tid]
        at = max(1, min(rj["at"], len(tr["ev"])))
        e = tr["ev"][at - 1]
        kind = tr["desc"].get("kind", "random")
        ctx.violation(f"C16|{clause}|network={kind}", f"{kind} network {tr['desc']['reactions'][:4]}: event {e.get('act')} {e.get('be', '')} {e.get('err', '')} "
                      f"{ {k2: e[k2] for k2 in e if k2 in ('finite', 'ratios_ok', 'electrons_same', 'unchanged')} }: {rj['clauses']}",
                      {"desc": tr["desc"], "event": {k2: e[k2] for k2 in e if k2 not in ("M", "F")}, "net": tr["net"], "clauses": rj["clauses"]})
    cov["samples"].append({"reactions": traces[0]["desc"]["reactions"][:3], "net": traces[0]["net"], "F_of_first_species": traces[0]["ev"][0]["F"][:2]})
    cov["rule"] = "random balanced real-species networks with every element's atom present (+ a grain network and a network lacking an atom)"
    cov["exhaustive"] = False
    return finish(ctx, "model_checking", cov, [
        "species compositions and mass numbers are the intended ones of the pool (H 1, D 2, He 4, C 12, N 14, O 16, Mg 24, Si 28, S 32, Cl 35)",
        "the dense solve is the stand-in's LU with partial pivoting; ratios compared to 1e-9 relative",
    ])

"""C11 — grain-surface rate coefficients follow the selected dust model (GrainLaws.tla).

(A) TLC: the (model, type) table is total (a law or a refusal, never undefined) and the model variants only add laws.
(B-D) grain / surface reactions of every type are encoded (Leeds and UCLCHEM formats), read by the real readers, and
rateexpr(grain) of every dust model is parsed strictly and compared by TLC with the law tree built from the reacting species'
own data as the driver knows them independently; refusals must be refusals."""
from __future__ import annotations

import random
import re

from common import Ctx, MachineryError, REPO, finish, import_naunet, require_clean_mc, run_tlc, validate_traces
import cexpr
import encoders
import c05_laws

MASS = {"H": 1, "C": 12, "N": 14, "O": 16, "S": 32}
COMP = {"CO": {"C": 1, "O": 1}, "H": {"H": 1}, "H2": {"H": 2}, "H2O": {"H": 2, "O": 1}, "HCO+": {"H": 1, "C": 1, "O": 1}, "OH-": {"O": 1, "H": 1},
        "O": {"O": 1}, "C+": {"C": 1}, "N2": {"N": 2}, "CH4": {"C": 1, "H": 4}, "e-": {}, "E-": {}}
MODELS = ["base", "hh93", "hh93i", "rr07", "rr07x"]


def mass(name):
    return float(sum(MASS[e] * n for e, n in COMP[name].items()))


def rate12_eb():
    out = {}
    for line in (REPO / "naunet/chemistrydata/rate12_binding_energy.dat").read_text().splitlines():
        if line.strip() and not line.startswith("#"):
            f = line.split()
            out[f[0]] = float(f[1])
    return out


def rec(r, p, code, a=1.0):
    return {"r": r, "p": p, "a": a, "b": 0.0, "c": 0.0, "tmin": 5.0, "tmax": 41000.0, "idx": 1, "code": code}


def main(ctx: Ctx) -> int:
    import_naunet()
    from naunet.network import Network, supported_grain_model
    from naunet.species import Species
    from naunet import chemistrydata
    cov: dict = {"samples": []}
    r = run_tlc("MC_GrainLaws.tla", "MC_GrainLaws.cfg", ctx.sub("meta") / "mc", workers=2)
    require_clean_mc(r, "MC_GrainLaws")
    if r["error"]:
        ctx.violation(f"C11|Design|{','.join(r['violated'])}", "TLC: the (model, type) table is not total / variants remove laws", {"tlc": r["out"][-3000:]})
    cov["states"], cov["transitions"] = max(r["distinct"], 1), max(r["generated"], 1)
    eb12 = rate12_eb()
    rng = random.Random(ctx.seed)
    alphas = [1.0, 2.5, 0.5, 500.0, 0.0] if ctx.quick else [1.0, 2.5, 0.5, 500.0, 0.0, 1234.0, 1e-3]
    d = ctx.sub("in")
    cases = []
    user_eb = {"#CH4": 1300.0, "GCH4": 1300.0}
    user_yield = {"#CO": 0.002, "GCO": 0.002}
    # ---------------- UCLCHEM lines
    for grp in ("", "1"):
        s = "#" + grp
        for gas in ("CO", "H", "H2O", "CH4"):
            for code, ty in (("FREEZE", 200), ("THERM", 201), ("DESCR", 202), ("DEUVCR", 203), ("DESOH2", 210)):
                a = rng.choice(alphas)
                if code == "FREEZE":
                    cases.append(("uclchem", rec([gas], [s + gas], code, a), ty, gas, s + gas, grp, None))
                else:
                    cases.append(("uclchem", rec([s + gas], [gas], code, a), ty, s + gas, s + gas, grp, None))
    for ion in ("HCO+", "OH-"):
        cases.append(("uclchem", rec([ion], ["#CO"], "FREEZE", 1.0), 200, ion, "#CO", "", None))
    cases.append(("uclchem", rec(["E-"], ["NAN"], "FREEZE", 1.0), 200, "E-", None, "", None))
    cases.append(("uclchem", rec(["#CO"], ["#CO"], "DIFF", 1.0), 310, "#CO", "#CO", "", None))
    cases.append(("uclchem", rec(["#CO"], ["CO"], "CHEMDES", 1.0), 204, "#CO", "#CO", "", None))
    # ---------------- Leeds lines
    for gas in ("CO", "H", "H2O", "CH4"):
        for code, ty in ((7, 200), (8, 201), (9, 202), (10, 203)):
            a = rng.choice(alphas)
            if code == 7:
                cases.append(("leeds", rec([gas], ["G" + gas], code, a), ty, gas, "G" + gas, "", None))
            else:
                cases.append(("leeds", rec(["G" + gas], [gas], code, a), ty, "G" + gas, "G" + gas, "", None))
    cases.append(("leeds", rec(["GRAIN0", "e-"], ["GRAIN-"], 20, 1.0), 221, "e-", None, "", None))
    cases.append(("leeds", rec(["C+", "GRAIN-"], ["C", "GRAIN0"], 6, 1.5), 220, "C+", None, "", None))
    # the same two classes with the grain written FIRST / the electron written first, and a heavier ion
    cases.append(("leeds", rec(["GRAIN-", "C+"], ["C", "GRAIN0"], 6, 1.5), 220, "C+", None, "", None))
    cases.append(("leeds", rec(["GRAIN-", "HCO+"], ["CO", "H", "GRAIN0"], 6, 2.5), 220, "HCO+", None, "", None))
    cases.append(("leeds", rec(["e-", "GRAIN0"], ["GRAIN-"], 20, 1.0), 221, "e-", None, "", None))
    for r1, r2 in (("GH", "GH"), ("GH", "GCO"), ("GCO", "GH"), ("GCO", "GO"), ("GH2", "GO"), ("GO", "GH2")):
        for code, ty in ((13, 300), (14, 204)):
            cases.append(("leeds", rec([r1, r2], ["G" + "X"] if False else ["GCO"], code, rng.choice([0.0, 500.0, 1000.0, 2.5])), ty, r1, None, "", (r1, r2)))
    traces = []
    cases = list(cases) + list(cases[:12])        # second pass: the first cases again at the end of the run (same process)
    for ci, (fmt, rc, ty, spname, surfname, grp, two) in enumerate(cases):
        f = d / f"{ci}.txt"
        line = encoders.ENCODERS[fmt](rc)
        f.write_text(line + "\n")
        a_val = c05_laws.printed_value(fmt, "a", rc["a"])
        for model in MODELS:
            Species.reset()
            chemistrydata.user_binding_energy.clear()
            chemistrydata.user_photon_yield.clear()
            chemistrydata.update_binding_energy(dict(user_eb))
            chemistrydata.update_photon_yield(dict(user_yield))
            obs = {"refused": False, "valid": True, "tree": ["none"], "expr": "", "err": "", "eb_ok": True}
            kw = {"surface_prefix": "G"} if fmt == "leeds" else {}
            try:
                net = Network(filelist=str(f), fileformats=fmt)
                reac = net.reaction_list[0]
                gcls = supported_grain_model[model]
                gspec = [s for s in net.species if s.is_grain]
                grain = gcls(species=gspec, group=reac.grain_group or 0) if gspec else gcls(group=reac.grain_group or 0)
                expr = reac.rateexpr(grain)
                obs["expr"] = expr
                try:
                    obs["tree"] = cexpr.canon(cexpr.parse(expr))
                except cexpr.ParseError as e:
                    obs["valid"] = False
                    obs["err"] = str(e)
            except (NotImplementedError, ValueError, RuntimeError, AttributeError, KeyError) as e:
                obs["refused"] = True
                obs["err"] = f"{type(e).__name__}: {str(e)[:80]}"
            # the reacting species' own data, independently
            gasname = spname.lstrip("#G").lstrip("1") if spname[0] in "#G" and spname not in ("GRAIN0",) else spname
            gasname = {"": spname}.get(gasname, gasname)
            ms = repr(mass(gasname)) if gasname in COMP else "0.0"
            surf = surfname or spname
            sgas = surf[1:].lstrip("1") if surf and surf[0] in "#G" else surf
            ebv = user_eb.get(surf, eb12.get(sgas, 0.0)) if surf else 0.0
            alias = ("G" + (grp or "") + sgas + "I") if surf else "none"
            yld_default = 0.1 if model.startswith("rr07") else 0.001
            yld = user_yield.get(surf, yld_default) if surf else yld_default
            chg = "electron" if spname in ("e-", "E-") else ("neutral" if not spname.endswith(("+", "-")) else "ion")
            sym = {"tgas": "Tgas", "tdust": "Tdust" if fmt == "leeds" else "Tgas", "cr": "zeta_cr" if fmt == "leeds" else "zeta", "zism": "zism", "g0": "G0", "av": "Av"}
            tw = {"eb1": "1.0", "m1": "1.0", "eb2": "1.0", "m2": "1.0", "h1": False, "h2": False}
            if two:
                def ebof(n):
                    return repr(float(user_eb.get(n, eb12.get(n[1:], 0.0))))
                tw = {"eb1": ebof(two[0]), "m1": repr(mass(two[0][1:])), "eb2": ebof(two[1]), "m2": repr(mass(two[1][1:])),
                      "h1": two[0] in ("GH", "GH2"), "h2": two[1] in ("GH", "GH2")}
            # the emitted binding-energy constant of the surface species follows the lookup order explicit > user table > RATE12 table
            if surfname and not obs["refused"]:
                try:
                    sp = Species(surf, **kw)
                    obs["eb_ok"] = abs(sp.binding_energy - ebv) < 1e-9
                except Exception:   # noqa
                    obs["eb_ok"] = False
            traces.append({"tid": len(traces) + 1, "model": model, "ty": ty, "a": c05_laws.pair(a_val),
                           "c": {"ms": ms, "eb": "eb_" + alias, "ebv": repr(float(ebv)), "yld": repr(float(yld)), "chg": chg, "g": grp, "s": sym, "two": tw},
                           "obs": obs, "line": line, "fmt": fmt, "fmt_refuses": fmt == "uclchem" and ty in (204, 310), "kind": "law", "ev": [], "table": 0})
            # the same law through the NETWORK's own grain objects, after the network's dust model was switched from another one
            if ci % 3 == 0 and model != "base":
                other = {"hh93": "rr07x", "hh93i": "hh93", "rr07": "hh93", "rr07x": "hh93i"}[model]
                obs2 = {"refused": False, "valid": True, "tree": ["none"], "expr": "", "err": "", "eb_ok": True}
                try:
                    Species.reset()
                    net2 = Network(filelist=str(f), fileformats=fmt, grain_model=other)
                    try:
                        _ = [g.model for g in net2.grains]       # (any code generation reads them)
                    except Exception:   # noqa
                        pass
                    net2.grain_model = model
                    reac2 = net2.reaction_list[0]
                    g2 = {g.group: g for g in net2.grains}.get(reac2.grain_group or 0)
                    if g2 is None:
                        continue       # a one-reaction network without any grain / ice species has no grain object of its own: nothing to compare
                    expr2 = reac2.rateexpr(g2)
                    obs2["expr"] = expr2
                    try:
                        obs2["tree"] = cexpr.canon(cexpr.parse(expr2))
                    except cexpr.ParseError as e:
                        obs2["valid"], obs2["err"] = False, str(e)
                except (NotImplementedError, ValueError, RuntimeError, AttributeError, KeyError) as e:
                    obs2["refused"], obs2["err"] = True, f"{type(e).__name__}: {str(e)[:80]}"
                t2 = dict(traces[-1])
                t2.update({"tid": len(traces) + 1, "obs": obs2, "line": line + f"   [network switched from {other}]"})
                traces.append(t2)
    # binding-energy lookup order on ONE species object across reads and updates (values in K, integers)
    import re as _re
    from common import render as _render
    import creader as _creader

    def emitted_constant(name: str, k_: int) -> int:
        """eb_<alias> as the generated naunet_constants.cpp defines it for a network read NOW (thousandths of a kelvin; -1 = absent)"""
        f2 = d / f"ebnet_{k_}.ucl"
        f2.write_text("\n".join(encoders.uclchem(x) for x in (rec([name[1:]], [name], "FREEZE"), rec([name], [name[1:]], "THERM"))) + "\n")
        out = ctx.scratch / "ebconst" / str(k_)
        try:
            net3 = Network(filelist=str(f2), fileformats="uclchem", grain_model="hh93")
            _render(net3, "cvode", "dense", out, templates=["src/naunet_constants.cpp.j2"])
            m_ = dict(_re.findall(r"\beb_(\w+)\s*=\s*([^;]+);", _creader.strip_comments((out / "src" / "naunet_constants.cpp").read_text())))
            return int(round(float(m_["G" + name[1:] + "I"]) * 1000))
        except Exception:   # noqa
            return -1
    nconst = 0
    # (charged ice species have table entries of their own -- OH- 1260 K, CN- 1510 K, not the neutrals' values -- and an ice cation has none:
    #  its lookup is refused, read as -1, until the user supplies a value)
    for name in ("#CO", "#H2O", "#CH4", "#OH-", "#CN-", "#CO+", "#H2O+"):
        for seq in (["read", ("user", 1300), "read", ("explicit", 855), "read", ("user", 1400), "read"], ["read", "read", ("user", 999), "read", "read"],
                    [("user", 1200), "read", ("user", 1250), "read", ("explicit", 700), "read"],
                    # values with more significant digits than any table entry has, and the constant the generated code gets for them
                    ["emitted", ("user", 1234.567), "read", "emitted", ("user", 5773.25), "emitted", ("user", 98765.432), "read", "emitted"])[: (4 if name[-1] not in "+-" else 3)]:
            Species.reset()
            chemistrydata.user_binding_energy.clear()
            sp = Species(name)
            ev = []
            for op in seq:
                if op == "read":
                    try:
                        ev.append({"op": "read", "value": int(round(sp.binding_energy * 1000))})
                    except Exception:   # noqa
                        ev.append({"op": "read", "value": -1})
                elif op == "emitted":
                    nconst += 1
                    ev.append({"op": "emitted", "value": emitted_constant(name, nconst)})
                elif op[0] == "user":
                    chemistrydata.update_binding_energy({name: float(op[1])})
                    ev.append({"op": "user", "value": int(round(op[1] * 1000))})
                else:
                    sp.binding_energy = float(op[1])
                    ev.append({"op": "explicit", "value": int(round(op[1] * 1000))})
            t0 = dict(traces[0])
            t0.update({"tid": len(traces) + 1, "kind": "eb", "ev": ev, "table": int(round(eb12[name[1:]] * 1000)) if name[1:] in eb12 else -1, "line": f"{name}: {seq}", "obs": dict(traces[0]["obs"], expr="")})
            traces.append(t0)
    cov["emitted_binding_energy_constants_checked"] = nconst
    # two grain populations in one network, each with its own charged and neutral grains and its own ice: the density each population's
    # rates use, as the NETWORK's grain objects define it
    from naunet.reactions.reaction import Reaction
    from naunet.reactiontype import ReactionType as RT
    mkr = lambda r_, p_, ty_: Reaction(list(r_), list(p_), alpha=1.0, reaction_type=ty_)
    for model in ("hh93", "hh93i", "rr07", "rr07x"):
        for pops in ((0, 1), (0, 2), (0, 1, 2)) if model.startswith("hh93") else ((0,),):
            Species.reset()
            reacs = []
            for g_ in pops:
                n0, nm = (f"GRAIN{g_}", f"GRAIN{g_}-") if g_ else ("GRAIN0", "GRAIN-")
                ice = f"#{g_}CO" if g_ else "#CO"
                reacs += [mkr([n0, "e-"], [nm], RT.GRAIN_ECAPTURE if model.startswith("hh93") else RT.GAS_TWOBODY), mkr(["CO"], [ice], RT.GRAIN_FREEZE),
                          mkr([ice], ["CO"], RT.GRAIN_DESORB_THERMAL)]
            obs = {"refused": False, "valid": True, "tree": ["none"], "expr": "", "err": "", "eb_ok": True}
            rows = []
            try:
                net4 = Network(reacs, grain_model=model)
                symbols_of = {(g5.group or 0): set(g5.deriveds) | set(g5.params) for g5 in net4.grains}
                for g4 in net4.grains:
                    # no derived quantity of a population is written with a symbol that belongs to ANOTHER population only
                    own_ = symbols_of[g4.group or 0]
                    foreign = set().union(*[v_ for k_, v_ in symbols_of.items() if k_ != (g4.group or 0)]) - own_
                    leaks = sorted({f"{k4}<-{tok}" for k4, v4 in g4.deriveds.items() for tok in re.findall(r"[A-Za-z_]\w*", str(v4)) if tok in foreign})
                    if leaks and model.startswith("hh93"):
                        rows.append({"group": g4.group or 0, "summands": leaks, "own": [], "each_once": True, "text": f"quantities written with another population's symbols: {leaks}"})
                    key = next((k4 for k4 in g4.deriveds if k4.startswith("gdens")), None)
                    val = str(g4.deriveds.get(key, "")) if key else ""
                    found = re.findall(r"IDX_(\w+)", val)
                    own = sorted(sp.alias for sp in net4.species if sp.is_grain and (sp.grain_group or 0) == (g4.group or 0))
                    if model.startswith("rr07"):
                        # the Roberts et al. models take the grain density as a run-time PARAMETER, with or without grain species in the network
                        is_param = any(k4.startswith("gdens") for k4 in g4.params) and key is None
                        rows.append({"group": g4.group or 0, "summands": [] if is_param else ["<not a parameter>"], "own": [], "each_once": True,
                                     "text": f"parameter: {is_param}; derived: {val!r}"})
                        continue
                    rows.append({"group": g4.group or 0, "summands": sorted(set(found)), "own": own, "each_once": len(found) == len(set(found)), "text": val})
            except (NotImplementedError, ValueError, RuntimeError, AttributeError, KeyError) as e:
                obs["refused"], obs["err"] = True, f"{type(e).__name__}: {str(e)[:80]}"
                rows = [{"group": -1, "summands": [], "own": [], "each_once": True, "text": ""}]
            for row in rows:
                t0 = dict(traces[0])
                t0.update({"tid": len(traces) + 1, "kind": "density", "model": model, "ev": [row], "obs": obs, "fmt": "api", "ty": 0,
                           "line": f"{model}, grain populations {pops}: gdens of population {row['group']} = {row['text']!r}"})
                traces.append(t0)
    cov["grain_density_definitions_checked"] = sum(1 for t in traces if t["kind"] == "density")
    Species.reset()
    chemistrydata.user_binding_energy.clear()
    chemistrydata.user_photon_yield.clear()
    v = validate_traces(ctx, "Trace_GrainLaws.tla", "Trace_GrainLaws.cfg", [{k: t[k] for k in ("tid", "model", "ty", "a", "c", "obs", "fmt_refuses", "kind", "ev", "table")} for t in traces], "grain", chunk=2000)
    cov["traces_validated_against_impl"] = len(traces)
    cov["traces_accepted"] = v["accepted"]
    cov["trace_states"] = v["states"]
    cov["refusals_observed"] = sum(1 for t in traces if t["obs"]["refused"])
    by = {t["tid"]: t for t in traces}
    for tid, rj in sorted(v["rejected"].items()):
        clause = (rj["clauses"] or ["NoEnabledAction"])[0]
        tr = by[tid]
        if tr["kind"] == "density":
            ctx.violation(f"C11|{clause}|model={tr['model']},populations", f"{tr['line']}: own grain species {tr['ev'][0]['own']}: {rj['clauses']}",
                          {"case": tr["line"], "row": tr["ev"][0], "clauses": rj["clauses"]})
            continue
        if tr["kind"] == "eb":
            ctx.violation(f"C11|{clause}|binding-energy lookup", f"binding energy of {tr['line']}: events {tr['ev']} (thousandths of a kelvin; table value "
                          f"{tr['table']}): {rj['clauses']}", {"sequence": tr["line"], "events": tr["ev"], "table": tr["table"], "clauses": rj["clauses"]})
            continue
        ctx.violation(f"C11|{clause}|model={tr['model']},type={tr['ty']},fmt={tr['fmt']},group={tr['c']['g'] or 0}",
                      f"{tr['model']}: line {tr['line']!r} -> {tr['obs']['expr'][:200]!r} {tr['obs']['err']}: {rj['clauses']}",
                      {"line": tr["line"], "model": tr["model"], "type": tr["ty"], "case": tr["c"], "observed": tr["obs"], "clauses": rj["clauses"]})
    cov["samples"].append({"line": traces[6]["line"], "model": traces[6]["model"], "expr": traces[6]["obs"]["expr"][:160]})
    cov["rule"] = "cases = grain/surface reaction types x species (mass, binding energy incl. user override, yield, charge class) x group x five dust models"
    cov["exhaustive"] = False
    return finish(ctx, "model_checking", cov, [
        "the law trees in GrainLaws.tla are my transcription of HH93 (accretion a*pi*r^2*n_g*sqrt(8kT/pi m), desorption nu0*exp(-Eb/T) with "
        "nu0 = sqrt(2 n_s k Eb / pi^2 m), cosmic-ray duty cycle, Draine-Sutin recombination factors, diffusion/tunnelling surface rates) and of "
        "UCLCHEM v1.3's freeze-out / desorption routines (RR07), in the generator's operand order; the papers are not available offline",
        "species data are computed independently: mass number from composition, binding energy from the user table then the RATE12 table",
    ])

"""C08 — species names are decomposed into the right elements, charge and phase (SpeciesName.tla).

(A) TLC: the specification of the parser (strip charge, longest-first match-and-mask, gap counts, bookkeeping) recovers the
    intended composition of every canonical name of <= 2 tokens over hazard-rich symbol lists (S/Si, H/He/e, C/Cl/Ca/CR/CRP,
    N/Na/Ni, M/Mg/m/g, o/O, p/P), x surface prefix x charge; default and upper-case-with-replacement tables.
(B) spec->code: names TLC generated (-simulate initial states) go through the real Species().
(C/D) code->spec: random longer names over the FULL lists, four tables ('#' and 'G' prefixes, replacement), garbage names,
    and every species name of the bundled networks; TLC re-parses each name with the specification and compares all
    attributes, and for canonical names also with the composition the name was built from.
"""
from __future__ import annotations

import csv
import random
import re

from common import Ctx, MachineryError, REPO, finish, import_naunet, require_clean_mc, run_tlc, sim_states, validate_traces


def chars(s):
    return list(s)


def mk_tables():
    import_naunet()
    from naunet.species import Species
    de, dp = list(Species.default_elements), list(Species.default_pseudoelements)
    unesc = [re.sub(r"\\(.)", r"\1", p) for p in dp]
    up_e = ["E", "H", "D", "HE", "C", "N", "O", "F", "NA", "MG", "SI", "P", "S", "CL", "FE"]
    up_p = ["CR", "CRP", "PHOTON", "CRPHOT", "M"]
    repl = {"HE": "He", "NA": "Na", "MG": "Mg", "SI": "Si", "CL": "Cl", "FE": "Fe"}
    mc_de = ["e", "E", "H", "D", "He", "C", "N", "O", "Na", "Mg", "Si", "S", "Cl", "Ca", "Ni"]
    mc_dp = ["CR", "CRP", "X", "M", "p", "o", "m", "c-", "l-", r"\*", "g"]
    mc_ue = ["E", "H", "HE", "C", "O", "S", "SI", "MG", "CL"]
    mc_up = ["CR", "CRP", "M"]
    mc_repl = {"HE": "He", "SI": "Si", "MG": "Mg", "CL": "Cl"}
    T = {
        "default": dict(elems=de, pseudoRaw=dp, grain="GRAIN", surf="#", repl={}),
        "leedsG": dict(elems=de, pseudoRaw=dp, grain="GRAIN", surf="G", repl={}),
        "upper": dict(elems=up_e, pseudoRaw=up_p, grain="GRAIN", surf="#", repl=repl),
        "upperG": dict(elems=up_e, pseudoRaw=up_p, grain="GRAIN", surf="G", repl=repl),
        "mc_default": dict(elems=mc_de, pseudoRaw=mc_dp, grain="GRAIN", surf="#", repl={}),
        "mc_upper": dict(elems=mc_ue, pseudoRaw=mc_up, grain="GRAIN", surf="G", repl=mc_repl),
        # a user configuration with ONE of the two lists empty: nothing but these six symbols is known, labels included
        "elems_only": dict(elems=["e", "H", "C", "N", "O", "S"], pseudoRaw=[], grain="GRAIN", surf="#", repl={}),
        # the default lists after remove_known_elements(["D", "Si"]) and remove_known_pseudoelements(["o"]) -- reached by a SEQUENCE of calls
        # (configure, parse something, remove, parse the name), see observe()
        "default_removed": dict(elems=[x for x in de if x not in ("D", "Si")], pseudoRaw=[x for x in dp if x != "o"], grain="GRAIN", surf="#", repl={},
                                reached_from=dict(elems=de, pseudoRaw=dp, rm_e=["D", "Si"], rm_p=["o"])),
        # the default lists after add_known_elements(["X", "M"]): two symbols of the default PSEUDO list are promoted to elements
        "default_promoted": dict(elems=de + ["X", "M"], pseudoRaw=[x for x in dp if x not in ("X", "M")], grain="GRAIN", surf="#", repl={},
                                 reached_from=dict(elems=de, pseudoRaw=dp, rm_e=[], rm_p=[], add_e=["X", "M"])),
    }
    for t in T.values():
        t["pseudo"] = [re.sub(r"\\(.)", r"\1", p) for p in t["pseudoRaw"]]
    return T


def tla_table(t):
    t = {k2: v2 for k2, v2 in t.items() if k2 != "reached_from"}
    return {"elems": [chars(x) for x in t["elems"]], "pseudo": [chars(x) for x in t["pseudo"]],
            "pseudoRaw": [chars(x) for x in t["pseudoRaw"]], "grain": chars(t["grain"]), "surf": chars(t["surf"]),
            "repl": [[chars(a), chars(b)] for a, b in t["repl"].items()]}


def mass_table():
    out = {}
    base = REPO / "naunet" / "chemistrydata"
    for fn in ("periodictable.csv", "isotopestable.csv"):
        with open(base / fn, newline="") as f:
            rows = [r for r in csv.reader(x for x in f if not x.startswith("#"))]
        head = rows[0]
        si, nn, np_ = head.index("Symbol"), head.index("NumberofNeutrons"), head.index("NumberofProtons")
        for r in rows[1:]:
            try:
                out[r[si]] = out.get(r[si], 0) + int(round(float(r[nn]) + float(r[np_])))
            except (ValueError, IndexError):
                pass
    return out


def observe(t, name: str, toks):
    from naunet.species import Species
    if t.get("reached_from"):
        rf = t["reached_from"]
        Species.set_known_elements(list(rf["elems"]))
        Species.set_known_pseudoelements(list(rf["pseudoRaw"]))
        try:
            Species("H2O", grain_symbol=t["grain"], surface_prefix=t["surf"])      # (something is parsed before the lists shrink)
        except Exception:   # noqa
            pass
        Species.remove_known_elements(list(rf["rm_e"]))
        Species.remove_known_pseudoelements(list(rf["rm_p"]))
        if rf.get("add_e"):
            Species.add_known_elements(list(rf["add_e"]))
    else:
        Species.set_known_elements(list(t["elems"]))
        Species.set_known_pseudoelements(list(t["pseudoRaw"]))
    Species._replacement = dict(t["repl"])
    o = {"ok": True, "counts": [], "surface": False, "sgroup": -1, "grain": False, "ggroup": -1, "charge": 0, "is_atom": False,
         "massnumber": 0, "gas_is_body": True, "err": ""}
    try:
        s = Species(name, grain_symbol=t["grain"], surface_prefix=t["surf"])
        o["counts"] = [[chars(k), v] for k, v in s.element_count.items()]
        o["surface"], o["grain"] = bool(s.is_surface), bool(s.is_grain)
        o["sgroup"] = s.surface_group if s.surface_group is not None else -1
        o["ggroup"] = s.grain_group if s.grain_group is not None else -1
        o["charge"] = s.charge
        o["is_atom"] = bool(s.is_atom)
        o["massnumber"] = int(round(s.massnumber))
        if toks:
            body = "".join(t["repl"].get(tk["sym"], tk["sym"]) + (str(tk["cnt"]) if tk["cnt"] else "") for tk in toks if tk["kind"] != "surf")
            ch = name[len(name.rstrip("+-")):] if not name.rstrip("+-") == "" else ""
            o["gas_is_body"] = (s.gasname == body + ch)
            o["gasname"] = s.gasname
            # the base name (the name without phase prefix, group number and charge signs) is what identifiers are built from
            if not any(tk["kind"] == "grain" for tk in toks):
                o["gas_is_body"] = o["gas_is_body"] and s.basename == body
                o["basename"] = s.basename
    except Exception as e:  # noqa
        o["ok"] = False
        o["err"] = type(e).__name__
    finally:
        Species.reset()
    return o


def random_tokens(rng, t, maxtok):
    toks = []
    if rng.random() < 0.3:
        toks.append({"sym": t["surf"], "cnt": rng.choice([0, 0, 1, 2]), "kind": "surf"})
    if rng.random() < 0.08:      # a grain (never with a surface prefix: grains are not ice species)
        return [{"sym": t["grain"], "cnt": rng.choice([0, 0, 1, 2]), "kind": "grain"}]
    n = rng.randint(1, maxtok)
    body = []
    for k in range(n):
        if t["pseudo"] and rng.random() < 0.2:
            body.append({"sym": rng.choice(t["pseudo"]), "cnt": 0, "kind": "pseudo"})
        else:
            body.append({"sym": rng.choice(t["elems"]), "cnt": rng.choice([0, 0, 2, 3, 10, 12]), "kind": "elem"})
    if not any(b["kind"] == "elem" for b in body):
        body.append({"sym": rng.choice(t["elems"]), "cnt": 0, "kind": "elem"})
    if body[-1]["sym"].endswith("-"):
        body.append({"sym": rng.choice(t["elems"]), "cnt": 0, "kind": "elem"})
    return toks + body


def encode(toks):
    return "".join(tk["sym"] + (str(tk["cnt"]) if tk["cnt"] else "") for tk in toks)


def tla_toks(toks):
    return [{"sym": chars(tk["sym"]), "cnt": tk["cnt"], "kind": tk["kind"]} for tk in toks]


def main(ctx: Ctx) -> int:
    import_naunet()
    T = mk_tables()
    cov: dict = {"samples": []}
    states = trans = 0
    for cfg in ("MC_SpeciesName_default.cfg", "MC_SpeciesName_upper.cfg"):
        c = ctx.scratch / cfg
        txt = (REPO.parent / "verif" / "spec" / cfg).read_text() if False else open(f"/verif/spec/{cfg}").read()
        if ctx.quick:
            txt = txt.replace("MaxTok = 2", "MaxTok = 1")
        c.write_text(txt)
        r = run_tlc("MC_SpeciesName.tla", str(c), ctx.sub("meta") / cfg, workers=16, timeout=2400)
        require_clean_mc(r, cfg)
        if r["error"]:
            ctx.violation(f"C08|Design|{','.join(r['violated'])}|{cfg}", "TLC: the specification of the parser does not recover an intended composition",
                          {"tlc": r["out"][-5000:]})
        states += r["distinct"]; trans += r["generated"]
    if not ctx.quick:    # needs two tokens (an element and the marker): ~25 s
        c = ctx.scratch / "var.cfg"
        c.write_text(open("/verif/spec/MC_SpeciesName_default.cfg").read().replace('"asis"', '"raw_membership"'))
        rv = run_tlc("MC_SpeciesName.tla", str(c), ctx.sub("meta") / "var", workers=16)
        if "RecoversComposition" not in rv["violated"]:
            raise MachineryError("design variant raw_membership not caught")
        cov["design_variants_caught"] = 1
    cov["states"], cov["transitions"] = states, trans

    rng = random.Random(ctx.seed)
    traces = []
    tables_json = {k: tla_table(v) for k, v in T.items()}

    def add(table, name, toks, garbage=False, origin=""):
        o = observe(T[table], name, toks)
        traces.append({"tid": len(traces) + 1, "table": table, "name": chars(name), "toks": tla_toks(toks) if toks else [],
                       "garbage": garbage, "obs": o, "text": name, "origin": origin})

    # (B) names chosen by TLC
    nsim = 150 if ctx.quick else 3000
    for cfg, table in (("MC_SpeciesName_default.cfg", "mc_default"), ("MC_SpeciesName_upper.cfg", "mc_upper")):
        simdir = ctx.sub(f"sim_{table}")
        run_tlc("MC_SpeciesName.tla", cfg, ctx.sub("meta") / f"sim_{table}", workers=1,
                extra=["-simulate", f"file={simdir}/b,num={nsim}", "-depth", "1", "-seed", str(ctx.seed + 31)])
        seen = set()
        for f in sorted(simdir.glob("b_*")):
            st = sim_states(f, {"name", "toks"})[0]
            nm = "".join(st["name"])
            if nm in seen:
                continue
            seen.add(nm)
            toks = [{"sym": "".join(tk["sym"]), "cnt": tk["cnt"], "kind": tk["kind"]} for tk in st["toks"]]
            add(table, nm, toks, origin="tlc")
    cov["tlc_chosen_names"] = len(traces)
    # (C) random longer names over the full lists, charges, garbage
    nrand = 400 if ctx.quick else 8000
    for k in range(nrand):
        table = rng.choice(["default", "default", "leedsG", "upper", "upperG", "elems_only"])
        # (under the six-symbol table half of the names are spelled with the DEFAULT lists: most of them must be refused)
        foreign = table == "elems_only" and rng.random() < 0.5
        toks = random_tokens(rng, T["default" if foreign else table], 4)
        ch = rng.choice(["", "", "+", "-", "++", "--", "+++", "++++"])
        if foreign:      # no intended composition under THIS table: only conformance with the specification's parser is asserted
            add(table, encode(toks) + ch, [], origin="foreign spelling")
            continue
        add(table, encode(toks) + ch, toks, origin="random")
        if k % 6 == 0:
            nm = encode(toks)
            pos = rng.randrange(len(nm) + 1)
            bad = rng.choice(["?", "_", "z", "q", "!", "@", "x", "j"])
            allsyms = T[table]["elems"] + T[table]["pseudo"] + [T[table]["grain"], T[table]["surf"]]
            if not any(bad in s for s in allsyms):
                add(table, nm[:pos] + bad + nm[pos:] + ch, [], garbage=True, origin="garbage")
    # after symbols were REMOVED from the configured lists, names that use them are refused (and the others parse as before)
    for nm in ("HD+", "SiO", "oH2", "D2", "SiH4", "#HDO", "H2O", "CO", "pH2", "HCO+", "Si", "D"):
        add("default_removed", nm, [], origin="after removal")
    # after two pseudo symbols were PROMOTED to elements, they count like any element
    for nm in ("XH2", "X", "X+", "MH", "M", "M+", "#XO", "H2O", "oH2", "MgX2", "CX-"):
        add("default_promoted", nm, [], origin="after promotion")
    # names that begin with digits belonging to no configured symbol (an isotope that is not in the element list, a stray multiplicity)
    for nm in ("13CO", "15NH3", "18OH-", "2H", "3He+", "1GRAIN-", "13C", "12CH4", "17O"):
        add("default", nm, [], origin="leading digits")
    for nm in ("13CO", "2H", "3HE+", "12CH4"):
        add("upper", nm, [], origin="leading digits")
    # species names of bundled networks (free-form)
    names = set()
    for fn in ("rate12.umist", "minimal.kida", "duplicate.kida"):
        for line in (REPO / "tests" / "data" / fn).read_text().splitlines():
            if fn.endswith("umist"):
                names.update(x for x in line.split(":")[2:8] if x)
            else:
                names.update((line[:34] + " " + line[34:90]).split())
    pseudo = set(T["default"]["pseudo"])
    for nm in sorted(names)[: (150 if ctx.quick else 100000)]:
        if nm not in pseudo:
            add("default", nm, [], origin="bundled")
    for t0 in list(traces[:80]):      # second pass: the first names again at the end of the run (same process, other tables used in between)
        add(t0["table"], t0["text"], [{"sym": "".join(tk["sym"]), "cnt": tk["cnt"], "kind": tk["kind"]} for tk in t0["toks"]], garbage=t0["garbage"], origin="again")
    v = validate_traces(ctx, "Trace_SpeciesName.tla", "Trace_SpeciesName.cfg", traces, "names", chunk=1500,
                        extra_top={"tables": tables_json, "mass": [[chars(k), a] for k, a in sorted(mass_table().items())]}, timeout=3000)
    cov["traces_validated_against_impl"] = len(traces)
    cov["traces_accepted"] = v["accepted"]
    cov["trace_states"] = v["states"]
    by = {t["tid"]: t for t in traces}
    for tid, rj in sorted(v["rejected"].items()):
        clause = (rj["clauses"] or ["NoEnabledAction"])[0]
        tr = by[tid]
        special = sorted({c for c in tr["text"] if not c.isalnum() and c not in "+-#"})
        feat = f"table={tr['table']}" + (f",char={''.join(special)}" if special else "")
        ctx.violation(f"C08|{clause}|{feat}", f"Species({tr['text']!r}) under table {tr['table']} ({tr['origin']}): observed {tr['obs']} : {rj['clauses']}",
                      {"name": tr["text"], "table": tr["table"], "toks": tr["toks"], "observed": tr["obs"], "clauses": rj["clauses"]})
    kinds = {}
    for t in traces:
        kinds[t["origin"]] = kinds.get(t["origin"], 0) + 1
    cov["name_kinds"] = kinds
    cov["samples"] += [{"name": t["text"], "table": t["table"], "observed": t["obs"]} for t in traces[:: max(1, len(traces) // 4)][:4]]
    cov["rule"] = ("names = TLC-chosen token sequences (<= 2 tokens) + random sequences (<= 4 tokens, counts none/2/3/10/12, prefixes, charges "
                   "-2..+4) over four symbol tables + names with one foreign character + all species names of the bundled networks; "
                   "non-trivial = more than one token or a prefix or a charge")
    cov["exhaustive"] = False
    return finish(ctx, "model_checking", cov, [
        "pseudo-element patterns are treated as literal strings (the default list only escapes '*')",
        "mass numbers come from the repository's periodic/isotope tables, read independently",
        "'canonical' names are those whose encoding contains no configured symbol across a token boundary; only for them the intended "
        "composition is asserted, for all names conformance with the specification's parser is asserted",
    ])

"""C19 — Solve integrates exactly the requested interval or reports failure.

(A) TLC: Solve.tla / SolveOdeint.tla exhaustively (+ liveness, + seeded design variants must fail)
(B) spec->code: TLC -simulate behaviours of Solve.tla become fault scripts for the REAL generated
    Naunet::Solve (cvode dense + sparse, compiled against the scripted CVODE stand-in); the code must
    take the same control path and return the same value
(C/D) code->spec: random + targeted fault scripts; every API call is logged by the stand-in; the traces
    are validated by Trace_Solve.tla / Trace_SolveOdeint.tla (TLC infers level/step/rem/base/tmp).
"""
from __future__ import annotations

import json
import math
import random
import re
import subprocess
from concurrent.futures import ThreadPoolExecutor
from pathlib import Path

from common import (Ctx, MachineryError, SHIM, compile_cpp, finish, import_naunet, render, require_clean_mc,
                    run_tlc, validate_traces, coverage_zero_actions)

T = 1 << 20
Y0 = 1000.0
REC = [-1, -2, -3, -4]
ALLNEG = [-1, -2, -3, -4, -6, -5, -7, -22, -8, -9, -28]


def build_network():
    import_naunet()
    from naunet.network import Network
    from naunet.reactions.reaction import Reaction
    from naunet.reactiontype import ReactionType
    return Network([
        Reaction(["H", "H"], ["H2"], alpha=1e-10, reaction_type=ReactionType.GAS_TWOBODY),
        Reaction(["H2", "CR"], ["H", "H"], alpha=1.0, reaction_type=ReactionType.GAS_COSMICRAY),
    ])


def build_thermal_network():
    """a network with a cooling process: the gas temperature is one more equation after the species"""
    import_naunet()
    from naunet.network import Network
    from naunet.reactions.reaction import Reaction
    from naunet.reactiontype import ReactionType
    return Network([
        Reaction(["H", "e-"], ["H+", "e-", "e-"], alpha=1e-10, reaction_type=ReactionType.GAS_TWOBODY),
        Reaction(["H+", "e-"], ["H"], alpha=1e-11, reaction_type=ReactionType.GAS_TWOBODY),
    ], cooling=["CIC_HI", "RC_HII"])


def build_binaries(ctx: Ctx) -> dict[str, Path]:
    net = build_network()
    thnet = build_thermal_network()
    jobs = {}
    for key, solver, method, drv, flags in [
        ("dense_th", "cvode", "dense", "solve_driver_cvode.cpp", []),
        ("sparse_th", "cvode", "sparse", "solve_driver_cvode.cpp", []),
        ("odeint_th", "odeint", "rosenbrock4", "solve_driver_odeint.cpp", []),
        ("dense", "cvode", "dense", "solve_driver_cvode.cpp", []),
        ("sparse", "cvode", "sparse", "solve_driver_cvode.cpp", []),
        ("sparse_py", "cvode", "sparse", "solve_driver_cvode.cpp", ["-DPYMODULE", "-DPYMODNAME=nv"]),
        ("odeint", "odeint", "rosenbrock4", "solve_driver_odeint.cpp", []),
        ("odeint_py", "odeint", "rosenbrock4", "solve_driver_odeint.cpp", ["-DPYMODULE", "-DPYMODNAME=nv"]),
    ]:
        d = ctx.sub(f"proj_{key}")
        if not (d / "src").exists():
            render(thnet if key.endswith("_th") else net, solver, method, d)
        jobs[key] = (d, drv, flags)

    def comp(item):
        key, (d, drv, flags) = item
        out = ctx.scratch / f"drv_{key}"
        srcs = sorted((d / "src").glob("*.cpp")) + [SHIM / drv]
        # array subscripts of the generated code are checked against the DECLARED sizes of its arrays (class members included): an index
        # outside them stops the program with a diagnostic instead of silently reading the neighbouring member
        p = compile_cpp(srcs, [SHIM / "include", d / "include"], out, list(flags))      # (compile_cpp adds -fsanitize=bounds)
        return key, out, p

    bins = {}
    with ThreadPoolExecutor(8) as ex:
        for key, out, p in ex.map(comp, jobs.items()):
            if p.returncode != 0:
                # the generated sources do not compile against the documented API: that is a finding of its own
                ctx.violation(f"C19|Compile|{key}", f"generated {key} project does not compile against the API stand-in: "
                              + p.stderr[-1500:], {"stderr": p.stderr[-4000:]})
            else:
                bins[key] = out
    return bins


# ----------------------------------------------------------------------------- scripts

def script_line(tid, outcomes, reinits, intfail=1, dt=T, y0=Y0):
    parts = [str(tid), repr(float(dt)), repr(float(y0)), str(intfail), str(len(outcomes))]
    for f, fr in outcomes:
        parts += [str(f), repr(float(fr))]
    parts.append(str(len(reinits)))
    parts += [str(r) for r in reinits]
    return " ".join(parts)


def run_cvode(ctx: Ctx, binary: Path, scripts: list[str], tag: str) -> dict[int, list[dict]]:
    f = ctx.scratch / f"scripts_{tag}.txt"
    f.write_text("\n".join(scripts) + "\n")
    wd = ctx.sub(f"run_{tag}")
    p = subprocess.run([str(binary), str(f), str(wd)], capture_output=True, text=True, timeout=1200)
    if p.returncode != 0:
        m = re.search(r"runtime error: (index -?\d+ out of bounds for type '[^']+')", p.stderr)
        if m:
            where = re.search(r"(naunet\w*\.(?:cpp|h)):(\d+)", p.stderr)
            ctx.violation(f"C19|OutOfBounds|{tag.split('_', 1)[-1]}", f"the generated solver ({tag}) indexes one of its own arrays outside its declared size while handling "
                          f"a failure script: {m.group(1)} at {where.group(0) if where else '?'}", {"stderr": p.stderr[-1500:], "scripts_file": str(f)})
        else:
            raise MachineryError(f"driver {binary.name} exited {p.returncode}: {p.stderr[-2000:]}")
    runs: dict[int, list[dict]] = {}
    cur = None
    for line in p.stdout.splitlines():
        if not line.startswith("{"):
            continue
        e = json.loads(line)
        if e["ev"] == "Begin":
            cur = runs.setdefault(e["tid"], [])
        cur.append(e)
    return runs


def near_int(x: float, tol=1e-4) -> bool:
    return abs(x - round(x)) <= tol


def project(tid: int, events: list[dict]) -> dict:
    """Raw stand-in log -> Trace_Solve events (integers, booleans, strings only)."""
    beg = events[0]
    y0 = beg["y0"]
    ev = []
    for e in events[1:]:
        k = e["ev"]
        if k == "CVodeInit":
            ev.append({"k": "Init", "t0": int(round(e["t0"])) if near_int(e["t0"]) else -999,
                       "tau": int(round(e["y0"] - y0)) if near_int(e["y0"] - y0) else -999})
        elif k == "CVode":
            toutint = near_int(e["tout"], 1e-6)
            tout = int(round(e["tout"])) if toutint else int(math.floor(e["tout"]))
            if e["flag"] >= 0:
                tret, tretint = tout, toutint
                tauint = toutint
            else:
                tretint = near_int(e["tret"], 1e-9)
                tret = int(round(e["tret"])) if tretint else int(math.floor(e["tret"]))
                tauint = near_int(e["y"] - y0)
            ev.append({"k": "CVode", "tout": tout, "toutint": toutint, "flag": e["flag"], "tret": tret,
                       "tretint": tretint, "tau": int(round(e["y"] - y0)), "tauint": tauint})
        elif k == "CVodeReInit":
            ev.append({"k": "ReInit", "t0": int(round(e["t0"])) if near_int(e["t0"]) else -999,
                       "tau": int(round(e["y0"] - y0)), "tauint": near_int(e["y0"] - y0), "flag": e["flag"]})
        elif k == "Return":
            ev.append({"k": "Return", "ret": "SUCCESS" if e["ret"] == 0 else "FAIL",
                       "tau": int(round(e["y"] - y0)), "tauint": near_int(e["y"] - y0),
                       "allsame": e["allsame"], "logged": e["logged_init"],
                       "loggedok": (not e["logged_init"]) or abs(e["logged_y0"] - y0) <= 1e-6 * max(1.0, abs(y0)),
                       "freed": e["n_create"] == e["n_free"]})
    return {"tid": tid, "ev": ev}


def skeleton(events: list[dict]):
    sk = []
    for e in events:
        if e["ev"] == "CVode":
            sk.append(("CVode", e["flag"]))
        elif e["ev"] == "CVodeReInit":
            sk.append(("ReInit", e["flag"] >= 0))
        elif e["ev"] == "Return":
            sk.append(("Return", "SUCCESS" if e["ret"] == 0 else "FAIL"))
    return sk


# ----------------------------------------------------------------------------- spec -> code

STATE_RE = re.compile(r"^STATE_(\d+) ==\s*$")


def parse_sim_file(path: Path) -> list[dict]:
    states, cur = [], None
    for line in path.read_text().splitlines():
        if STATE_RE.match(line.strip()):
            cur = {}
            states.append(cur)
            continue
        m = re.match(r"^\s*/\\ (\w+) = (.*)$", line)
        if m and cur is not None:
            v = m.group(2).strip()
            if v.startswith('"'):
                cur[m.group(1)] = v.strip('"')
            elif v in ("TRUE", "FALSE"):
                cur[m.group(1)] = v == "TRUE"
            else:
                cur[m.group(1)] = int(v)
    return states


def behaviour_to_script(states: list[dict], Tm: int):
    outcomes, reinits, sk = [], [], []
    for a, b in zip(states, states[1:]):
        if a["pc"] in ("call0", "sub") and (b["pc"] != a["pc"] or b["step"] != a["step"] or b["flag"] != a["flag"] or b["t"] != a["t"]):
            f = b["flag"]
            if f < 0:
                span = (Tm if a["pc"] == "call0" else a["rem"]) - a["t"]
                fr = (b["t"] - a["t"]) / span if span > 0 else 0.0
                outcomes.append((f, min(max(fr, 0.0), 0.999)))
            else:
                outcomes.append((0, 0.0))
            sk.append(("CVode", f))
        elif a["pc"] == "reinit":
            ok = b["pc"] == "sub"
            reinits.append(0 if ok else -22)
            sk.append(("ReInit", ok))
    final = states[-1]
    if final["pc"] in ("ret", "done") and final["ret"] != "none":
        sk.append(("Return", final["ret"]))
        return outcomes, reinits, sk
    return None   # behaviour cut by the depth bound before returning


def spec_to_code(ctx: Ctx, bins, n_beh: int, cov: dict):
    simdir = ctx.sub("sim")
    cfg = ctx.scratch / "MC_Solve_sim.cfg"
    Tm = 6
    cfg.write_text('CONSTANTS\n T = 6\n MaxLevel = 5\n SubPerLevel = 10\n Variant = "asis"\nSPECIFICATION Spec\nCHECK_DEADLOCK FALSE\n')
    res = run_tlc("Solve.tla", str(cfg), ctx.sub("meta") / "sim", workers=1,
                  extra=["-simulate", f"file={simdir}/b,num={n_beh}", "-depth", "260", "-seed", str(ctx.seed + 17)])
    files = sorted(simdir.glob("b_*"))
    if not files:
        raise MachineryError("TLC -simulate produced no behaviours:\n" + res["out"][-2000:])
    cases = []
    for f in files:
        st = parse_sim_file(f)
        r = behaviour_to_script(st, Tm) if len(st) > 1 else None
        if r:
            cases.append(r)
    # de-duplicate skeletons, keep order
    seen, uniq = set(), []
    for c in cases:
        key = tuple(c[2])
        if key not in seen:
            seen.add(key)
            uniq.append(c)
    scripts = [script_line(i + 1, o, r, intfail=0) for i, (o, r, _) in enumerate(uniq)]
    replayed = diverged = 0
    for key in ("dense", "sparse"):
        if key not in bins:
            continue
        runs = run_cvode(ctx, bins[key], scripts, f"replay_{key}")
        for i, (o, r, sk) in enumerate(uniq):
            ev = runs[i + 1]
            got = skeleton(ev)
            replayed += 1
            if got != sk:
                # a scripted failure the stand-in could not place (no room before the target) turns into a success
                unplaced = sum(1 for e in ev if e["ev"] == "CVode" and e["scripted"] and e["flag"] >= 0) != sum(1 for f, _ in o if f >= 0)
                if unplaced:
                    diverged += 1
                    continue
                ctx.violation(f"C19|SpecToCode|{key}|path", f"real Solve ({key}) left the control path of the specification behaviour: "
                              f"expected {sk[-6:]} got {got[-6:]}", {"backend": key, "script": scripts[i], "expected": sk, "got": got})
                continue
            last = ev[-1]
            if last["ret"] == 0 and abs((last["y"] - Y0) - T) > 1e-3:
                ctx.violation(f"C19|SpecToCode|{key}|span", f"SUCCESS but integrated {last['y'] - Y0} of {T}",
                              {"backend": key, "script": scripts[i]})
    cov["spec_behaviours_simulated"] = len(files)
    cov["spec_behaviours_replayed_distinct"] = len(uniq)
    cov["spec_replays_run"] = replayed
    cov["spec_replays_unplaceable_failure"] = diverged
    if uniq:
        cov["samples"].append({"kind": "spec->code behaviour", "skeleton_tail": [list(x) for x in uniq[len(uniq) // 2][2][-8:]],
                               "script": scripts[len(uniq) // 2][:200]})


# ----------------------------------------------------------------------------- code -> spec

def gen_scripts(rng: random.Random, n: int) -> list[tuple[list, list]]:
    """Random + targeted fault scripts (call-position based; level L has 10*L sub-steps in the code as written,
    the positions are only a way to reach deep levels — the scripts stay valid for any schedule)."""
    out = []
    nsub = [1] + [10 * l for l in range(1, 6)]

    def flat(perlevel):
        # perlevel: list of (step_index (1-based) , flag, frac) for level 0,1,2,...  ; produces positional outcomes
        oc = []
        for lv, (k, f, fr) in enumerate(perlevel):
            k = min(k, nsub[min(lv, 5)])
            oc += [(0, 0.0)] * (k - 1) + [(f, fr)]
        return oc
    # targeted: single failure with every flag at the first call
    for f in ALLNEG:
        for fr in (0.0, 0.5, 0.999999):
            out.append(([(f, fr)], []))
    # targeted: failure on the last / first / middle sub-step of each level, chains through all five levels
    for depth in range(1, 7):
        for pos in ("first", "last", "mid"):
            for flagset in (REC, [-6], REC + [-6]):
                per = []
                for lv in range(depth):
                    n_l = nsub[min(lv, 5)]
                    k = {"first": 1, "last": n_l, "mid": max(1, n_l // 2)}[pos]
                    per.append((k, rng.choice(flagset), rng.choice([0.0, 0.3, 0.9, 0.999999])))
                out.append((flat(per), []))
                if depth >= 2:
                    per2 = per[:-1] + [(per[-1][0], rng.choice([-5, -7, -22]), 0.5)]
                    out.append((flat(per2), []))
    # targeted: failing re-initialisation at each level
    for lv in range(1, 6):
        per = [(1, rng.choice(REC), 0.4)] * lv
        out.append((flat(per), [0] * (lv - 1) + [-22]))
    # random
    while len(out) < n:
        depth = rng.choice([0, 1, 1, 2, 2, 3, 4, 5, 6, 7])
        per = []
        for lv in range(depth):
            n_l = nsub[min(lv, 5)]
            k = rng.choice([1, n_l, rng.randint(1, n_l)])
            f = rng.choice(REC * 3 + [-6] * 3 + [-5, -7, -22, -9])
            per.append((k, f, rng.choice([0.0, rng.random(), 0.999999])))
        ri = []
        if rng.random() < 0.1 and depth:
            ri = [0] * rng.randint(0, depth - 1) + [-22]
        out.append((flat(per), ri))
    return out


def code_to_spec(ctx: Ctx, bins, n: int, cov: dict):
    rng = random.Random(ctx.seed)
    cases = gen_scripts(rng, n)
    scripts = [script_line(i + 1, o, r) for i, (o, r) in enumerate(cases)]
    total = acc = 0
    nontrivial = set()
    for key in ("dense", "sparse", "dense_th", "sparse_th"):
        if key not in bins:
            continue
        runs = run_cvode(ctx, bins[key], scripts, f"rand_{key}")
        traces = [project(tid, ev) for tid, ev in sorted(runs.items())]
        for tr in traces:
            sk = tuple((e["k"], e.get("flag", e.get("ret"))) for e in tr["ev"] if e["k"] != "CVode" or e["flag"] < 0)
            if len(sk) > 2:
                nontrivial.add(sk)
        v = validate_traces(ctx, "Trace_Solve.tla", "Trace_Solve.cfg", traces, f"solve_{key}")
        total += len(traces)
        acc += v["accepted"]
        cov["trace_states"] = cov.get("trace_states", 0) + v["states"]
        for tid, rj in sorted(v["rejected"].items())[:50]:
            clause = (rj["clauses"] or ["NoEnabledAction"])[0]
            tr = traces[tid - 1]
            at = rj["at"]
            evt = tr["ev"][at - 1] if at - 1 < len(tr["ev"]) else None
            ctx.violation(f"C19|Trace|{clause}", f"{key}: trace {tid} rejected at event {at} ({evt}) clause {rj['clauses']}",
                          {"backend": key, "script": scripts[tid - 1], "trace": tr, "rejected_at": at, "clauses": rj["clauses"]})
        if key == "dense":
            cov["samples"].append({"kind": "code->spec trace (dense)", "script": scripts[len(scripts) // 3][:160],
                                   "events": traces[len(traces) // 3]["ev"][:6]})
    cov["traces_validated_against_impl"] = cov.get("traces_validated_against_impl", 0) + total
    cov["traces_accepted"] = cov.get("traces_accepted", 0) + acc
    cov["distinct_fault_skeletons"] = len(nontrivial)

    # binding demonstration: a corrupted copy of an accepted trace must be rejected
    if "dense" in bins and total:
        runs = run_cvode(ctx, bins["dense"], scripts[:40], "bind")
        bad = []
        for tid, ev in sorted(runs.items()):
            tr = project(tid, ev)
            fails = [i for i, e in enumerate(tr["ev"]) if e["k"] == "CVode" and e["flag"] < 0 and e["flag"] > -5 and e["tret"] > 0]
            if fails and tr["ev"][-1]["ret"] == "SUCCESS":
                tr2 = json.loads(json.dumps(tr))
                tr2["ev"][fails[0]]["tret"] -= 1      # pretend the integrator got one tick less far
                tr2["ev"][fails[0]]["tau"] -= 1
                bad.append(tr2)
                tr3 = json.loads(json.dumps(tr))
                del tr3["ev"][fails[0] + 1]           # drop the ReInit event
                tr3["tid"] = tid + 100000
                bad.append(tr3)
        if bad:
            v = validate_traces(ctx, "Trace_Solve.tla", "Trace_Solve.cfg", bad, "bind")
            cov["binding_corrupted_traces"] = len(bad)
            cov["binding_corrupted_rejected"] = len(v["rejected"])
            if len(v["rejected"]) != len(bad):
                raise MachineryError("binding demonstration failed: a corrupted trace was accepted")


def odeint_part(ctx: Ctx, bins, cov: dict):
    rng = random.Random(ctx.seed + 5)
    combos = []
    for mx in (0, 1, 2, 5, 50, 500):
        for need in {1, 2, max(1, mx - 1), max(1, mx), mx + 1, mx + 2, 3 * mx + 7}:
            combos.append((need, mx))
    for _ in range(40 if ctx.quick else 300):
        mx = rng.randint(0, 300)
        combos.append((rng.randint(1, 2 * mx + 3), mx))
    combos = sorted(set(combos))
    # the same budgets installed by Reset after an Init with ANOTHER budget (the default 500 and a small one): the budget of the last
    # configuring call is the one Solve works with
    combos = [(need, mx, -1) for need, mx in combos] + [(need, mx, pre) for need, mx in combos[::3] for pre in (500, 20) if pre != mx]
    traces = []
    tid = 0
    for key, wrapper in (("odeint", False), ("odeint_py", True), ("odeint_th", False)):
        if key not in bins:
            continue
        f = ctx.scratch / f"oscripts_{key}.txt"
        base = tid
        f.write_text("".join(f"{base + i + 1} {float(T)!r} {Y0!r} {need} {mx} {pre}\n" for i, (need, mx, pre) in enumerate(combos)))
        p = subprocess.run([str(bins[key]), str(f), str(ctx.sub(f"orun_{key}"))], capture_output=True, text=True, timeout=600)
        if p.returncode != 0:
            raise MachineryError(f"odeint driver failed: {p.stderr[-1000:]}")
        for line in p.stdout.splitlines():
            if not line.startswith("{"):
                continue
            e = json.loads(line)
            tid = e["tid"]
            # Solve's own return value is invisible through the Python wrapper; there it is reconstructed from
            # the error record (the catch block is the only writer), and what the caller sees is `raised`.
            if wrapper:
                ret = "FAIL" if e["logged"] else "SUCCESS"
            else:
                ret = "SUCCESS" if e["ret"] == 0 else "FAIL"
            traces.append({"tid": tid, "need": e["nsteps"], "budget": e["mxsteps"], "wrapper": wrapper,
                           "ev": [{"ret": ret, "calls": e["observer_calls"],
                                   "span": abs((e["y"] - e["y0"]) - e["dt"]) <= 1e-6 * e["dt"],
                                   "logged": e["logged"], "raised": e["raised"]}]})
    v = validate_traces(ctx, "Trace_SolveOdeint.tla", "Trace_SolveOdeint.cfg", traces, "odeint")
    cov["traces_validated_against_impl"] = cov.get("traces_validated_against_impl", 0) + len(traces)
    cov["traces_accepted"] = cov.get("traces_accepted", 0) + v["accepted"]
    cov["odeint_runs"] = len(traces)
    cov["trace_states"] = cov.get("trace_states", 0) + v["states"]
    by = {t["tid"]: t for t in traces}
    for tid, rj in v["rejected"].items():
        clause = (rj["clauses"] or ["NoEnabledAction"])[0]
        tr = by[tid]
        site = "PyWrapSolve" if tr["wrapper"] else "Solve"
        ctx.violation(f"C19|Odeint|{site}|{clause}", f"odeint {site}: need={tr['need']} budget={tr['budget']} observed {tr['ev'][0]} rejected: {rj['clauses']}",
                      {"trace": tr, "clauses": rj["clauses"]})
    if traces:
        cov["samples"].append({"kind": "odeint run", "trace": traces[len(traces) // 2]})


def apalache_unbounded(ctx: Ctx, cov: dict):
    """Unbounded safety of Solve.tla: an inductive invariant for EVERY T >= 1 discharged by Apalache (APA_Solve.tla); the seeded
    design variants must each break one obligation.  TLC stays the deciding tool for the bounded instances, liveness and traces."""
    import shutil
    if not shutil.which("apalache-mc"):
        ctx.notes.append("apalache-mc not on PATH: the unbounded inductive check of Solve.tla was skipped (TLC results are bounded in T)")
        return
    spec_dir = Path(__file__).parent.parent / "spec"
    jobs = [("asis", a, b, c) for a, b, c in (("Init", "IndInv", 0), ("IndInit", "IndInv", 1), ("IndInit", "Clauses", 0), ("IndInit", "StepClauses", 1))]
    jobs += [(v, "IndInit", "IndInv", 1) for v in ("skip_dt_sub", "reset_keeps_dt", "success_after_last_level", "no_log")]
    jobs += [("swallow_unrecoverable", "IndInit", "StepClauses", 1)]

    def one(job):
        v, init, inv, length = job
        d = ctx.sub(f"apa_{v}_{inv}_{length}")
        shutil.copy(spec_dir / "Solve.tla", d / "Solve.tla")
        (d / "APA_Solve.tla").write_text((spec_dir / "APA_Solve.tla").read_text().replace('Variant <- "asis"', f'Variant <- "{v}"'))
        p = subprocess.run(["apalache-mc", "check", "--cinit=ConstInit", f"--init={init}", f"--inv={inv}", f"--length={length}", f"--out-dir={d / 'out'}",
                            "APA_Solve.tla"], cwd=d, capture_output=True, text=True, timeout=1200)
        out = p.stdout + p.stderr
        return job, ("EXITCODE: OK" in out), ("The outcome is: Error" in out), out[-1500:]
    with ThreadPoolExecutor(8) as ex:
        res = list(ex.map(one, jobs))
    held = 0
    for (v, init, inv, length), ok, cex, tail in res:
        if not ok and not cex:
            raise MachineryError(f"apalache did not decide {v}/{init}/{inv}: {tail}")
        if v == "asis":
            if not ok:
                ctx.violation(f"C19|Design|Unbounded|{inv}", f"Apalache: obligation {init} => {inv} (length {length}) of the inductive proof fails for some T", {"apalache": tail})
            else:
                held += 1
        elif ok:
            raise MachineryError(f"vacuity guard: seeded design variant {v} passes the inductive obligation {inv}")
    cov["unbounded_inductive_obligations_held"] = held
    cov["unbounded_inductive_variants_rejected"] = len(jobs) - 4
    cov["unbounded_in"] = "T (every requested interval >= 1 tick), ladder constants as coded (5 levels x 10*level sub-steps); Apalache 0.58"


def main(ctx: Ctx) -> int:
    cov: dict = {"samples": []}
    apalache_unbounded(ctx, cov)
    # (A) model checking of the design
    cfgs = ["MC_Solve_quick.cfg"] if ctx.quick else ["MC_Solve_quick.cfg", "MC_Solve_thorough.cfg"]
    states = trans = 0
    for cfg in cfgs:
        r = run_tlc("Solve.tla", cfg, ctx.sub("meta") / cfg, workers=16, coverage=True)
        require_clean_mc(r, cfg)
        if r["error"]:
            ctx.violation(f"C19|Design|{','.join(r['violated']) or 'error'}", f"TLC found a counterexample in the specification of the code ({cfg})",
                          {"tlc": r["out"][-6000:]})
        z = coverage_zero_actions(r["out"])
        if z:
            raise MachineryError(f"vacuous model: actions never taken in {cfg}: {z}")
        states += r["distinct"]
        trans += r["generated"]
    r = run_tlc("Solve.tla", "MC_Solve_live.cfg", ctx.sub("meta") / "live", workers=4)
    require_clean_mc(r, "liveness")
    if r["error"]:
        ctx.violation("C19|Design|Terminates", "liveness: Solve may never return", {"tlc": r["out"][-4000:]})
    states += r["distinct"]; trans += r["generated"]
    r = run_tlc("SolveOdeint.tla", "MC_SolveOdeint.cfg", ctx.sub("meta") / "ode", workers=4)
    require_clean_mc(r, "odeint")
    if r["error"]:
        ctx.violation(f"C19|Design|Odeint|{','.join(r['violated'])}", "TLC counterexample in SolveOdeint", {"tlc": r["out"][-4000:]})
    states += r["distinct"]; trans += r["generated"]
    # seeded design variants must be caught by the invariants (vacuity guard)
    variants = ["skip_dt_sub", "success_after_last_level"] if ctx.quick else \
        ["skip_dt_sub", "reset_keeps_dt", "swallow_unrecoverable", "success_after_last_level", "no_log"]
    caught = 0
    base = (Path(__file__).parent.parent / "spec" / "MC_Solve_quick.cfg").read_text()
    for v in variants:
        c = ctx.scratch / f"var_{v}.cfg"
        c.write_text(base.replace('Variant = "asis"', f'Variant = "{v}"'))
        rv = run_tlc("Solve.tla", str(c), ctx.sub("meta") / f"var_{v}", workers=4)
        if not rv["error"]:
            raise MachineryError(f"seeded design variant {v} not caught by the invariants")
        caught += 1
    cov["design_variants_caught"] = caught
    cov["states"], cov["transitions"] = states, trans

    bins = build_binaries(ctx)
    spec_to_code(ctx, bins, 300 if ctx.quick else 16000, cov)
    code_to_spec(ctx, bins, 400 if ctx.quick else 24000, cov)
    odeint_part(ctx, bins, cov)
    cov["rule"] = ("fault scripts = per-call outcomes (success | flag,fraction) + CVodeReInit flags; non-trivial = at least one "
                   "failure; distinct by the sequence of failing flags / reinit results / return value")
    cov["exhaustive"] = False
    return finish(ctx, "model_checking", cov, [
        "CVODE / Boost.Odeint / pybind11 are replaced by stand-ins that implement the documented call contracts only; "
        "the stand-in integrator's solution is y(t)=y0+t so the state measures integrated time",
        "recoverable = flags -1..-4, reset = -6, everything else unrecoverable, as classified by the code",
        "real step-size control and real failure modes of CVODE are not modelled",
    ])

"""C07 — reaction files of all six formats are decoded faithfully (Formats.tla).

(A) TLC: all files of <= 4 lines over the line classes (blank, whitespace, comment, @format, @var, @common, data) for a
    non-KROME and the KROME reader: one reaction per data line, in order, no marker token as species.
(B-D) files are written by the independent encoders (every type code, 1-3 reactants incl. marker tokens, 0-5 products,
    signed / exponent numbers, wide indices, blank / comment / directive lines interleaved), read by the real readers;
    Trace_Formats.tla runs the line machine and compares the decoded reactions field by field.
"""
from __future__ import annotations

import random

from common import Ctx, MachineryError, finish, import_naunet, require_clean_mc, run_tlc, validate_traces
import encoders

GAS = ["H", "H2", "C", "CH", "O", "OH", "CO", "H2O", "HCO+", "e-", "He", "He+", "CH3OH", "C+", "H3+", "N2H+", "CH3OCH3", "H2D+"]
KIDA_CODES = [1, 2, 3, 4, 5, 6]
UMIST_CODES = ["AD", "CD", "CE", "CP", "CR", "DR", "IN", "MN", "NN", "PH", "RA", "REA", "RR"]
LEEDS_CODES = [1, 2, 3, 4, 5, 6, 7, 8, 9, 10, 11, 12, 13, 14, 20]
UCL_CODES = ["MA", "CRP", "PHOTON", "CRPHOT", "FREEZE", "DESOH2", "DESCR", "DEUVCR", "THERM", "DIFF", "CHEMDES"]
MARK = {"kida": {1: "CR", 2: "Photon"}, "umist": {"CP": "CRP", "CR": "CRPHOT", "PH": "PHOTON"}}
KROME_T = [("NONE", -1.0), ("N/A", -1.0), ("", -1.0), (">10", 10.0), (".GE.1d2", 100.0), (".LE.2.d3", 2000.0), ("1.0d4", 10000.0),
           ("<1e4", 10000.0), ("5.5e3", 5500.0), ("1160", 1160.0),
           # a limit that is exactly zero, in every spelling the reader accepts (0.0 is a value, not "no limit")
           ("0", 0.0), ("0.0", 0.0), ("0d0", 0.0), (">0", 0.0), (".GE.0d0", 0.0), ("<0.0", 0.0)]


def fl(x) -> str:
    return repr(float(x))


def gen_record(rng: random.Random, fmt: str):
    nr = {"umist": rng.choice([1, 2]), "uclchem": rng.choice([1, 2])}.get(fmt, rng.choice([1, 2, 2, 3]))
    np_ = rng.randint(0, {"umist": 4, "uclchem": 4}.get(fmt, 5))
    pool = GAS
    if fmt == "leeds":
        pool = GAS + ["GCO", "GH2O", "GRAIN0", "GRAIN-"]
    if fmt == "uclchem":
        pool = GAS + ["#CO", "#H2O"]
    r = [rng.choice(pool) for _ in range(nr)]
    p = [rng.choice(pool) for _ in range(np_)]
    a = rng.choice([1.0, -2.5, 6.59e-11, 4.67e-10, 1.3e-17, -3.04e+4, 0.0, 9.99e+99, 1.0e-99])
    b = rng.choice([0.0, 0.5, -0.5, -2.75, 3.0])
    c = rng.choice([0.0, 10.0, -10.0, 30450.0, 1.5])
    tmin, tmax = rng.choice([(-1.0, -1.0), (10.0, 300.0), (10.0, 41000.0), (0.0, 0.0), (300.0, 9999.0)])
    idx = rng.choice([1, 42, 6599, 99999])
    rec = {"r": r, "p": p, "a": a, "b": b, "c": c, "tmin": tmin, "tmax": tmax, "idx": idx}
    return rec


USER_MARKERS = ["hv", "XR"]


def encode(rng, fmt, rec, kfmt=None, custom=False):
    """-> (line text, named record as the encoder wrote it: column contents incl. markers, value texts)"""
    rec = dict(rec)
    named_r = list(rec["r"])
    if custom and fmt in ("kida", "naunet", "krome") and rng.random() < 0.6:
        room = (kfmt.split(",").count("R") if fmt == "krome" else 3) - len(named_r)
        if room > (1 if fmt == "kida" else 0):        # (KIDA keeps one column for the database's own marker)
            named_r.insert(rng.randint(1, len(named_r)), rng.choice(USER_MARKERS))
            rec["r"] = list(named_r)
    exempt = False
    if fmt == "kida":
        rec["code"] = rng.choice(KIDA_CODES)
        mk = MARK["kida"].get(rec["code"])
        if mk and len(named_r) < 3:
            named_r.append(mk)
        rec["tmin"], rec["tmax"] = float(int(rec["tmin"])), float(int(rec["tmax"]))
        if len(rec["p"]) < 5 and rng.random() < 0.25:
            # the emitted photon of a radiative association / recombination is written among the PRODUCTS (any column, the last included)
            rec["p"] = list(rec["p"])
            rec["p"].insert(rng.randint(0, len(rec["p"])), "Photon")
        line = encoders.kida(dict(rec, r=named_r))
        vals = [f"{rec['a']:10.3e}", f"{rec['b']:10.3e}", f"{rec['c']:10.3e}", str(int(rec["tmin"])), str(int(rec["tmax"]))]
    elif fmt == "umist":
        rec["code"] = rng.choice(UMIST_CODES)
        mk = MARK["umist"].get(rec["code"])
        if mk and len(named_r) < 2:
            named_r.append(mk)
        line = encoders.umist(dict(rec, r=named_r))
        vals = [fl(rec["a"]), fl(rec["b"]), fl(rec["c"]), fl(rec["tmin"]), fl(rec["tmax"])]
    elif fmt == "leeds":
        rec["code"] = rng.choice(LEEDS_CODES)
        rec["a"] = rng.choice([6.59e-11, 4.67e-10, 1.0, 2.5e-9])
        # (incl. values that fill their fixed-width column to the last character: 9 for beta, 10 for gamma, 5 for each limit)
        rec["b"] = rng.choice([0.0, 0.5, -0.5, -2.75, -12345.67, 123456.78])
        rec["c"] = rng.choice([0.0, 10.0, -10.0, 30450.0, 1.5, 12345678.9, -1234567.8])
        rec["tmin"], rec["tmax"] = rng.choice([(5.0, 41000.0), (10.0, 300.0), (0.0, 0.0), (10000.0, 99999.0)])
        rec["idx"] = rng.choice([1, 42, 6599])
        if rec["code"] in (2, 3, 4) and len(named_r) < 3:
            named_r.append({2: "CRP", 3: "CRPHOT", 4: "PHOTON"}[rec["code"]])
        line = encoders.leeds(dict(rec, r=named_r))
        a_txt = f"{rec['a']:8.2E}"
        vals = [a_txt, f"{rec['b']:9.2f}", f"{rec['c']:10.1f}", str(int(rec["tmin"])), str(int(rec["tmax"]))]
    elif fmt == "uclchem":
        rec["code"] = rng.choice(UCL_CODES)
        exempt = rec["code"] == "FREEZE"
        rr = list(rec["r"])
        if rec["code"] != "MA":
            rr = rr[:1]
        rec["r"] = rr
        line = encoders.uclchem(rec)
        cols = line.split(",")
        named_r = cols[0:3]
        vals = [fl(rec["a"]), fl(rec["b"]), fl(rec["c"]), fl(rec["tmin"]), fl(rec["tmax"])]
        rec["idx"] = -1
        return line, {"r": named_r, "p": cols[3:7], "a": fl(float(vals[0])), "b": fl(float(vals[1])), "c": fl(float(vals[2])),
                      "tmin": fl(float(vals[3])), "tmax": fl(float(vals[4])), "idx": -1, "code": rec["code"]}, exempt
    elif fmt == "naunet":
        rec["code"] = rng.choice([100, 101, 102, 110, 111, 120, 200, 201, 999])
        line = encoders.native(dict(rec, r=named_r))
        vals = [f"{rec['a']:10.3e}", f"{rec['b']:10.3e}", f"{rec['c']:10.3e}", f"{rec['tmin']:9.2f}", f"{rec['tmax']:9.2f}"]
    elif fmt == "krome":
        tt, tv = rng.choice(KROME_T)
        ut, uv = rng.choice(KROME_T)
        rec["code"] = 0
        rec["rate"] = rng.choice(["1.0d-10", "3.6d-12*(Tgas/300)**(-0.75d0)", "4.67e-10*(T32)**(-5.0e-01)*exp(-3.04e+04*invT)"])
        line = encoders.krome(rec, fmt=kfmt, tmin_text=tt, tmax_text=ut)
        cols = kfmt.split(",")
        has_t = "Tmin" in cols
        named = {"r": list(rec["r"])[: cols.count("R")], "p": list(rec["p"])[: cols.count("P")], "a": "0.0", "b": "0.0", "c": "0.0",
                 "tmin": fl(tv if has_t else -1.0), "tmax": fl(uv if has_t else -1.0), "idx": rec["idx"] if "idx" in cols else -1, "code": 0}
        return line, named, False
    named = {"r": named_r, "p": list(rec["p"]), "a": fl(float(vals[0])), "b": fl(float(vals[1])), "c": fl(float(vals[2])),
             "tmin": fl(float(vals[3])), "tmax": fl(float(vals[4])), "idx": rec["idx"], "code": rec["code"]}
    return line, named, exempt


def gen_file(rng: random.Random, fmt: str, custom: bool = False, first_format: str | None = None):
    lines, text, exempt = [], [], []
    kfmt = "idx,R,R,R,P,P,P,P,P,Tmin,Tmax,rate"
    if fmt == "krome":
        kfmt = rng.choice([kfmt, kfmt, "idx,R,R,P,P,Tmin,Tmax,rate", "R,R,P,P,Tmin,Tmax,rate", "rate,idx,R,R,P,P", "Tmin,Tmax,R,P,P,rate",
                           "idx,R,R,P,P,rate,Tmin,Tmax", "rate,Tmax,Tmin,idx,R,R,P,P"])
        if first_format:
            kfmt = first_format
        text.append("@format:" + (kfmt.lower() if (first_format or rng.random() < 0.4) else kfmt))
        lines.append({"cls": "format", "rec": DUMMY})
    for _ in range(rng.randint(1, 8)):
        roll = rng.random()
        if roll < 0.15:
            text.append("")
            lines.append({"cls": "blank", "rec": DUMMY})
        elif roll < 0.25:
            text.append("   \t ")
            lines.append({"cls": "ws", "rec": DUMMY})
        elif fmt == "krome" and roll < 0.35:
            text.append(rng.choice(["# a comment, with commas", "//another,comment"]))
            lines.append({"cls": "comment", "rec": DUMMY})
        elif fmt == "krome" and roll < 0.42:
            text.append(rng.choice(["@var:ncolH=1.0d21", "@common:user_crate,user_Av"]))
            lines.append({"cls": "var", "rec": DUMMY})
        elif fmt == "krome" and roll < 0.5:
            kfmt = rng.choice(["idx,R,R,P,P,Tmin,Tmax,rate", "idx,R,R,R,P,P,P,P,P,Tmin,Tmax,rate", "idx,R,P,P,rate", "R,R,P,P,P,rate",
                               "R,R,P,P,Tmin,Tmax,rate", "rate,idx,R,R,P,P", "Tmin,Tmax,R,P,P,rate"])
            # the column keywords are case-insensitive in KROME files
            text.append("@format:" + (kfmt.lower() if rng.random() < 0.4 else kfmt))
            lines.append({"cls": "format", "rec": DUMMY})
        else:
            rec = gen_record(rng, fmt)
            if fmt == "krome":
                cols = kfmt.split(",")
                rec["r"] = rec["r"][: cols.count("R")]
                rec["p"] = rec["p"][: cols.count("P")]
            line, named, ex = encode(rng, fmt, rec, kfmt, custom)
            text.append(line)
            lines.append({"cls": "data", "rec": named})
            exempt.append(ex)
    return "\n".join(text) + ("\n" if rng.random() < 0.8 else ""), lines, exempt


DUMMY = {"r": [], "p": [], "a": "0.0", "b": "0.0", "c": "0.0", "tmin": "-1.0", "tmax": "-1.0", "idx": -1, "code": 0}


def seen(x) -> dict:
    return {"r": [s.name for s in x.reactants], "p": [s.name for s in x.products], "a": fl(x.alpha), "b": fl(x.beta),
            "c": fl(x.gamma), "tmin": fl(x.temp_min), "tmax": fl(x.temp_max), "idx": x.idxfromfile,
            "ty": int(x.reaction_type) if x.reaction_type is not None else -1}


def main(ctx: Ctx) -> int:
    import_naunet()
    from naunet.network import Network
    cov: dict = {"samples": []}
    r = run_tlc("MC_Formats.tla", "MC_Formats.cfg", ctx.sub("meta") / "mc", workers=16)
    require_clean_mc(r, "MC_Formats")
    if r["error"]:
        ctx.violation(f"C07|Design|{','.join(r['violated'])}", "TLC counterexample in Formats", {"tlc": r["out"][-4000:]})
    cov["states"], cov["transitions"] = r["distinct"], r["generated"]
    c = ctx.scratch / "v.cfg"
    c.write_text(open("/verif/spec/MC_Formats.cfg").read().replace('"asis"', '"blank_adds_empty"'))
    rv = run_tlc("MC_Formats.tla", str(c), ctx.sub("meta") / "v", workers=4)
    if "OnePerDataLine" not in rv["violated"]:
        raise MachineryError("design variant blank_adds_empty not caught")
    cov["design_variants_caught"] = 1
    rng = random.Random(ctx.seed)
    traces = []
    n = 25 if ctx.quick else 3000
    made: dict = {}
    # second pass: the first files of every format are read once more after all the others (a reader that remembers anything
    # from an earlier file - a format line, a column order, a marker list - reads them differently the second time)
    plan = [(fmt, k, False) for fmt in ("kida", "umist", "leeds", "uclchem", "krome", "naunet") for k in range(n)]
    plan += [(fmt, k, True) for fmt in ("krome", "kida", "umist", "leeds", "uclchem", "naunet") for k in range(4)]
    for fmt, k, again in plan:
        if True:
            custom = fmt in ("kida", "naunet", "krome") and k % 5 == 4      # a network that declares its own marker tokens
            # the first KROME files use, in lower case, each column order whose first keyword is not `idx`
            forced = {0: "R,R,P,P,Tmin,Tmax,rate", 1: "rate,idx,R,R,P,P", 2: "Tmin,Tmax,R,P,P,rate"}.get(k) if fmt == "krome" else None
            if again:
                text, lines, exempt = made[(fmt, k)]
            else:
                text, lines, exempt = gen_file(rng, fmt, custom, forced)
                made[(fmt, k)] = (text, lines, list(exempt))
            f = ctx.sub("in") / f"{fmt}_{k}.txt"
            f.write_text(text)
            obs = {"ok": True, "reactions": [], "err": ""}
            try:
                from naunet.species import Species
                # (no reset BEFORE a network with its own lists: a user process does not call one either; the lists are restored afterwards)
                kw = {"elements": list(Species.default_elements), "pseudo_elements": list(Species.default_pseudoelements) + USER_MARKERS} if custom else {}
                net = Network(filelist=str(f), fileformats=fmt, **kw)
                obs["reactions"] = [seen(x) for x in net.reaction_list]
            except Exception as e:   # noqa
                obs = {"ok": False, "reactions": [], "err": f"{type(e).__name__}: {str(e)[:100]}"}
            obs2 = None
            if custom and obs["ok"] and not again:
                # the same file added once more to the same network AFTER another network with the same elements and other marker
                # tokens was created in the process: the first network still reads with ITS marker list
                obs2 = {"ok": True, "reactions": [], "err": ""}
                try:
                    n0 = len(net.reaction_list)
                    Network(elements=list(Species.default_elements), pseudo_elements=list(Species.default_pseudoelements) + ["UV"])
                    net.add_reaction_from_file(str(f), fmt)
                    obs2["reactions"] = [seen(x) for x in net.reaction_list[n0:]]
                except Exception as e:   # noqa
                    obs2 = {"ok": False, "reactions": [], "err": f"{type(e).__name__}: {str(e)[:100]}"}
            if custom:
                Species.reset()
            ndata = sum(1 for ln in lines if ln["cls"] == "data")
            for o in (obs, obs2):
                if o is not None:
                    traces.append({"tid": len(traces) + 1, "fmt": fmt, "file": lines, "obs": o,
                                   "window_exempt": exempt + [False] * (len(o["reactions"]) + ndata), "text": text})
    v = validate_traces(ctx, "Trace_Formats.tla", "Trace_Formats.cfg", [{k: t[k] for k in ("tid", "fmt", "file", "obs", "window_exempt")} for t in traces], "fmt")
    cov["traces_validated_against_impl"] = len(traces)
    cov["traces_accepted"] = v["accepted"]
    cov["trace_states"] = v["states"]
    cov["data_lines"] = sum(1 for t in traces for ln in t["file"] if ln["cls"] == "data")
    by = {t["tid"]: t for t in traces}
    for tid, rj in sorted(v["rejected"].items()):
        clause = (rj["clauses"] or ["NoEnabledAction"])[0]
        tr = by[tid]
        classes = sorted({ln["cls"] for ln in tr["file"]} - {"data"})
        feat = f"fmt={tr['fmt']}"
        if clause in ("OneReactionPerDataLine", "Inv:OnePerDataLine", "ReaderAccepts"):
            feat += ",lines=" + "+".join(classes)
        if clause == "WindowOfFreezeOut":
            feat += ",code=FREEZE"
        ctx.violation(f"C07|{clause}|{feat}", f"{tr['fmt']} file rejected: {rj['clauses']}; reader said {tr['obs']['err'] or len(tr['obs']['reactions'])}; file:\n{tr['text'][:400]}",
                      {"fmt": tr["fmt"], "file_text": tr["text"], "lines": tr["file"], "observed": tr["obs"], "clauses": rj["clauses"]})
    cov["samples"].append({"fmt": traces[0]["fmt"], "file_text": traces[0]["text"][:300], "observed": traces[0]["obs"]["reactions"][:2]})
    cov["rule"] = "files of 1-8 lines per format with blank/whitespace/comment/directive lines interleaved; non-trivial = at least one data line"
    cov["exhaustive"] = False
    return finish(ctx, "model_checking", cov, [
        "column-exact decoding is encode->decode identity against my transcription of the six layouts (harness/encoders.py); TLC decides the "
        "file-level state machine, the code tables and the field comparison",
        "coefficients are compared as the canonical decimal text of the value the encoder printed",
    ])

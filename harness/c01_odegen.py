"""C01, C02, C03, C04 and the ODE-modifier part of C13 — OdeGen.tla.

(A) TLC: every network within small bounds is run through the specification of _prepare_ode_content and checked at
    "done" (mass action, exact derivative, omitted = zero, CSR well-formed, conservation of balanced networks).
(B) spec->code: networks chosen by TLC (-simulate initial states of MC_OdeGen) are built as real Network objects,
    rendered for cvode dense / sparse / cusparse (text) and odeint, read back with the strict C reader.
(C/D) code->spec: richer real-species networks (balanced by construction, electrons under three spellings, ortho/para,
    isotopologues, ices, pseudo-reactants, duplicates, required species, modifiers, cooling) and the bundled networks.
    One trace per (network, back-end): one event per reaction / modifier / thermal process + Finish; validated by
    Trace_OdeGen.tla, which also evaluates conservation with the INTENDED compositions.
"""
from __future__ import annotations

import itertools
import json
import os
import random
import re
from collections import Counter
from pathlib import Path

from common import (Ctx, MachineryError, REPO, SPEC, finish, import_naunet, render, require_clean_mc, run_tlc, sim_states,
                    validate_traces)
import creader

BACKENDS = [("cvode", "dense", "cpu", "dense"), ("cvode", "sparse", "cpu", "sparse"),
            ("cvode", "cusparse", "gpu", "cusparse"), ("odeint", "rosenbrock4", "cpu", "odeint")]

CLAUSE_PROP = {
    "RhsTerms": "C01", "Inv:RhsIsMassAction": "C01", "OneStatementPerEquation": "C01", "WrapperOnThermalRowOnly": "C01",
    "NoStrayTerms": "C01", "NoEnabledAction": "C01",
    "MalformedFex": "C01",
    "BackendsAgreeAtRunTime": "C01", "JacobiansAgreeAtRunTime": "C02",
    "JacTerms": "C02", "Inv:JacIsDerivative": "C02", "JacobianReadsTheSameAbundancesAsTheRhs": "C02", "OmittedIsZero": "C02", "WrapperOnThermalCellsOnly": "C02", "MalformedJac": "C02",
    "MacroExpressionsParenthesised": "C03", "BatchStrideIsSystemSize": "C03", "BatchedMatrixGetsItsStructure": "C03",
    "TermsOnlyInRange": "C03", "CellsInRange": "C03", "NoCellAssignedTwice": "C03", "MacroNSPECIES": "C03", "MacroNEQUATIONS": "C03",
    "MacroNREACTIONS": "C03", "MacroThermal": "C03", "SubscriptsInBounds": "C03", "CsrComplete": "C03", "CsrWellFormed": "C03",
    "CsrDataWithinNNZ": "C03", "CsrCellsAreTheCells": "C03", "PatternMarksStoredEntries": "C03", "BackendsAgree": "C03", "SameValueAtTheSameCell": "C03",
    "MalformedCsr": "C03",
    "Inv:Conservation": "C04", "ElementTotals": "C04", "Inv:OmittedIsZero": "C02", "RateSubscriptsInBounds": "C03",
}

# ------------------------------------------------------------------------------------------ species pool (intended compositions)
POOL = {
    "H": ({"H": 1}, 0), "H+": ({"H": 1}, 1), "H-": ({"H": 1}, -1), "H2": ({"H": 2}, 0), "H2+": ({"H": 2}, 1), "H3+": ({"H": 3}, 1),
    "e-": ({}, -1), "E": ({}, -1), "E-": ({}, -1), "M": ({"M": 1}, 0), "M+": ({"M": 1}, 1),
    "He": ({"He": 1}, 0), "He+": ({"He": 1}, 1), "He++": ({"He": 1}, 2),
    "C": ({"C": 1}, 0), "C+": ({"C": 1}, 1), "CH": ({"C": 1, "H": 1}, 0), "CH+": ({"C": 1, "H": 1}, 1), "CH2": ({"C": 1, "H": 2}, 0),
    "O": ({"O": 1}, 0), "OH": ({"O": 1, "H": 1}, 0), "OH+": ({"O": 1, "H": 1}, 1), "H2O": ({"H": 2, "O": 1}, 0),
    "CO": ({"C": 1, "O": 1}, 0), "HCO+": ({"H": 1, "C": 1, "O": 1}, 1), "CH3OH": ({"C": 1, "H": 4, "O": 1}, 0),
    "HCOOH": ({"H": 2, "C": 1, "O": 2}, 0),
    "D": ({"D": 1}, 0), "HD": ({"H": 1, "D": 1}, 0), "H2D+": ({"H": 2, "D": 1}, 1),
    "oH2": ({"H": 2}, 0), "pH2": ({"H": 2}, 0), "oH2D+": ({"H": 2, "D": 1}, 1),
    "#CO": ({"C": 1, "O": 1}, 0), "#H2O": ({"H": 2, "O": 1}, 0), "#H": ({"H": 1}, 0), "#CH3OH": ({"C": 1, "H": 4, "O": 1}, 0),
    "N": ({"N": 1}, 0), "N2": ({"N": 2}, 0), "N2H+": ({"N": 2, "H": 1}, 1),
    # identifiers that differ only in letter case: Si -> SiI, S+ -> SII; SiO -> SiOI / SO... (distinct species, distinct slots)
    "S": ({"S": 1}, 0), "S+": ({"S": 1}, 1), "Si": ({"Si": 1}, 0), "Si+": ({"Si": 1}, 1), "SiO": ({"Si": 1, "O": 1}, 0), "SO": ({"S": 1, "O": 1}, 0),
    "SO+": ({"S": 1, "O": 1}, 1), "SiH": ({"Si": 1, "H": 1}, 0), "HS+": ({"S": 1, "H": 1}, 1),
    "O*": ({"O": 1}, 0),      # an excited atom: an atomic form of O whose name is not the element's
    "#OH": ({"O": 1, "H": 1}, 0), "#OH-": ({"O": 1, "H": 1}, -1),      # an ice in two charge states (targeted cases only)
    "#1CO": ({"C": 1, "O": 1}, 0), "#1H": ({"H": 1}, 0), "#1H2O": ({"H": 2, "O": 1}, 0),   # the same ices on a second grain population (targeted cases only)
}
ELECTRONS = {"e-", "E", "E-"}
PSEUDO = ["CR", "CRP", "PHOTON", "CRPHOT"]
ELEMS = ["H", "D", "He", "C", "N", "O", "S", "Si"]


def pseudo_of(desc) -> list[str]:
    return list(desc.get("pseudo_elements") or PSEUDO)


def total(names):
    comp, q = Counter(), 0
    for n in names:
        c, ch = POOL[n]
        comp.update(c)
        q += ch
    return (tuple(sorted(comp.items())), q)


_products_index = None


def products_index():
    global _products_index
    if _products_index is None:
        idx = {}
        names = sorted(n_ for n_ in POOL if n_ not in NOT_DRAWN)
        for k in (1, 2, 3):
            for combo in itertools.combinations_with_replacement(names, k):
                idx.setdefault(total(combo), []).append(combo)
        _products_index = idx
    return _products_index


def balanced_reaction(rng: random.Random, pool: list[str]):
    idx = products_index()
    for _ in range(50):
        r = [rng.choice(pool) for _ in range(rng.choice([1, 2, 2, 2, 3]))]
        cands = [c for c in idx.get(total(r), []) if all(x in pool for x in c) and sorted(c) != sorted(r)]
        if cands:
            p = list(rng.choice(cands))
            rng.shuffle(p)
            return r, p
    return None


# ------------------------------------------------------------------------------------------ building real networks

# compositions known to the pool but only used by targeted networks (with the default lists `M` is a pseudo element, not a species)
NOT_DRAWN = {"M", "M+", "#OH", "#OH-", "#1CO", "#1H", "#1H2O"}


def build_network(desc: dict):
    """desc: {"reactions": [(rnames, pnames)], "required": [...], "ode_modifier": {...}, "cooling": [...], "heating_user": [...],
              "cooling_user": [...], "dups": bool}"""
    import_naunet()
    import naunet.network as nn
    from naunet.network import Network
    from naunet.reactions.reaction import Reaction
    from naunet.reactiontype import ReactionType
    from naunet.thermalprocess import ThermalProcess
    idxs = desc.get("indices") or [-1] * len(desc["reactions"])
    from naunet.species import Species
    Species.reset()
    kw = {}
    if desc.get("elements") is not None:
        # the user's own element list with an EMPTY pseudo-element list (as the shipped `minimal` example has it): every name is a species
        kw["elements"] = list(desc["elements"])
        kw["pseudo_elements"] = list(desc.get("pseudo_elements") or [])
        Species.set_known_elements(list(kw["elements"]))
        Species.set_known_pseudoelements(list(kw["pseudo_elements"]))
    elif desc.get("pseudo_elements"):
        # a user-declared pseudo-reactant list (constructor arguments `elements` / `pseudo_elements`); the reactions below are built
        # with the same lists installed, as the file readers build them inside the constructor
        kw["elements"] = list(Species.default_elements)
        kw["pseudo_elements"] = list(desc["pseudo_elements"])
        if desc.get("pseudo_prefixes"):     # the spin/isomer prefixes and markers of the default list stay declared: the pool uses them
            kw["pseudo_elements"] += [x for x in Species.default_pseudoelements if x not in kw["pseudo_elements"]]
        Species.set_known_elements(list(kw["elements"]))
        Species.set_known_pseudoelements(list(kw["pseudo_elements"]))
    if desc.get("via_files"):
        # the same reactions arriving through reaction FILES (written by the harness's own encoders), split over the listed formats in order
        import tempfile
        import encoders
        fmts = list(desc["via_files"])
        if desc.get("after_failed_krome"):
            # earlier in the process a KROME file with its own column layout was read and ABORTED at a bad line (the caller caught the error)
            tfb = tempfile.NamedTemporaryFile("w", suffix=".krome", delete=False, dir=os.environ.get("TMPDIR"))
            tfb.write("@format:idx,R,R,P,P,P,P,P,rate\n1,H,H,H2,,,,,1.0d-10\n2,Hx,H,H2,,,,,1.0d-10\n")
            tfb.close()
            try:
                Network(filelist=tfb.name, fileformats="krome")
            except Exception:   # noqa
                pass
            finally:
                os.unlink(tfb.name)
        n_ = len(desc["reactions"])
        cuts = [round(j * n_ / len(fmts)) for j in range(len(fmts) + 1)]
        flist = []
        for j, fmt_ in enumerate(fmts):
            tf = tempfile.NamedTemporaryFile("w", suffix=f".{fmt_}", delete=False, dir=os.environ.get("TMPDIR"))
            for i in range(cuts[j], cuts[j + 1]):
                r, p = desc["reactions"][i]
                rec_ = {"r": list(r), "p": list(p), "a": 1.0e-10 * (i + 1), "b": 0.0, "c": 0.0, "tmin": -1.0, "tmax": -1.0, "idx": i + 1,
                        "code": {"naunet": 100, "kida": 3, "krome": None, "umist": "NN"}[fmt_]}
                # (KROME: the default column layout, i.e. a file WITHOUT a @format line)
                tf.write((encoders.krome(rec_, fmt="idx,R,R,R,P,P,P,P,Tmin,Tmax,rate") if fmt_ == "krome" else encoders.ENCODERS[fmt_](rec_)) + "\n")
            tf.close()
            flist.append(tf.name)
        try:
            return Network(filelist=flist, fileformats=fmts, required_species=list(desc.get("required", [])), **kw)
        finally:
            for f_ in flist:
                os.unlink(f_)
    reacs = [Reaction(list(r), list(p), alpha=1.0e-10 * (i + 1), reaction_type=ReactionType.GAS_TWOBODY, idxfromfile=idxs[i])
             for i, (r, p) in enumerate(desc["reactions"])]
    if desc.get("rate_modifier"):
        kw["rate_modifier"] = dict(desc["rate_modifier"])
    hu, cu = desc.get("heating_user", []), desc.get("cooling_user", [])
    if hu or cu:
        heat = {f"UH{i}": ThermalProcess(list(r), f"{1.5 + i}e-27 * sqrt(Temp)") for i, r in enumerate(hu)}
        cool = {f"UC{i}": ThermalProcess(list(r), f"{2.5 + i}e-27 * sqrt(Temp)") for i, r in enumerate(cu)}
        nn.get_allowed_heating = lambda species, heat=heat: dict(heat)
        nn.get_allowed_cooling = lambda species, cool=cool: dict(cool)
        kw["heating"] = list(heat)
        kw["cooling"] = list(cool)
    else:
        import naunet.thermalprocess as tp
        nn.get_allowed_heating = tp.get_allowed_heating
        nn.get_allowed_cooling = tp.get_allowed_cooling
        if desc.get("cooling"):
            kw["cooling"] = list(desc["cooling"])
    if desc.get("ode_modifier") and len(desc["reactions"]) % 2 == 0:
        # the same modifiers set after construction, read-modify-write through the property, one species at a time
        net = Network(reacs, required_species=list(desc.get("required", [])), **kw)
        for sname, spec in desc["ode_modifier"].items():
            o_ = net.ode_modifier
            o_[sname] = spec
            net.ode_modifier = o_
        return net
    net = Network(reacs, required_species=list(desc.get("required", [])), ode_modifier=desc.get("ode_modifier") or None, **kw)
    return net


def norm_factor(txt: str) -> str:
    return " ".join(t[1] for t in creader.tokenize(txt))


class CaseError(Exception):
    def __init__(self, clause, msg):
        super().__init__(msg)
        self.clause, self.msg = clause, msg


def observe(ctx: Ctx, net, desc: dict, case_id: int, with_pattern: bool):
    """render the four back-ends, read them back; -> (per-backend observations, slot map name->slot, macros)"""
    from naunet.species import Species
    obs = {}
    for solver, method, device, tag in BACKENDS:
        d = ctx.scratch / "r" / f"{case_id}_{tag}"
        ext = "cu" if device == "gpu" else "cpp"
        if solver == "cvode":
            tmpl = ["include/naunet_macros.h.j2", "src/naunet_fex.cpp.j2", "src/naunet_jac.cpp.j2", "src/naunet_physics.cpp.j2",
                    "src/naunet_rates.cpp.j2"] + (["src/naunet.cpp.j2"] if tag == "cusparse" else [])
        else:
            tmpl = ["include/naunet_macros.h.j2", "src/naunet_ode.cpp.j2", "src/naunet_physics.cpp.j2"]
        render(net, solver, method, d, templates=tmpl, device=device, jac_pattern=(with_pattern and tag == "sparse"))
        macros = creader.parse_macros((d / "include/naunet_macros.h").read_text())
        o = {"macros": macros, "dir": d}
        fexfile = d / "src" / (f"naunet_fex.{ext}" if solver == "cvode" else "naunet_ode.cpp")
        jacfile = d / "src" / (f"naunet_jac.{ext}" if solver == "cvode" else "naunet_ode.cpp")
        try:
            o["fex"] = creader.read_fex(fexfile.read_text(), macros)
        except creader.ReadError as e:
            o["fex_error"] = str(e)
        try:
            o["jac"] = creader.read_jac(jacfile.read_text(), macros, tag)
        except creader.ReadError as e:
            o["jac_error"] = str(e)
        o["physics"] = (d / "src" / f"naunet_physics.{ext}").read_text()
        o["strides"] = {"fex": creader.batch_strides(fexfile.read_text()), "jac": creader.batch_strides(jacfile.read_text())} if tag == "cusparse" else {}
        # (the batched back-end: every matrix the solver class creates -- in Init and again in Reset -- must get its CSR structure)
        o["matrix_sites"] = None
        if tag == "cusparse":
            cls = next((d / "src" / nm_ for nm_ in ("naunet.cu", "naunet.cpp") if (d / "src" / nm_).exists()), None)
            o["matrix_sites"] = creader.batched_matrix_sites(cls.read_text()) if cls else []
        ratefile = d / "src" / (f"naunet_rates.{ext}" if solver == "cvode" else "naunet_ode.cpp")
        o["k_assigned"] = [int(x) for x in re.findall(r"(?<![\w.])k\s*\[\s*(\d+)\s*\]\s*=[^=]", creader.strip_comments(ratefile.read_text()))]
        if with_pattern and tag == "sparse":
            o["pattern_text"] = (d / "jac_pattern.dat").read_text() if (d / "jac_pattern.dat").exists() else None
        obs[tag] = o
    return obs


def slot_of(name: str, macros: dict, netspecies=None) -> int:
    """slot of a species NAME: the macro of the network's representative of its equality class (spellings share a slot)"""
    from naunet.species import Species
    sp = Species(name)
    rep = next((s for s in (netspecies or []) if s == sp), sp)
    key = f"IDX_{rep.alias}"
    if key not in macros:
        raise CaseError("OneStatementPerEquation", f"species {name} has no index macro {key}")
    return macros[key]


def make_trace(tid: int, desc: dict, tag: str, o: dict, extra_species: list[str], netspecies=None):
    """abstract net in REAL slots + events for one back-end"""
    macros = o["macros"]
    names = []
    PSEUDO = pseudo_of(desc)
    for r, p in desc["reactions"]:
        for x in list(r) + list(p):
            if x not in PSEUDO and x not in names:
                names.append(x)
    for x in list(desc.get("required", [])) + extra_species:
        if x not in names:
            names.append(x)
    # spellings of one species share a slot: the model works on slots
    slot = {n: slot_of(n, macros, netspecies) for n in names}
    nspec = len(set(slot.values()))
    R = [{"r": [slot[x] for x in r if x not in PSEUDO], "p": [slot[x] for x in p if x not in PSEUDO]} for r, p in desc["reactions"]]
    M, ftext = [], {}
    for sname, ex in (desc.get("ode_modifier") or {}).items():
        if sname in (desc.get("absent_modifier_species") or []):
            continue        # (rendered although the species is absent: the model has no term for it, so any emitted term is a mismatch)
        for fact, deps in zip(ex["factors"], ex["reactants"]):
            fid = len(M)
            ftext[norm_factor(str(fact))] = fid
            M.append({"t": slot[sname], "f": fid, "d": [slot[x] for x in deps]})
    H = [{"r": [slot[x] for x in r]} for r in desc.get("heating_user", [])]
    C = [{"r": [slot[x] for x in r]} for r in desc.get("cooling_user", [])] + \
        [{"r": [slot[x] for x in COOLING_REACTANTS[c]]} for c in desc.get("cooling", [])]
    th = bool(H or C)
    net = {"n": nspec, "th": th, "R": R, "M": M, "H": H, "C": C}
    fex, jac = o["fex"], o["jac"]
    groups: dict = {}
    stray = 0

    def key_of(coef):
        nonlocal stray
        kind, ix = coef
        if kind == "k":
            if ix < len(R):
                return ("Reaction", ix)
        elif kind == "kh":
            if ix < len(H):
                return ("Heat", ix)
        elif kind == "kc":
            if ix < len(C):
                return ("Cool", ix)
        elif kind == "f":
            if ix in ftext:
                return ("Modifier", ftext[ix])
        stray += 1
        return None
    for eq, (terms, wrapped) in fex["eqs"].items():
        for sign, coef, slots in terms:
            k = key_of(coef)
            if k:
                groups.setdefault(k, {"rhs": [], "jac": []})["rhs"].append([eq, sign, slots])
    for (r, c), (terms, wrapped) in jac["cells"].items():
        for sign, coef, slots in terms:
            k = key_of(coef)
            if k:
                groups.setdefault(k, {"rhs": [], "jac": []})["jac"].append([r, c, sign, slots])
    ev = []
    for kind, n in (("Reaction", len(R)), ("Modifier", len(M)), ("Heat", len(H)), ("Cool", len(C))):
        for i in range(n):
            g = groups.get((kind, i), {"rhs": [], "jac": []})
            ev.append({"k": kind, "rhs": g["rhs"], "jac": g["jac"]})
    ms = dict(fex["maxsub"])
    for k, v in jac["maxsub"].items():
        ms[k] = max(ms.get(k, -1), v)
    cells = sorted(jac["cells"])
    fin = {
        "k": "Finish", "stray": stray, "eqs": sorted(fex["eqs"]) + list(fex["dups"]),
        "wrapped_rows": sorted(e for e, (t, w) in fex["eqs"].items() if w),
        "wrapped_cells": [list(c) for c in cells if jac["cells"][c][1]],
        "cells": [list(c) for c in cells] + [list(c) for c in jac["dups"]],
        "nspecies": macros.get("NSPECIES", -1), "neq": macros.get("NEQUATIONS", -1), "nreac": macros.get("NREACTIONS", -1),
        "nheat": macros.get("NHEATPROCS", -1), "ncool": macros.get("NCOOLPROCS", -1), "nnz": macros.get("NNZ", -1),
        "max_y": max(ms.get("y", -1), ms.get("y_cur", -1)), "max_ydot": ms.get("ydot", -1), "max_k": ms.get("k", -1),
        "max_kh": ms.get("kh", -1), "max_kc": ms.get("kc", -1), "max_k_assigned": max(o.get("k_assigned") or [-1]),
        "has_csr": tag in ("sparse", "cusparse"), "has_pattern": False,
        # through which array the abundances are read (the batched GPU kernels read the cell's own block `y_cur`, not the base `y`)
        # macros whose text is an unparenthesised expression; offsets of the batched kernels (one system = NEQUATIONS abundances, NNZ stored entries)
        "unparenthesised": len(macros.get("__unparenthesised__", [])),
        "strides_ok": all(v == "NEQUATIONS" for v in o.get("strides", {}).get("fex", {}).values())
        and all(v == ("NNZ" if k == "jistart" else "NEQUATIONS") for k, v in o.get("strides", {}).get("jac", {}).items()),
        "structure_uploaded": o.get("matrix_sites") is None or (len(o["matrix_sites"]) >= 2 and all(x[2] for x in o["matrix_sites"])),
        "yarr_fex": sorted(k for k in fex["maxsub"] if k in ("y", "y_cur")), "yarr_jac": sorted(k for k in jac["maxsub"] if k in ("y", "y_cur")),
    }
    if fin["has_csr"]:
        rp, cv = jac["rowptr"], jac["colval"]
        fin["csr_holes"] = len(jac["data_holes"]) + len(jac.get("undecodable", [])) + sum(1 for x in rp + cv if x is None)
        fin["rowptr"] = [x if x is not None else -1 for x in rp]
        fin["colval"] = [x if x is not None else -1 for x in cv]
        fin["ndata"] = jac["ndata"]
    if o.get("pattern_text") is not None:
        rows = [ln.split() for ln in o["pattern_text"].splitlines() if ln.strip()]
        fin["has_pattern"] = True
        fin["pattern_shape_ok"] = len(rows) == fin["neq"] and all(len(r) == fin["neq"] and set(r) <= {"0", "1"} for r in rows)
        fin["pattern"] = [[i, j] for i, r in enumerate(rows) for j, v in enumerate(r) if v == "1"]
    ev.append(fin)
    obs_rhs = [[eq, sign, coef[0], (coef[1] if coef[0] != "f" else ftext.get(coef[1], 999)), slots]
               for eq, (terms, w) in fex["eqs"].items() for sign, coef, slots in terms]
    obs_jac = [[r, c, sign, coef[0], (coef[1] if coef[0] != "f" else ftext.get(coef[1], 999)), slots]
               for (r, c), (terms, w) in jac["cells"].items() for sign, coef, slots in terms]
    # intended compositions -> weights per slot (one vector per element, one for the charge)
    weights = []
    if all(n in POOL for n in names):
        byslot = {}
        for n in names:
            byslot.setdefault(slot[n], n)
        for el in ELEMS + ["<charge>"]:
            w = [0] * nspec
            for s, n in byslot.items():
                if s < nspec:
                    w[s] = POOL[n][1] if el == "<charge>" else POOL[n][0].get(el, 0)
            weights.append(w)
    return {"tid": tid, "net": net, "be": tag, "weights": weights, "ev": ev,
            "names": {n: s for n, s in slot.items()}, "observed": {"k": "Observed", "rhs": obs_rhs, "jac": obs_jac}}, slot


COOLING_REACTANTS = {
    "CIC_HI": ["H", "e-"], "CIC_HeI": ["He", "e-"], "CIC_HeII": ["He+", "e-"], "CIC_He_2S": ["He+", "e-", "e-"],
    "RC_HII": ["H+", "e-"], "RC_HeI": ["He+", "e-"], "RC_HeII": ["He+", "e-"], "RC_HeIII": ["He++", "e-"],
    "CEC_HI": ["H", "e-"], "CEC_HeI": ["He+", "e-"], "CEC_HeII": ["He+", "e-"],
}


def element_table_check(desc, o, slot) -> str | None:
    """GetElementAbund of naunet_physics: coefficient of y[slot] for every element == the INTENDED count"""
    macros = o["macros"]
    text = creader.strip_comments(o["physics"])
    m = re.search(r"double\s+GetElementAbund\s*\([^)]*\)\s*\{(.*?)\n\}", text, re.S)
    if not m:
        return "GetElementAbund not found"
    body = m.group(1)
    if any(n not in POOL for n in slot):
        return None        # (bundled networks: a species whose INTENDED composition the pool does not define; not judged here)
    byslot = {}
    for n, s in slot.items():
        byslot.setdefault(s, n)
    for mm in re.finditer(r"if\s*\(\s*elemidx\s*==\s*IDX_ELEM_(\w+)\s*\)\s*\{\s*return(.*?);\s*\}", body, re.S):
        el, expr = mm.group(1), mm.group(2)
        got = {}
        for t in re.finditer(r"([0-9.]+)\s*\*\s*y\[(IDX_\w+)\]", expr):
            if t.group(2) not in macros:
                return f"undefined macro {t.group(2)} in GetElementAbund"
            got[macros[t.group(2)]] = got.get(macros[t.group(2)], 0) + float(t.group(1))
        rest = re.sub(r"([0-9.]+)\s*\*\s*y\[(IDX_\w+)\]", "", expr)
        if re.sub(r"[\s+]|0\.0", "", rest):
            return f"unreadable GetElementAbund expression for {el}: {rest.strip()[:60]!r}"
        if el not in ELEMS:
            continue
        want = {s: POOL[n][0].get(el, 0) for s, n in byslot.items() if POOL[n][0].get(el, 0)}
        if {k: v for k, v in got.items() if v} != {k: float(v) for k, v in want.items()}:
            return f"element {el}: generated totals {got} != intended {want}"
    return None


# ------------------------------------------------------------------------------------------ case generation

NAMES_FOR_SLOTS = ["H", "C", "O", "He"]


def cases_from_tlc(ctx: Ctx, n: int) -> list[dict]:
    out = []
    for cfgname, num in (("MC_OdeGen_a.cfg", n), ("MC_OdeGen_b.cfg", n), ("MC_OdeGen_c.cfg", n // 2)):
        simdir = ctx.sub(f"sim_{cfgname}")
        res = run_tlc("MC_OdeGen.tla", cfgname, ctx.sub("meta") / f"sim_{cfgname}", workers=1,
                      extra=["-simulate", f"file={simdir}/b,num={num}", "-depth", "2", "-seed", str(ctx.seed + 11)])
        files = sorted(simdir.glob("b_*"))
        if not files:
            raise MachineryError("no simulated OdeGen behaviours\n" + res["out"][-1500:])
        seen = set()
        for f in files:
            N = sim_states(f, {"N"})[0]["N"]
            key = repr(N)
            if key in seen:
                continue
            seen.add(key)
            nm = NAMES_FOR_SLOTS[:N["n"]]
            reactions = [([nm[x] for x in R["r"]], [nm[x] for x in R["p"]]) for R in N["R"]]
            used = {x for r, p in reactions for x in r + p}
            desc = {"reactions": reactions, "required": [x for x in nm if x not in used], "origin": "tlc", "N": N}
            if N["M"]:
                om = {}
                for k, M in enumerate(N["M"]):
                    e = om.setdefault(nm[M["t"]], {"factors": [], "reactants": []})
                    e["factors"].append(f"fac{k} - 20.0 * Tgas" if k % 2 else f"10.0 * fac{k} - 2.0 * Tgas")   # (literals a text filter could mangle)
                    e["reactants"].append([nm[x] for x in M["d"]])
                desc["ode_modifier"] = om
            if N["H"]:
                desc["heating_user"] = [[nm[x] for x in h["r"]] for h in N["H"]]
            if N["C"]:
                desc["cooling_user"] = [[nm[x] for x in c["r"]] for c in N["C"]]
            out.append(desc)
    return out


def random_cases(rng: random.Random, n: int) -> list[dict]:
    out = []
    names = sorted(n_ for n_ in POOL if n_ not in NOT_DRAWN)
    while len(out) < n:
        pool = rng.sample(names, rng.randint(5, 14))
        if rng.random() < 0.6 and not (set(pool) & ELECTRONS):
            pool.append(rng.choice(sorted(ELECTRONS)))
        want_cool = rng.random() < 0.25
        if want_cool:
            for x in ("H", "H+", "He", "He+", "He++", "e-"):
                if x not in pool:
                    pool.append(x)
        reactions = []
        custom_pseudo = (PSEUDO + rng.choice([["XR"], ["UV", "QQ"], ["XR", "UV"]])) if rng.random() < 0.2 else None   # user-declared extras
        for _ in range(rng.randint(1, 8)):
            br = balanced_reaction(rng, pool)
            if br:
                r, p = br
                if rng.random() < (0.5 if custom_pseudo else 0.2):
                    r = r + [rng.choice(custom_pseudo[len(PSEUDO):] if custom_pseudo and rng.random() < 0.7 else PSEUDO)]
                reactions.append((r, p))
        if not reactions:
            continue
        if rng.random() < 0.25:     # shapes a balanced generator never produces: no product at all, four or five products, a triple reactant
            r = [rng.choice(pool)] * 3 if rng.random() < 0.3 else [rng.choice(pool) for _ in range(rng.randint(1, 3))]
            reactions.append((r, [rng.choice(pool) for _ in range(rng.choice([0, 0, 4, 5]))]))
        if rng.random() < 0.3:      # duplicate / permuted copy of a reaction
            r, p = rng.choice(reactions)
            reactions.append((rng.sample(r, len(r)), rng.sample(p, len(p))))
        used = {x for r, p in reactions for x in r + p if x not in (custom_pseudo or PSEUDO)}
        required = [x for x in rng.sample(pool, rng.randint(0, 2)) if x not in used]
        desc = {"reactions": reactions, "required": required, "origin": "random"}
        if custom_pseudo:
            desc["pseudo_elements"] = custom_pseudo
            desc["pseudo_prefixes"] = True
        if rng.random() < 0.4:      # indices as they come from files: 1-based, sparse, shared, some missing
            style = rng.choice(["one", "sparse", "shared"])
            n_r = len(reactions)
            desc["indices"] = {"one": list(range(1, n_r + 1)), "sparse": sorted(rng.sample(range(1, 9000), n_r)),
                               "shared": [rng.choice([7, 7, 12, 4000]) for _ in range(n_r)]}[style]
            keys = rng.sample(desc["indices"], rng.randint(1, min(2, n_r))) + ([99999] if rng.random() < 0.3 else [])
            desc["rate_modifier"] = {k: f"{1.5 + j}e-11 * sqrt(Tgas)" for j, k in enumerate(keys)}
        present = used | set(required)
        if want_cool:
            ok = [c for c, rs in COOLING_REACTANTS.items() if all(x in present for x in rs)]
            if ok:
                desc["cooling"] = rng.sample(ok, rng.randint(1, min(3, len(ok))))
        if rng.random() < 0.3:
            om = {}
            # a modifier names species by the spelling the network uses; with two spellings of the electron present the
            # network keeps one representative, so electrons are left out of modifiers in that case
            plist = sorted(x for x in present if not (x in ELECTRONS and len(present & ELECTRONS) > 1))
            for k in range(rng.randint(1, 2)):
                if not plist:
                    break
                t = rng.choice(plist)
                e = om.setdefault(t, {"factors": [], "reactants": []})
                deps = [rng.choice(plist) for _ in range(rng.choice([0, 1, 1, 2, 2, 3]))]
                e["factors"].append(rng.choice([f"mf{k}", f"-mf{k} + kads", f"2.0 * mf{k} - zeta / 3.0", f"-20.0 * mf{k}", f"100.0 * mf{k} + 0.0 * kads",
                                                # a NUMBER, not a text, with all its digits (the same number in the right-hand side and in the Jacobian)
                                                -1.23456789e-3 * (k + 1), 0.3333333333333333 + k]))
                e["reactants"].append(deps)
            desc["ode_modifier"] = om
        out.append(desc)
    # corner cases
    out.append({"reactions": [], "required": [], "origin": "empty"})
    out.append({"reactions": [], "required": ["H", "He"], "origin": "isolated-only"})
    out.append({"reactions": [(["H", "H"], ["H2"]), (["H2", "H"], ["H", "H", "H"]), (["H", "e-"], ["H+", "e-", "e-"]),
                              (["H2", "E"], ["H", "H", "E-"])], "required": ["He"], "origin": "catalysts"})
    return out


def bundled_cases() -> list[tuple[str, dict]]:
    data = REPO / "tests" / "data"
    return [("minimal.kida", dict(filelist=str(data / "minimal.kida"), fileformats="kida")),
            ("minimal.umist", dict(filelist=str(data / "minimal.umist"), fileformats="umist")),
            ("primordial.krome", dict(filelist=str(data / "primordial.krome"), fileformats="krome")),
            ("duplicate.kida", dict(filelist=str(data / "duplicate.kida"), fileformats="kida")),
            ("kida+umist", dict(filelist=[str(data / "minimal.kida"), str(data / "minimal.umist")], fileformats=["kida", "umist"])),
            ("rate12.umist", dict(filelist=str(data / "rate12.umist"), fileformats="umist"))]


FIELD_VALUES = {"nH": 1.0e4, "Tgas": 80.0, "zeta": 1.3e-17, "Av": 1.5, "omega": 0.5, "G0": 1.0, "rG": 1.0e-5, "gdens": 1.0e-8, "sites": 1.0e15, "fr": 1.0,
                "opt_thd": 1.0, "opt_crd": 1.0, "opt_uvd": 1.0, "opt_h2d": 1.0, "mu": 1.4, "gamma": 1.6666666666666667}


def runtime_agreement(ctx: Ctx, rng: random.Random, cases: list, first_tid: int):
    """compile the generated sources of the cvode-dense and the odeint back-end against the stand-ins and evaluate Fex / Jac at the same
    states (shim/rhs_driver.cpp): the two must agree entry by entry.  -> traces for Trace_OdeGen (event Runtime)"""
    import subprocess
    from common import SHIM, compile_cpp
    out = []
    for q, (desc, net, tr_net, names) in enumerate(cases):
        outs = {}
        neq = None
        net = build_network(desc)      # (re-installs the per-case heating / cooling tables the network's names refer to)
        for solver, method, flags in (("cvode", "dense", []), ("odeint", "rosenbrock4", ["-DODEINT"])):
            d = ctx.scratch / "rt_rhs" / f"{q}_{solver}"
            render(net, solver, method, d)
            fields = re.findall(r"^\s*(?:double|realtype)\s+(\w+)\s*(?:=[^;]*)?;", creader.strip_comments((d / "include/naunet_data.h").read_text()), re.M)
            # mean molecular weight and adiabatic index are OPTIONAL parameters (-1 = computed from the state): both given, only mu, only gamma
            fv = dict(FIELD_VALUES)
            if q % 3 == 1:
                fv["gamma"] = -1.0
            elif q % 3 == 2:
                fv["mu"] = -1.0
            (d / "include" / "set_fields.inc").write_text("".join(f"        data.{f} = {fv.get(f, 1.5)!r};\n" for f in fields))
            exe = ctx.scratch / f"rhsdrv_{q}_{solver}"
            srcs = [p_ for p_ in sorted((d / "src").glob("*.cpp")) if p_.name != "naunet_renorm.cpp" and p_.name != "naunet.cpp"]
            p = compile_cpp(srcs + [SHIM / "rhs_driver.cpp"], [SHIM / "include", d / "include"], exe, flags)
            if p.returncode != 0:
                outs = None
                ctx.notes.append(f"run-time agreement: {solver} sources of {desc.get('origin')} network do not compile against the stand-in: {p.stderr[-200:]}")
                break
            macros = creader.parse_macros((d / "include/naunet_macros.h").read_text())
            neq = macros["NEQUATIONS"]
            if "states" not in outs:
                sts = []
                for _ in range(3):
                    v = [rng.uniform(0.1, 5.0) for _ in range(neq)]
                    if macros.get("THERMAL"):
                        v[macros["IDX_TGAS"]] = rng.choice([35.0, 480.0, 7300.0])
                    sts.append(v)
                outs["states"] = sts
                (ctx.scratch / f"rhs_states_{q}.txt").write_text("\n".join(" ".join(repr(x) for x in v) for v in sts) + "\n")
            pr = subprocess.run([str(exe), str(ctx.scratch / f"rhs_states_{q}.txt")], capture_output=True, text=True, timeout=300)
            if pr.returncode != 0:
                if "SHIM:" in pr.stderr or "runtime error: index" in pr.stderr:      # a bounds check stopped the generated code: a finding, not a machinery failure
                    outs["aborted"] = f"{solver}: {pr.stderr.strip()[-200:]}"
                    break
                raise MachineryError(f"rhs driver failed ({solver}): {pr.stderr[-300:]}")
            rows = [json.loads(re.sub(r"-?\b(?:nan|inf)\b", "null", ln)) for ln in pr.stdout.splitlines() if ln.startswith("{")]
            outs[solver] = rows
        if not outs:
            continue
        if outs.get("aborted"):
            out.append({"tid": first_tid + len(out), "net": tr_net, "be": "runtime", "weights": [], "names": names, "mode": "runtime",
                        "ev": [{"k": "Runtime", "ydot_same": False, "jac_same": False}], "detail": outs["aborted"]})
            continue

        def same(a, b):
            return len(a) == len(b) and all((x is None and y is None) or (x is not None and y is not None and (x == y or abs(x - y) <= 1e-12 * max(abs(x), abs(y))))
                                            for x, y in zip(a, b))
        yd_same = all(same(a["ydot"], b["ydot"]) for a, b in zip(outs["cvode"], outs["odeint"]))
        jc_same = all(same(a["jac"], b["jac"]) for a, b in zip(outs["cvode"], outs["odeint"]))
        first = next(((i, a["ydot"], b["ydot"]) for i, (a, b) in enumerate(zip(outs["cvode"], outs["odeint"])) if not same(a["ydot"], b["ydot"])), None)
        out.append({"tid": first_tid + len(out), "net": tr_net, "be": "runtime", "weights": [], "names": names, "mode": "runtime",
                    "ev": [{"k": "Runtime", "ydot_same": bool(yd_same), "jac_same": bool(jc_same)}],
                    "detail": json.dumps({"first_difference": first, "states": outs["states"]})[:1500]})
    return out


# ------------------------------------------------------------------------------------------ main

def main(ctx: Ctx) -> int:
    import_naunet()
    pid = ctx.pid
    cov: dict = {"samples": []}
    # ---- (A)
    states = trans = 0
    cfgs = ["MC_OdeGen_a.cfg", "MC_OdeGen_b.cfg", "MC_OdeGen_c.cfg"] + ([] if ctx.quick else ["MC_OdeGen_t.cfg"])
    for cfg in cfgs:
        r = run_tlc("MC_OdeGen.tla", cfg, ctx.sub("meta") / cfg, workers=16, timeout=2400)
        require_clean_mc(r, cfg)
        if r["error"]:
            ctx.violation(f"{pid}|Design|{','.join(r['violated']) or 'error'}", f"TLC counterexample in OdeGen ({cfg})", {"tlc": r["out"][-5000:]})
        states += r["distinct"]
        trans += r["generated"]
    cov["states"], cov["transitions"] = states, trans

    rng = random.Random(ctx.seed)
    descs = cases_from_tlc(ctx, 60 if ctx.quick else 700)
    cov["tlc_chosen_networks"] = len(descs)
    descs += random_cases(rng, 50 if ctx.quick else 600)
    # targeted: distinct species whose identifiers differ only in letter case (Si -> SiI, S+ -> SII; SiO / SO; SiH / HS+)
    descs += [
        {"reactions": [(["Si", "O"], ["SiO"]), (["S+", "e-"], ["S"]), (["SiO", "S+"], ["SO+", "Si"]), (["Si+", "S"], ["Si", "S+"])], "required": [],
         "origin": "random"},
        {"reactions": [(["S+", "SiH"], ["HS+", "Si"]), (["Si+", "e-"], ["Si"]), (["S", "Si+"], ["S+", "Si"])], "required": ["SO"], "origin": "random"},
        # an ice species in two charge states, one converted into the other: two species, two slots, charge balanced
        {"reactions": [(["OH"], ["#OH"]), (["#OH", "e-"], ["#OH-"]), (["#OH-", "H+"], ["#OH", "H"]), (["H", "H"], ["H2"])], "required": [], "origin": "random"},
        {"reactions": [(["#OH-", "H+"], ["#OH", "H"]), (["#OH", "e-"], ["#OH-"]), (["#OH"], ["OH"])], "required": ["H2"], "origin": "random"},
        # the same molecule as an ice on TWO grain populations (#CO, #1CO): distinct species, each term goes to its own population's slot
        {"reactions": [(["CO"], ["#CO"]), (["CO"], ["#1CO"]), (["H"], ["#1H"]), (["H"], ["#H"]), (["#1H", "#1H"], ["H2"]), (["#1CO"], ["CO"]), (["#CO"], ["CO"]),
                       (["#H", "#H"], ["H2"])], "required": [], "origin": "random"},
        {"reactions": [(["H2O"], ["#1H2O"]), (["#1H2O"], ["H2O"]), (["H2O"], ["#H2O"]), (["#1H", "#CO"], ["H", "CO"]), (["#H", "#1CO"], ["H", "CO"])],
         "required": ["#H2O"], "origin": "random"},
        # a species name the element list cannot parse (Ti is not a default element): the network is refused -- never built without it
        {"reactions": [(["TiO", "H"], ["Ti", "OH"]), (["Ti", "H3+"], ["Ti+", "H2", "H"]), (["H", "H"], ["H2"])], "required": [], "unparseable": ["TiO", "Ti", "Ti+"],
         "origin": "random"},
        # several species that take part in nothing (consecutive empty Jacobian rows), with the pattern file
        {"reactions": [(["C", "O"], ["CO"]), (["CO", "He+"], ["C+", "O", "He"])], "required": ["N", "N2", "D"], "force_pattern": True, "origin": "random"},
        {"reactions": [(["H", "H"], ["H2"])], "required": ["He", "He+", "He++", "D"], "force_pattern": True, "origin": "random"},
        # a modifier that names a species the network does not hold, listed AFTER one it does hold: refused, or ignored -- never applied to another
        {"reactions": [(["H", "H"], ["H2"]), (["H2", "He+"], ["H", "H+", "He"]), (["H+", "e-"], ["H"])], "required": [],
         "ode_modifier": {"H2": {"factors": ["-mf0"], "reactants": [["H"]]}, "CO": {"factors": ["0.5 * mf1", "-kads"], "reactants": [["H"], ["H", "He"]]}},
         "absent_modifier_species": ["CO"], "origin": "random"},
        # a user-declared pseudo-reactant (not one of the built-in names)
        {"reactions": [(["H", "XR"], ["H+", "e-"]), (["H+", "e-"], ["H"]), (["He", "XR"], ["He+", "e-"]), (["He+", "e-", "UV"], ["He"])], "required": [],
         "pseudo_elements": PSEUDO + ["XR", "UV"], "pseudo_prefixes": True, "origin": "random"},
        # networks read from reaction files (native; KIDA + native): one to three reactants, up to FIVE products, a repeated reactant
        {"reactions": [(["H2", "O"], ["OH", "H"]), (["CH3OH", "He+"], ["CH", "OH", "H", "H", "He+"]), (["H", "H", "H"], ["H2", "H"]), (["OH", "H"], ["O", "H2"])],
         "required": [], "via_files": ["naunet"], "origin": "random"},
        {"reactions": [(["H2", "O"], ["OH", "H"]), (["CH3OH", "He+"], ["CH", "OH", "H", "H", "He+"]), (["H", "H", "H"], ["H2", "H"]),
                       (["CH3OH", "H+"], ["CH", "OH", "H", "H", "H+"]), (["OH", "H"], ["O", "H2"])],
         "required": ["He"], "via_files": ["kida", "naunet"], "origin": "random"},
        # a user element list that declares a generic metal `M` (a symbol the DEFAULT pseudo-element list also holds), no pseudo-element list
        {"reactions": [(["M", "H+"], ["M+", "H"]), (["M+", "e-"], ["M"]), (["H", "H"], ["H2"]), (["H+", "e-"], ["H"])], "required": [],
         "elements": ["e", "H", "He", "M"], "origin": "random"},
        # species declared as required although they also react (a user listing everything the cooling functions need)
        {"reactions": [(["He+", "e-"], ["He"]), (["He", "H+"], ["He+", "H"]), (["H+", "e-"], ["H"]), (["H", "H"], ["H2"])], "required": ["He++", "He+", "e-", "H2"],
         "origin": "random"},
        # a UMIST file: one or two reactants, up to FOUR products (every product column used)
        {"reactions": [(["H2", "O"], ["OH", "H"]), (["CH3OH", "H+"], ["CH", "OH", "H2", "H+"]), (["CH3OH", "He+"], ["CH2", "OH", "H", "He+"]), (["OH", "H"], ["O", "H2"])],
         "required": [], "via_files": ["umist"], "origin": "random"},
        # a UMIST file with SELF-reactions (the same species in both reactant columns) next to ordinary ones
        {"reactions": [(["OH", "OH"], ["H2O", "O"]), (["CH", "CH"], ["CH2", "C"]), (["OH", "H"], ["O", "H2"]), (["H", "H"], ["H2"]), (["C", "OH"], ["CO", "H"])],
         "required": [], "via_files": ["umist"], "origin": "random"},
        # a species on BOTH sides with different multiplicities (collisional ionisation and dissociation): not a catalyst, its net term stays
        {"reactions": [(["H", "e-"], ["H+", "e-", "e-"]), (["H2", "H"], ["H", "H", "H"]), (["H+", "e-"], ["H"]), (["H", "H", "H"], ["H2", "H"]),
                       (["H2", "e-"], ["H", "H", "e-"]), (["He", "e-"], ["He+", "e-", "e-"])], "required": [], "origin": "random"},
        # a KROME file in the default column layout, read after another KROME file with its own layout was aborted at a bad line
        {"reactions": [(["H", "H", "H"], ["H2", "H"]), (["H2", "He+"], ["H", "H+", "He"]), (["H+", "e-"], ["H"]), (["He+", "e-"], ["He"])],
         "required": [], "via_files": ["krome"], "after_failed_krome": True, "origin": "random"},
        # an element represented by a species that is not spelled like it (the less connected O* precedes O in the species order)
        {"reactions": [(["O*", "H2"], ["OH", "H"]), (["O", "H2"], ["OH", "H"]), (["OH", "H"], ["O", "H2"]), (["O", "H"], ["OH"]), (["CO", "He+"], ["C+", "O", "He"])],
         "required": [], "origin": "random"},
    ]
    # bundled networks (thorough): reactions and species as the real readers decoded them (decoding itself is C07's subject)
    prebuilt = {}
    if True:
        from naunet.network import Network
        import naunet.network as nn
        import naunet.thermalprocess as tp
        nn.get_allowed_heating, nn.get_allowed_cooling = tp.get_allowed_heating, tp.get_allowed_cooling
        for label, kw in bundled_cases():
            if ctx.quick and label not in ("minimal.kida", "kida+umist"):      # quick: one bundled file and one network merged from two formats
                continue
            try:
                bnet = Network(**kw)
            except Exception as e:   # noqa
                ctx.notes.append(f"bundled network {label} could not be read: {type(e).__name__}")
                continue
            if len(bnet.reaction_list) > 400:
                # RATE12 (6173 reactions): one trace of that size exhausts TLC's heap; its statements are still covered by C10 / C17
                ctx.notes.append(f"bundled network {label} ({len(bnet.reaction_list)} reactions) is too large for trace validation and is skipped")
                continue
            desc = {"reactions": [([x.name for x in rr.reactants], [x.name for x in rr.products]) for rr in bnet.reaction_list], "required": [],
                    "origin": f"bundled {label}"}
            prebuilt[len(descs)] = bnet
            descs.append(desc)
        cov["bundled_networks"] = len(prebuilt)
    if pid == "C03":
        # the matrix as the linear solver sees it over the object's whole life (Init / Reset / Solve / Finalize): Lifecycle.tla
        import lifecycle
        plain = [d for d in descs if d.get("origin") == "random" and not any(d.get(k) for k in ("cooling", "heating_user", "cooling_user", "ode_modifier", "rate_modifier"))
                 and 2 <= len(d["reactions"]) <= 6]
        lnets = []
        for d in plain[: (2 if ctx.quick else 6)]:
            try:
                # the whole project is compiled here: every element gets its atom as a declared species, so that the abundance
                # renormalisation routine (C16's subject, known finding element-without-atom) is well-formed
                used = {x for r, p in d["reactions"] for x in r + p if x in POOL} | {x for x in d.get("required", []) if x in POOL}
                atoms = sorted({el for x in used for el in POOL[x][0]})
                d2 = dict(d, required=list(d.get("required", [])) + [a for a in atoms if a not in used and a not in d.get("required", [])])
                lnets.append((str(d["reactions"])[:120], build_network(d2)))
            except Exception:   # noqa  (reported by the main loop below)
                pass
        cov.update(lifecycle.run(ctx, rng, lnets, pid))
    # second pass: the first networks once more at the end of the run (same process, same loader objects)
    descs += [dict(d_) for ci_, d_ in enumerate(descs[:6]) if ci_ not in prebuilt]
    traces, meta = [], {}
    rt_cases: list = []
    tid = 0
    malformed = 0
    # every 7th generated network is rendered TWICE with the same loader objects: first without its last reaction, then -- after
    # add_reaction on the SAME Network object -- complete; the second rendering is the one that is read back and judged
    grown = {ci for ci, d in enumerate(descs) if ci % 7 == 3 and ci not in prebuilt and len(d["reactions"]) >= 2 and not d.get("rate_modifier")
             and not d.get("ode_modifier") and not d.get("indices") and not d.get("cooling") and not d.get("heating_user") and not d.get("cooling_user")}
    # (thermal processes are only selectable while their species are present: the shortened network may not serve them)
    for ci in grown:      # the reaction that is added later brings a NEW species whenever the network allows it (sizes change, not only terms)
        rs = descs[ci]["reactions"]
        for j, (r_, p_) in enumerate(rs):
            others = {x for k2, (a_, b_) in enumerate(rs) if k2 != j for x in a_ + b_}
            if set(r_ + p_) - others:
                descs[ci] = dict(descs[ci], reactions=rs[:j] + rs[j + 1:] + [rs[j]])
                break
    cov["rendered_again_after_an_edit"] = len(grown)
    for ci, desc in enumerate(descs):
        try:
            if ci in grown:
                from naunet.reactions.reaction import Reaction
                from naunet.reactiontype import ReactionType
                net = build_network(dict(desc, reactions=desc["reactions"][:-1]))
                observe(ctx, net, dict(desc, reactions=desc["reactions"][:-1]), 100000 + ci, with_pattern=False)
                r_, p_ = desc["reactions"][-1]
                net.add_reaction(Reaction(list(r_), list(p_), alpha=1.0e-10 * len(desc["reactions"]), reaction_type=ReactionType.GAS_TWOBODY))
            else:
                net = prebuilt.get(ci) or build_network(desc)
            if desc.get("elements") is not None and ci not in prebuilt:
                # every name of the description that is not a declared marker is a species the network must hold (a name that silently
                # vanishes from its reactions unbalances them without any reaction being "wrong")
                from naunet.species import Species as _Sp
                markers = set(desc.get("pseudo_elements") or [])
                wanted = sorted({x for r_, p_ in desc["reactions"] for x in r_ + p_ if x not in markers})
                lost = [x for x in wanted if not any(sp_ == _Sp(x) for sp_ in net.species)]
                if lost and pid in ("C01", "C04"):
                    ctx.violation(f"{pid}|SpeciesDroppedFromReactions|build", f"a network built with the element list {desc['elements']} and the pseudo-element list "
                                  f"{sorted(markers)} lost the species {lost} of its reactions {desc['reactions'][:4]}: held {sorted(x.name for x in net.species)}",
                                  {"desc": {k: v for k, v in desc.items() if k != 'N'}})
                    continue
            if desc.get("unparseable"):
                held = sorted(x.name for x in net.species)
                if pid in ("C01", "C04"):
                    ctx.violation(f"{pid}|UnparseableSpeciesDropped|build", f"a network naming {desc['unparseable']} (not parseable with the default element list) was built "
                                  f"with species {held}: the reactions lost those species silently", {"desc": {k: v for k, v in desc.items() if k != 'N'}})
                continue
            obs = observe(ctx, net, desc, ci, with_pattern=(ci % 3 == 0 or bool(desc.get("force_pattern"))))
        except Exception as e:   # noqa
            if desc.get("unparseable"):
                cov["refused_unparseable_species"] = cov.get("refused_unparseable_species", 0) + 1
                continue
            if desc.get("absent_modifier_species"):
                cov["refused_modifier_for_absent_species"] = cov.get("refused_modifier_for_absent_species", 0) + 1
                continue          # a refusal is what the property allows here
            ctx.violation(f"{pid}|Render|{type(e).__name__}", f"rendering raised {type(e).__name__}: {e} for {desc.get('origin')} network "
                          f"{desc['reactions'][:4]}", {"desc": {k: v for k, v in desc.items() if k != 'N'}})
            continue
        cellsets = {}
        cellvalues: dict = {}
        for tag, o in obs.items():
            bad = False
            for part, clause in (("fex_error", "MalformedFex"), ("jac_error", "MalformedJac")):
                if part in o:
                    bad = True
                    malformed += 1
                    if CLAUSE_PROP[clause] == pid or (pid == "C13" and desc.get("ode_modifier") and clause == "MalformedFex"):
                        feat = "modifier" if desc.get("ode_modifier") else "plain"
                        ctx.violation(f"{pid}|{clause}|{feat}", f"{tag}: emitted statement is not well-formed C of the expected shape: {o[part][:300]}",
                                      {"desc": {k: v for k, v in desc.items() if k != 'N'}, "backend": tag, "error": o[part]})
            if bad:
                continue
            tid += 1
            try:
                tr, slot = make_trace(tid, desc, tag, o, [], net.species)
            except CaseError as e:
                if CLAUSE_PROP.get(e.clause) == pid:
                    ctx.violation(f"{pid}|{e.clause}|{tag}", e.msg, {"desc": {k: v for k, v in desc.items() if k != 'N'}})
                continue
            observed = tr.pop("observed")
            if pid in ("C01", "C02") and tag == "dense" and ci not in prebuilt and not desc.get("ode_modifier"):
                thermal = bool(desc.get("cooling") or desc.get("cooling_user") or desc.get("heating_user"))
                have_t = sum(1 for c in rt_cases if c[5])
                if (thermal and have_t < (3 if ctx.quick else 20)) or (not thermal and ci % 9 == 0 and len(rt_cases) - have_t < (1 if ctx.quick else 8)):
                    rt_cases.append((desc, net, tr["net"], tr["names"], ci, thermal))
            if pid != "C04":
                traces.append(tr)
                meta[tid] = (ci, tag)
            if pid in ("C02", "C04"):
                tid += 1
                traces.append({"tid": tid, "net": tr["net"], "be": tag, "weights": tr["weights"], "ev": [observed], "names": tr["names"], "mode": "observe"})
                meta[tid] = (ci, tag)
            if pid == "C03":
                # the structural facts on their own: a term-level mismatch earlier in the conformance trace must not hide them
                # ... and, cell by cell, the VALUE this back-end stores against the value the first back-end (dense) stores: the signed
                # monomials per rate symbol and whether the temperature-row wrapper is around them
                value = (sorted((j[0], j[1], j[2], j[3], j[4], tuple(sorted(j[5]))) for j in observed["jac"]),
                         sorted(map(tuple, tr["ev"][-1]["wrapped_cells"])))
                ref = cellvalues.setdefault("ref", value)
                tid += 1
                traces.append({"tid": tid, "net": tr["net"], "be": tag, "weights": tr["weights"],
                               "ev": [dict(tr["ev"][-1], k="Structure", same_values=(value == ref))], "names": tr["names"], "mode": "structure"})
                meta[tid] = (ci, tag)
            cellsets[tag] = (sorted(map(tuple, tr["ev"][-1]["cells"])), tr)
            if pid == "C04" and tag == "dense":
                msg = element_table_check(desc, o, slot)
                if msg:
                    ctx.violation("C04|ElementTotals|GetElementAbund", msg, {"desc": {k: v for k, v in desc.items() if k != 'N'}})
        if pid == "C03" and len({tuple(v[0]) for v in cellsets.values()}) > 1:
            ctx.violation("C03|BackendsAgree|cells", f"back-ends assign different Jacobian cells: { {k: len(v[0]) for k, v in cellsets.items()} }",
                          {"desc": {k: v for k, v in desc.items() if k != 'N'}})
    if rt_cases:
        rt = runtime_agreement(ctx, rng, [c[:4] for c in rt_cases], tid + 1)
        for t2, c in zip(rt, rt_cases):      # (a case whose sources did not compile is dropped inside: align by order only when none was)
            meta[t2["tid"]] = (c[4], "cvode-dense vs odeint at run time")
        if len(rt) != len(rt_cases):
            for t2 in rt:
                meta[t2["tid"]] = (rt_cases[0][4], "cvode-dense vs odeint at run time")
        traces += rt
        cov["networks_compared_at_run_time"] = len(rt)
    v = validate_traces(ctx, "Trace_OdeGen.tla", "Trace_OdeGen.cfg", traces, "ode", chunk=600, timeout=3000)
    cov["traces_validated_against_impl"] = len(traces)
    cov["traces_accepted"] = v["accepted"]
    cov["trace_states"] = v["states"]
    cov["networks"] = len(descs)
    cov["malformed_statements"] = malformed
    bytid = {t["tid"]: t for t in traces}
    mine = other = 0
    sib: dict = {}
    for t, rj in sorted(v["rejected"].items()):
        clause = (rj["clauses"] or ["NoEnabledAction"])[0]
        # (the invariants of one state are judged independently of each other: the one this property owns, if it is among the failed)
        clause = next((c_ for c_ in rj["clauses"] if c_.startswith("Inv:") and CLAUSE_PROP.get(c_, "C01") == pid), clause)
        tr = bytid[t]
        at = max(1, min(rj["at"], len(tr["ev"])))
        evk = tr["ev"][at - 1]["k"]
        prop = CLAUSE_PROP.get(clause, "C01")
        if clause in ("TermsOnlyInRange", "BatchStrideIsSystemSize") and pid in ("C01", "C02", "C03"):
            # a term on an equation / cell outside the network's own species is wrong for the right-hand side (C01), for the Jacobian
            # (C02) and for the declared sizes (C03) alike: it is reported by whichever of them is being checked
            prop = pid
        if evk == "Modifier" and clause == "RhsTerms":
            prop = "C13"
        if evk == "Modifier" and clause == "JacTerms" and pid == "C13":
            prop = "C13"      # the derivative terms a modifier contributes belong to the named species' row too (C02 reports them as well)
        if clause == "NoStrayTerms" and pid == "C13" and descs[meta[t][0]].get("ode_modifier"):
            prop = "C13"      # an emitted term no reaction / modifier of the model accounts for, in a network that HAS modifiers
        if prop != pid:
            other += 1
            sib[f"{prop}:{clause}"] = sib.get(f"{prop}:{clause}", 0) + 1
            continue
        mine += 1
        ci, tag = meta[t]
        desc = descs[ci]
        ndeps = max([len(m["d"]) for m in tr["net"]["M"]] or [0])
        feat = f"event={evk}" + (f",deps={ndeps}" if evk == "Modifier" else "")
        ctx.violation(f"{pid}|{clause}|{feat}", f"{tag}: {desc.get('origin')} network {desc['reactions'][:5]} rejected at event {at} ({evk}) "
                      f"clauses {rj['clauses']}", {"desc": {k: v2 for k, v2 in desc.items() if k != 'N'}, "backend": tag, "trace": tr,
                                                  "rejected_at": at, "clauses": rj["clauses"]})
    cov["rejections_of_this_property"] = mine
    cov["rejections_of_sibling_properties"] = other
    cov["sibling_clauses"] = sib
    if traces:
        t = traces[len(traces) // 2]
        cov["samples"].append({"backend": t["be"], "net": t["net"], "names": t["names"], "first_events": t["ev"][:2]})
    cov["rule"] = ("networks = TLC-chosen abstract networks (repeated reactants, 0-2 products, modifiers with 0-3 dependencies, thermal rows) "
                   "+ random balanced real-species networks + corner cases, each rendered for dense/sparse/cusparse/odeint; "
                   "non-trivial = at least one reaction")
    cov["exhaustive"] = False
    return finish(ctx, "model_checking", cov, [
        "the strict C reader (harness/creader.py) is trusted to mean what a C compiler means for the statement shapes it accepts",
        "name -> slot binding goes through the real Species.alias and the emitted IDX_ macros (alias validity/injectivity is C09)",
        "cusparse output is read as text only; rate coefficients are symbols (held fixed), as the property states",
    ])

#!/bin/sh
# usage: mutant_test.sh <patch.diff> <Cxx> [tier]   — applies the patch to a scratch copy of /repo (never /repo itself),
# runs the check against it with evidence redirected, prints the outcome, removes the copy.
set -u
patch="$1"; pid="$2"; tier="${3:-quick}"
d=$(mktemp -d /tmp/mt_XXXXXX)
rsync -a --exclude .git --exclude '__pycache__' /repo/ "$d/repo/"
if ! (cd "$d/repo" && patch -p1 -s < "$patch"); then echo "PATCH-FAILED $patch"; rm -rf "$d"; exit 3; fi
mkdir -p "$d/ev"
NAUNET_REPO="$d/repo" NAUNET_EVIDENCE_DIR="$d/ev" /verif/check "$pid" --tier "$tier" > "$d/out.txt" 2>&1
rc=$?
echo "== $patch on $pid: rc=$rc"
grep -E "^(VIOLATION|KNOWN-FINDING|MACHINERY)|signature:" "$d/out.txt" | head -12
[ $rc -eq 2 ] && tail -15 "$d/out.txt"
rm -rf "$d"
exit $rc

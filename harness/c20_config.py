"""C20 — project configuration round trip: what is configured is what is rendered (ConfigRoundTrip.tla).

(A) TLC: all option vectors with <= 2 tokens per option over the token shapes {plain, padded, inner blank, empty} through
    InitParse -> Content -> RenderRead: the description reaching Network(...) is the normalised request.
(B-D) `naunet init <options> --render` runs in scratch projects (KIDA, UCLCHEM + rr07x with binding / yield / shielding /
    modifiers, KROME + cooling, upper-case element list with replacement; three solver/method choices); the written TOML and the
    keyword arguments captured at Network(...) / TemplateLoader(...) are decoded into token ids and judged by
    Trace_ConfigRoundTrip.tla; the rendered tree is compared byte for byte with the equivalent API rendering."""
from __future__ import annotations

import hashlib
import os
import random
import re
import shutil
from pathlib import Path

import tomlkit

from common import Ctx, MachineryError, REPO, finish, import_naunet, quiet, require_clean_mc, run_tlc, validate_traces
import c10_symbols
import c17_globals

LIST_OPTS = {"elements": "elements", "pseudo_elements": "pseudo-elements", "allowed": "allowed-species", "required": "extra-species",
             "files": "network-files", "formats": "file-formats", "heating": "heating", "cooling": "cooling"}
TABLE_OPTS = {"replacement": ("element-replacement", ":"), "binding": ("binding", "="), "yield": ("yield", "="), "shielding": ("shielding", ":"),
              "rate_modifier": ("rate-modifier", ":")}
SCALARS = {"surface": "surface-prefix", "bulk": "bulk-prefix", "grain": "grain-symbol", "grain_model": "grain-model", "solver": "solver",
           "device": "device", "method": "method"}


def projects(d: Path):
    data = REPO / "tests" / "data"
    (d / "gas.ucl").write_text(c10_symbols.ucl_text())
    shutil.copy(data / "minimal.kida", d / "minimal.kida")
    shutil.copy(data / "primordial.krome", d / "primordial.krome")
    (d / "up.naunet").write_text("\n".join([
        c17_globals.native_line(1, ["H", "H"], ["H2"]), c17_globals.native_line(2, ["HE+", "E-"], ["HE"]), c17_globals.native_line(3, ["C", "O"], ["CO"]),
        c17_globals.native_line(4, ["HE+", "CO"], ["C+", "O", "HE"])]) + "\n")
    import encoders
    R = c10_symbols.rec
    up = [R(["H", "H2"], ["H", "H", "H"], "MA"), R(["HE+", "E-"], ["HE"], "MA"), R(["HCL"], ["#HCL"], "FREEZE"), R(["#HCL"], ["HCL"], "THERM"),
          R(["#HCL"], ["HCL"], "DEUVCR"), R(["#HCL"], ["HCL"], "DESCR"), R(["CO"], ["#CO"], "FREEZE"), R(["#CO"], ["CO"], "THERM"), R(["H", "CL"], ["HCL"], "MA"),
          R(["C", "O"], ["CO"], "MA"), R(["HE"], ["HE+", "E-"], "CRP")]
    (d / "up.ucl").write_text("\n".join(encoders.uclchem(x) for x in up) + "\n")
    gl = [R(["H", "H"], ["H2"], 1, a=6.59e-11), R(["GRAIN0", "e-"], ["GRAIN-"], 20, a=1.0), R(["C+", "GRAIN-"], ["C", "GRAIN0"], 6, a=1.0),
          R(["CO"], ["GCO"], 7, a=1.0), R(["GCO"], ["CO"], 8, a=1.0)]
    (d / "grain.leeds").write_text("\n".join(encoders.leeds(dict(x, tmin=5.0, tmax=41000.0)) for x in gl) + "\n")
    from naunet.species import Species
    de, dp = list(Species.default_elements), list(Species.default_pseudoelements)
    return [
        dict(name="ucl", elements=de, pseudo_elements=dp, replacement=[], allowed=[], required=["He"], files=["gas.ucl"], formats=["uclchem"],
             heating=[], cooling=[], binding=[("#CO", "1234.5"), ("#H", "650.0")], yields=[("#CO", "0.002")], shielding=[("CO", "VB88Table")],
             rate_modifier=[("2", "1.0e-9 * zeta")], ode_modifier=[("H2", "-2.0*H2formation", ["H", "H"]), ("H", "0.5*k[1]", ["H2"])], grain_model="rr07x",
             surface="#", bulk="@", grain="GRAIN"),
        dict(name="kida", elements=de, pseudo_elements=dp, replacement=[], allowed=["C", "CH", "H", "C2", "CH2"], required=["CH2"], files=["minimal.kida"],
             formats=["kida"], heating=[], cooling=[], binding=[], yields=[], shielding=[], rate_modifier=[("6599", "4.2e-10"), ("4894", "0.0")],
             ode_modifier=[], grain_model="", surface="#", bulk="B", grain="GRAIN"),
        dict(name="krome", elements=de, pseudo_elements=dp, replacement=[], allowed=[], required=[], files=["primordial.krome"], formats=["krome"],
             heating=[], cooling=["CIC_HI", "RC_HII"], binding=[], yields=[], shielding=[], rate_modifier=[], ode_modifier=[], grain_model="",
             surface="#", bulk="@", grain="GRAIN"),
        dict(name="upper", elements=["E", "H", "HE", "C", "O"], pseudo_elements=["CR", "CRP", "PHOTON"], replacement=[("HE", "He"), ("E", "e")],
             allowed=[], required=[], files=["up.naunet"], formats=["naunet"], heating=[], cooling=[], binding=[], yields=[], shielding=[],
             rate_modifier=[("3", "2.0e-10 * sqrt(Tgas)")], ode_modifier=[("HE", "1.0e-15*nH", ["HE+"]), ("H2", "-2.0e-16*nH", ["H", "H"])], grain_model="",
             surface="#", bulk="@", grain="GRAIN"),
        # upper-case convention with a replacement table AND per-species tables keyed by names that contain replaced elements
        dict(name="upperice", elements=["E", "H", "HE", "C", "O", "CL"], pseudo_elements=["CR", "CRP", "PHOTON", "CRPHOT"], replacement=[("HE", "He"), ("CL", "Cl")],
             allowed=[], required=[], files=["up.ucl"], formats=["uclchem"], heating=[], cooling=[], binding=[("#HCL", "4321.0"), ("#CO", "1234.5")],
             yields=[("#HCL", "0.003")], shielding=[], rate_modifier=[], ode_modifier=[], grain_model="rr07x", surface="#", bulk="@", grain="GRAIN"),
        # photodesorption yields given WITHOUT binding energies
        dict(name="yieldonly", elements=de, pseudo_elements=dp, replacement=[], allowed=[], required=[], files=["gas.ucl"], formats=["uclchem"], heating=[], cooling=[],
             binding=[], yields=[("#CO", "0.0027"), ("#H", "0.0013")], shielding=[], rate_modifier=[], ode_modifier=[], grain_model="rr07x", surface="#", bulk="@",
             grain="GRAIN"),
        # an INDEXED file (KIDA) next to an UNINDEXED one (UCLCHEM), with rate modifiers keyed by the indexed file's numbers
        dict(name="mixedidx", elements=de, pseudo_elements=dp, replacement=[], allowed=[], required=[], files=["minimal.kida", "gas.ucl"], formats=["kida", "uclchem"],
             heating=[], cooling=[], binding=[], yields=[], shielding=[], rate_modifier=[("6599", "4.2e-10"), ("4894", "1.0e-9 * zeta")], ode_modifier=[],
             grain_model="rr07x", surface="#", bulk="@", grain="GRAIN"),
        # explicit grain species (GRAIN0, GRAIN-) and a Leeds-spelled ice
        dict(name="leedsgrain", elements=de, pseudo_elements=dp, replacement=[], allowed=[], required=[], files=["grain.leeds"], formats=["leeds"], heating=[],
             cooling=[], binding=[], yields=[], shielding=[], rate_modifier=[], ode_modifier=[], grain_model="hh93", surface="G", bulk="@", grain="GRAIN"),
    ]


MODIFIERS_ONLY = False      # set by c13_modifiers: only the projects that carry rate / ODE modifiers, only the init -> TOML -> render stages


def tree_hash(d: Path):
    out = {}
    for sub in ("include", "src", "python"):
        for p in sorted((d / sub).rglob("*")):
            if p.is_file():
                txt = p.read_bytes()
                if p.name == "CMakeLists.txt":       # the project version is the rendering month
                    txt = re.sub(rb"VERSION \S+", b"VERSION V", txt)
                out[str(p.relative_to(d))] = hashlib.sha256(txt).hexdigest()
    return out


def main(ctx: Ctx) -> int:
    import_naunet()
    import naunet.network as nn
    from naunet import chemistrydata
    from naunet.species import Species
    from naunet.templateloader import TemplateLoader
    from cleo.application import Application
    from cleo.testers.command_tester import CommandTester
    from naunet.console.commands.init import InitCommand
    from naunet.console.commands.render import RenderCommand
    cov: dict = {"samples": []}
    r = run_tlc("MC_ConfigRoundTrip.tla", "MC_ConfigRoundTrip.cfg", ctx.sub("meta") / "mc", workers=8)
    require_clean_mc(r, "MC_ConfigRoundTrip")
    if r["error"]:
        ctx.violation(f"C20|Design|{','.join(r['violated'])}", "TLC counterexample in ConfigRoundTrip", {"tlc": r["out"][-3000:]})
    c = ctx.scratch / "v.cfg"
    c.write_text(open("/verif/spec/MC_ConfigRoundTrip.cfg").read().replace('"asis"', '"bulk_key_typo"'))
    rv = run_tlc("MC_ConfigRoundTrip.tla", str(c), ctx.sub("meta") / "v", workers=2)
    if "RoundTripId" not in rv["violated"]:
        raise MachineryError("design variant bulk_key_typo not caught")
    c.write_text(open("/verif/spec/MC_ConfigRoundTrip.cfg").read().replace('"asis"', '"numbers_shortened"'))
    rv = run_tlc("MC_ConfigRoundTrip.tla", str(c), ctx.sub("meta") / "v2", workers=2)
    if "RoundTripId" not in rv["violated"]:
        raise MachineryError("design variant numbers_shortened not caught")
    cov["design_variants_caught"] = 2
    cov["states"], cov["transitions"] = r["distinct"], r["generated"]

    rng = random.Random(ctx.seed)
    app = Application()
    app.add(InitCommand())
    app.add(RenderCommand())
    cwd0 = os.getcwd()
    traces = []
    solvers = [("cvode", "dense"), ("cvode", "sparse"), ("odeint", "rosenbrock4")]
    nrun = 16 if ctx.quick else 96
    if MODIFIERS_ONLY:
        nrun = 8 if ctx.quick else 24
    # the PYTHON entry (DirectWrite): the configuration file is written by BaseConfiguration(...).content from values -- no splitting, no
    # stripping -- and rendered by `naunet render --force`; numeric rate coefficients are given as NUMBERS with all their digits
    ndirect = (4 if ctx.quick else 12) if MODIFIERS_ONLY else (5 if ctx.quick else 16)
    from naunet.configuration import BaseConfiguration

    def isnum(x):
        return isinstance(x, (int, float)) and not isinstance(x, bool)

    def canon(x):
        return repr(float(x)) if isnum(x) else str(x)
    for k0 in range(nrun + ndirect):
        direct = k0 >= nrun
        k = k0 - nrun if direct else k0
        d = ctx.sub("proj") / str(k0)
        d.mkdir()
        if direct:
            withmods = [b for b in projects(d) if b["rate_modifier"]]
            base = dict(withmods[k % len(withmods)])
            solver, method = solvers[(k // len(withmods)) % 3]
            nums = [1.2345678e-10, 12345678, 7, 0.0, 3.14159265358979e-9, 2.5e-10, 6.02214076e3, 1e-300]
            base["rate_modifier"] = [(key, nums[(k + n_) % len(nums)] if re.fullmatch(r"[-+0-9.eE]+", val) or (k + n_) % 3 == 0 else val)
                                     for n_, (key, val) in enumerate(base["rate_modifier"])]
        elif MODIFIERS_ONLY:
            withmods = [b for b in projects(d) if b["rate_modifier"] or b["ode_modifier"]]
            base = withmods[k % len(withmods)]
            solver, method = solvers[(k // len(withmods)) % 3]
        else:
            base = projects(d)[k % 8]
            solver, method = solvers[(k // 8) % 3]
        # --- tokens with shapes
        ids: dict = {}

        def tid_of(opt, s):
            m = ids.setdefault(opt, {})
            return m.setdefault(s, len(m) + 1)

        def shaped(opt, items, sep_ok=True):
            toks, raw = [], []
            for s in items:
                shape = "plain" if direct else rng.choice(["plain", "plain", "padded"])
                toks.append({"shape": shape, "id": tid_of(opt, s)})
                raw.append(f"  {s} " if shape == "padded" else s)
                if not direct and rng.random() < 0.15:
                    toks.append({"shape": "empty", "id": 0})
                    raw.append("")
            return toks, raw
        req, cli = {}, []
        for opt, cname in LIST_OPTS.items():
            toks, raw = shaped(opt, base[{"allowed": "allowed", "required": "required"}.get(opt, opt)])
            req[opt] = toks
            cli.append(f"--{cname}='{','.join(raw)}'")
        for opt, (cname, sep) in TABLE_OPTS.items():
            items = base[{"yield": "yields"}.get(opt, opt)]
            toks, raw = [], []
            for key, val in items:
                if isnum(val):
                    toks.append({"shape": "number", "id": tid_of(opt, f"{key}={canon(val)}")})
                    raw.append(f"{key}{sep}{val!r}")
                    continue
                s = f"{key}{sep}{val}"
                inner = " " in val
                # a table entry may be typed with blanks around the key, the separator and the value (`CO : VB88Table`): the same entry
                pad = not direct and ((k // 8) % 2 == 1 or rng.random() < 0.3)
                if pad:
                    s = rng.choice([f"{key} {sep} {val}", f" {key}{sep} {val} ", f"{key} {sep}{val}"])
                toks.append({"shape": "inner" if inner else ("padded" if pad else "plain"), "id": tid_of(opt, f"{key}={val}")})
                raw.append(s)
            req[opt] = toks
            if opt == "rate_modifier":
                cli += [f"--{cname}='{x}'" for x in raw] or []
            else:
                cli.append(f"--{cname}='{','.join(raw)}'")
        for opt, cname in SCALARS.items():
            val = {"solver": solver, "device": "cpu", "method": method}.get(opt, base.get(opt, ""))
            req[opt] = [{"shape": "plain", "id": tid_of(opt, val)}]
            cli.append(f"--{cname}='{val}'" if val != "" else f"--{cname}=null")
        # ODE modifiers as tokens: one per (species, position among that species' modifiers) = factor text and dependency list, repeats kept
        def om_items(table: dict):
            return {f"{sp}#{n_}": f"{str(f_).strip()}|{' '.join(dp_)}" for sp, ex in table.items()
                    for n_, (f_, dp_) in enumerate(zip(list(ex.get("factors", [])), [list(x) for x in ex.get("reactants", [])]))}
        om_req = {}
        for kk, fact, deps in base["ode_modifier"]:
            om_req.setdefault(kk, {"factors": [], "reactants": []})
            om_req[kk]["factors"].append(fact)
            om_req[kk]["reactants"].append(list(deps))
        req["ode_modifier"] = [{"shape": "inner" if " " in v3 else "plain", "id": tid_of("ode_modifier", f"{k3}={v3}")} for k3, v3 in om_items(om_req).items()]
        oms = [f"{kk}:{fact},[{' '.join(deps)}]" for kk, fact, deps in base["ode_modifier"]]
        if len(oms) > 1 and (k // 8) % 2 == 1:
            # the option may be given several times, each value a ';'-separated list that may end with ';' (the form `naunet example` writes)
            omopts = [f"--ode-modifier='{x};'" for x in oms]
        else:
            omopts = [f"--ode-modifier='{';'.join(oms)}'"] if oms else []
        cli += [f"--name={base['name']}", "--description=desc", "--loading=null", *omopts, "--render", "--render-force"]
        # --- run the command line, capturing what reaches Network(...) / TemplateLoader(...)
        Species.reset()
        chemistrydata.user_binding_energy.clear()
        chemistrydata.user_photon_yield.clear()
        captured = {}
        orig_net, orig_tl = nn.Network.__init__, TemplateLoader.__init__

        def net_init(self, *a, **kw):
            captured.setdefault("net", dict(kw))
            return orig_net(self, *a, **kw)

        def tl_init(self, *a, **kw):
            captured.setdefault("tl", dict(kw, _args=a))
            return orig_tl(self, *a, **kw)
        nn.Network.__init__, TemplateLoader.__init__ = net_init, tl_init
        os.chdir(d)
        ok_init = ok_render = True
        err = ""
        try:
            if direct:
                conf0 = BaseConfiguration(base["name"], description="desc", element=list(base["elements"]), pseudo_element=list(base["pseudo_elements"]),
                                          replacement=dict(base["replacement"]), allowed_species=list(base["allowed"]), required_species=list(base["required"]),
                                          species_kwargs={"grain_symbol": base["grain"], "surface_prefix": base["surface"], "bulk_prefix": base["bulk"]},
                                          binding_energy={k2: float(v2) for k2, v2 in base["binding"]}, photon_yield={k2: float(v2) for k2, v2 in base["yields"]},
                                          filenames=list(base["files"]), formats=list(base["formats"]), heating=list(base["heating"]), cooling=list(base["cooling"]),
                                          shielding=dict(base["shielding"]), grain_model=base["grain_model"], rate_modifier={str(k2): v2 for k2, v2 in base["rate_modifier"]},
                                          ode_modifier={k3: {"factors": list(v3["factors"]), "reactants": [list(x) for x in v3["reactants"]]} for k3, v3 in om_req.items()},
                                          solver=solver, device="cpu", method=method)
                (d / "naunet_config.toml").write_text(conf0.content, encoding="utf-8")
                tester = CommandTester(app.find("render"))
                with quiet():
                    rc = tester.execute("--force", interactive=False)
            else:
                tester = CommandTester(app.find("init"))
                with quiet():
                    rc = tester.execute(" ".join(x for x in cli if x), interactive=False)
            if rc != 0:
                ok_render = False
                err = (tester.io.fetch_error() or tester.io.fetch_output())[-300:]
        except Exception as e:   # noqa
            ok_render = False
            err = f"{type(e).__name__}: {str(e)[:200]}"
        finally:
            nn.Network.__init__, TemplateLoader.__init__ = orig_net, orig_tl
            os.chdir(cwd0)
        ok_init = (d / "naunet_config.toml").exists()
        ev = [{"act": "Direct" if direct else "Config", "ok": ok_init, "err": err}]

        def decode(values: dict):
            """python values -> token records per option"""
            out = {}
            for opt in LIST_OPTS:
                out[opt] = [{"shape": "inner" if " " in s else "plain", "id": ids.get(opt, {}).get(s, 99)} for s in values.get(opt, ["<missing>"])]
            for opt in list(TABLE_OPTS) + ["ode_modifier"]:
                tab = values.get(opt, {"<missing>": ""})
                out[opt] = [{"shape": "number" if opt == "rate_modifier" and isnum(v2) else "inner" if " " in str(v2) else "plain",
                             "id": ids.get(opt, {}).get(f"{k2}={canon(v2) if opt == 'rate_modifier' else fmtv(v2)}", 99)} for k2, v2 in tab.items()]
            for opt in SCALARS:
                out[opt] = [{"shape": "plain", "id": ids.get(opt, {}).get(values.get(opt, "<missing>"), 99)}]
            return out

        def fmtv(v2):
            if isinstance(v2, float):
                for cand in ids.get("binding", {}).keys() | ids.get("yield", {}).keys():
                    if float(cand.split("=")[1]) == v2:
                        return cand.split("=")[1]
            return str(v2)
        if ok_init:
            conf = tomlkit.loads((d / "naunet_config.toml").read_text())
            ch = conf["chemistry"]
            tv = {"elements": list(ch["element"]["elements"]), "pseudo_elements": list(ch["element"]["pseudo_elements"]),
                  "allowed": list(ch["species"]["allowed"]), "required": list(ch["species"]["required"]), "files": list(ch["network"]["files"]),
                  "formats": list(ch["network"]["formats"]), "heating": list(ch["thermal"]["heating"]), "cooling": list(ch["thermal"]["cooling"]),
                  "replacement": dict(ch["element"]["replacement"]), "binding": dict(ch["species"]["binding_energy"]),
                  "yield": dict(ch["species"]["photon_yield"]), "shielding": dict(ch["shielding"]), "rate_modifier": dict(ch.get("rate_modifier", {"<missing>": ""})),
                  "ode_modifier": om_items({k3: dict(v3) for k3, v3 in dict(ch.get("ode_modifier", {})).items()}),   # (a table that is gone reads as empty)
                  "surface": ch["symbol"]["surface"], "bulk": ch["symbol"]["bulk"], "grain": ch["symbol"]["grain"], "grain_model": ch["grain"]["model"],
                  "solver": conf["ODEsolver"]["solver"], "device": conf["ODEsolver"]["device"], "method": conf["ODEsolver"]["method"]}
            ev.append({"act": "Toml", "fields": decode(tv)})
            kw, tl = captured.get("net"), captured.get("tl")
            if kw is not None and tl is not None:
                sk = kw.get("species_kwargs", {})

                def renamed(key):      # the per-species tables are keyed by the species' names AFTER element replacement
                    for old, new in base["replacement"]:
                        key = key.replace(old, new)
                    return key
                av = {"elements": list(kw.get("elements") or []), "pseudo_elements": list(kw.get("pseudo_elements") or []),
                      "allowed": list(kw.get("allowed_species") or []), "required": list(kw.get("required_species") or []),
                      "files": list(kw.get("filelist") or []), "formats": list(kw.get("fileformats") or []), "heating": list(kw.get("heating") or []),
                      "cooling": list(kw.get("cooling") or []), "replacement": dict(Species._replacement),
                      "binding": dict(base["binding"]) if set(chemistrydata.user_binding_energy) >= {renamed(k2) for k2, _ in base["binding"]} and
                      all(float(v2) == chemistrydata.user_binding_energy[renamed(k2)] for k2, v2 in base["binding"]) else dict(chemistrydata.user_binding_energy),
                      "yield": dict(base["yields"]) if all(float(v2) == chemistrydata.user_photon_yield.get(renamed(k2)) for k2, v2 in base["yields"]) else
                      dict(chemistrydata.user_photon_yield),
                      "shielding": dict(kw.get("shielding") or {}), "rate_modifier": {str(k2): v2 for k2, v2 in (kw.get("rate_modifier") or {}).items()},
                      "ode_modifier": om_items({k3: dict(v3) for k3, v3 in dict(kw.get("ode_modifier") or {}).items()}),
                      "surface": sk.get("surface_prefix", "<missing>"), "bulk": sk.get("bulk_prefix", "<missing>"), "grain": sk.get("grain_symbol", "<missing>"),
                      "grain_model": kw.get("grain_model", "<missing>"), "solver": tl.get("solver", "<missing>"), "device": tl.get("device", "<missing>"),
                      "method": tl.get("method", "<missing>")}
                ev.append({"act": "NetworkArgs", "ok": ok_render, "fields": decode(av), "err": err})
                # --- the equivalent API call
                same, diff = False, []
                try:
                    Species.reset()
                    chemistrydata.user_binding_energy.clear()
                    chemistrydata.user_photon_yield.clear()
                    Species._replacement = dict(base["replacement"])
                    Species.set_known_elements(list(base["elements"]))
                    Species.set_known_pseudoelements(list(base["pseudo_elements"]))
                    skw = {"grain_symbol": base["grain"], "surface_prefix": base["surface"], "bulk_prefix": base["bulk"]}
                    chemistrydata.update_binding_energy({Species(k2, **skw).name: float(v2) for k2, v2 in base["binding"]})
                    chemistrydata.update_photon_yield({Species(k2, **skw).name: float(v2) for k2, v2 in base["yields"]})
                    os.chdir(d)
                    net = nn.Network(filelist=list(base["files"]), fileformats=list(base["formats"]), elements=list(base["elements"]),
                                     pseudo_elements=list(base["pseudo_elements"]), allowed_species=list(base["allowed"]),
                                     required_species=list(base["required"]), species_kwargs=skw, grain_model=base["grain_model"],
                                     heating=list(base["heating"]), cooling=list(base["cooling"]), shielding=dict(base["shielding"]),
                                     rate_modifier={int(k2): v2 for k2, v2 in base["rate_modifier"]},
                                     ode_modifier={kk: {"factors": [f for k3, f, _ in base["ode_modifier"] if k3 == kk],
                                                        "reactants": [dp2 for k3, _, dp2 in base["ode_modifier"] if k3 == kk]} for kk, _, _ in base["ode_modifier"]})
                    api = d / "api"
                    with quiet():
                        TemplateLoader(solver, method, "cpu").render(base["name"], net, path=api)
                    os.chdir(cwd0)
                    h1, h2 = tree_hash(d), tree_hash(api)
                    diff = sorted(f for f in set(h1) | set(h2) if h1.get(f) != h2.get(f))
                    same = not diff
                except Exception as e:   # noqa
                    os.chdir(cwd0)
                    diff = [f"{type(e).__name__}: {str(e)[:120]}"]
                ev.append({"act": "Sources", "same": same, "diff": diff[:6]})
                # the summary the command wrote back, against the generated headers
                try:
                    import creader
                    sm = dict(tomlkit.loads((d / "naunet_config.toml").read_text())["summary"])
                    mc = creader.parse_macros((d / "include" / "naunet_macros.h").read_text())
                    facts = {"num_of_species = NSPECIES": sm["num_of_species"] == mc["NSPECIES"], "num_of_elements = NELEMENTS": sm["num_of_elements"] == mc["NELEMENTS"],
                             "num_of_reactions = NREACTIONS": sm["num_of_reactions"] == mc["NREACTIONS"] or (sm["num_of_reactions"] == 0 and mc["NREACTIONS"] == 1),
                             "len(list_of_species)": len(sm["list_of_species"]) == sm["num_of_species"],
                             "len(list_of_species_alias)": len(sm["list_of_species_alias"]) == sm["num_of_species"],
                             "len(list_of_elements)": len(sm["list_of_elements"]) == sm["num_of_elements"],
                             "gas + ice = all": sm["num_of_gas_species"] + sm["num_of_ice_species"] == sm["num_of_species"],
                             "len(gas list)": len(sm["list_of_gas_species"]) == sm["num_of_gas_species"], "len(ice list)": len(sm["list_of_ice_species"]) == sm["num_of_ice_species"],
                             "len(grain list)": len(sm["list_of_grain_species"]) == sm["num_of_grain_species"]}
                    ev.append({"act": "Summary", "consistent": all(facts.values()), "failed": [k2 for k2, v2 in facts.items() if not v2]})
                except Exception as e:   # noqa
                    ev.append({"act": "Summary", "consistent": False, "failed": [f"{type(e).__name__}: {str(e)[:80]}"]})
        traces.append({"tid": len(traces) + 1, "req": req, "ev": ev, "cli": ("BaseConfiguration(...) + render --force: " if direct else "") + " ".join(x for x in cli if x)[:600],
                       "project": base["name"] + (" (python entry)" if direct else ""), "be": f"{solver}/{method}"})
        Species.reset()
    # `naunet example --select=i`: the command line it hands to `naunet init` (obtained with --dry, executed without --render) must write
    # the tables of the example module into the configuration
    import importlib
    import io
    import contextlib
    from naunet.console.commands.example import ExampleCommand
    app.add(ExampleCommand())
    nex = 0
    for sel, exname in () if MODIFIERS_ONLY else ((0, "empty"), (4, "minimal"), (8, "primordial"), (12, "deuterium"), (16, "cloud"), (19, "ism")):
        d = ctx.sub("example") / exname
        d.mkdir()
        os.chdir(d)
        diff = []
        try:
            buf = io.StringIO()
            with contextlib.redirect_stdout(buf):
                CommandTester(app.find("example")).execute(f"--dry --select={sel}", interactive=False)
            m = re.search(r"naunet init (.*)", buf.getvalue(), re.S)
            if not m:
                raise MachineryError(f"`naunet example --dry --select={sel}` printed no init command")
            opts = re.sub(r"\s--render(-force)?\b", " ", " " + m.group(1).strip())
            Species.reset()
            with quiet():
                CommandTester(app.find("init")).execute(opts, interactive=False)
            conf = tomlkit.loads((d / "naunet_config.toml").read_text())["chemistry"]
            mod = importlib.import_module(f"naunet.examples.{exname}")

            def num_or_text(x):
                try:
                    return float(x)
                except (TypeError, ValueError):
                    return str(x).strip()
            pairs = [("rate_modifier", {str(k2): num_or_text(v2) for k2, v2 in mod.rate_modifier.items()}, {str(k2): num_or_text(v2) for k2, v2 in dict(conf["rate_modifier"]).items()}),
                     ("binding_energy", {k2: float(v2) for k2, v2 in mod.binding_energy.items()}, {k2: float(v2) for k2, v2 in dict(conf["species"]["binding_energy"]).items()}),
                     ("photon_yield", {k2: float(v2) for k2, v2 in mod.photon_yield.items()}, {k2: float(v2) for k2, v2 in dict(conf["species"]["photon_yield"]).items()}),
                     ("shielding", dict(mod.shielding), {k2: str(v2).strip() for k2, v2 in dict(conf["shielding"]).items()}),
                     ("replacement", dict(mod.element_replacement), {k2: str(v2).strip() for k2, v2 in dict(conf["element"]["replacement"]).items()}),
                     ("elements", list(mod.elements), list(conf["element"]["elements"])), ("pseudo_elements", list(mod.pseudo_elements), list(conf["element"]["pseudo_elements"])),
                     ("allowed", list(mod.allowed_species), list(conf["species"]["allowed"])), ("required", list(mod.extra_species), list(conf["species"]["required"])),
                     ("heating", list(mod.heating), list(conf["thermal"]["heating"])), ("cooling", list(mod.cooling), list(conf["thermal"]["cooling"])),
                     ("grain_model", mod.grain_model, conf["grain"]["model"]),
                     ("ode_modifier species", sorted(mod.ode_modifier), sorted(dict(conf["ode_modifier"])))]
            diff = [f"{name}: example {a!r:.120} / configuration {b!r:.120}" for name, a, b in pairs if a != b]
        except MachineryError:
            raise
        except Exception as e:   # noqa
            diff = [f"{type(e).__name__}: {str(e)[:160]}"]
        finally:
            os.chdir(cwd0)
            Species.reset()
        nex += 1
        traces.append({"tid": len(traces) + 1, "req": {}, "ev": [{"act": "Example", "same": not diff, "diff": diff[:5]}], "cli": f"naunet example --select={sel}",
                       "project": f"example {exname}", "be": "-"})
    cov["bundled_examples_configured"] = nex
    # `naunet example --select=i --path=<dir> --render-force` for real, into a directory that already holds an OLDER (truncated) copy of the
    # example's network file: the project it leaves behind holds the bundled network and sources rendered from it.  (On this tree the command
    # goes on to render the example's test programs and stops there -- the repository's own failing test; the project is complete by then.)
    import naunet as _naunet
    nrun_ex = 0
    for sel, exname in () if MODIFIERS_ONLY else ((4, "minimal"), (9, "primordial")):
        d = ctx.sub("example_run") / exname
        d.mkdir()
        mod = importlib.import_module(f"naunet.examples.{exname}")
        src = Path(_naunet.__file__).parent / "examples" / exname / mod.files
        whole = src.read_text().splitlines(keepends=True)
        (d / mod.files).write_text("".join(whole[: max(2, len(whole) // 2)]))
        diff, err = [], ""
        try:
            Species.reset()
            with quiet():
                CommandTester(app.find("example")).execute(f"--select={sel} --path={d} --render-force", interactive=False)
        except BaseException as e:   # noqa  (SystemExit included)
            err = f"{type(e).__name__}: {str(e)[:100]}"
        finally:
            os.chdir(cwd0)
            Species.reset()
        if not (d / mod.files).exists() or (d / mod.files).read_bytes() != src.read_bytes():
            diff.append(f"{mod.files} in the project is not the bundled file ({len((d / mod.files).read_text().splitlines()) if (d / mod.files).exists() else 0} "
                        f"lines, bundled {len(whole)})")
        try:
            import creader
            nre = creader.parse_macros((d / "include" / "naunet_macros.h").read_text())["NREACTIONS"]
            Species.reset()
            with quiet():
                ref = nn.Network(filelist=str(src), fileformats=mod.formats, elements=list(mod.elements), pseudo_elements=list(mod.pseudo_elements),
                                 allowed_species=list(mod.allowed_species), required_species=list(mod.extra_species))
            if nre != len(ref.reaction_list):
                diff.append(f"NREACTIONS = {nre}, the bundled network has {len(ref.reaction_list)} reactions")
        except Exception as e:   # noqa
            diff.append(f"rendered project unreadable: {type(e).__name__}: {str(e)[:100]} (command: {err})")
        finally:
            os.chdir(cwd0)
            Species.reset()
        nrun_ex += 1
        traces.append({"tid": len(traces) + 1, "req": {}, "ev": [{"act": "ExampleRun", "same": not diff, "diff": diff[:4], "err": err}],
                       "cli": f"naunet example --select={sel} --path=<dir with an older {mod.files}> --render-force", "project": f"example {exname} (run)", "be": "-"})
    cov["bundled_examples_run_over_an_older_network_file"] = nrun_ex
    v = validate_traces(ctx, "Trace_ConfigRoundTrip.tla", "Trace_ConfigRoundTrip.cfg", [{k2: t[k2] for k2 in ("tid", "req", "ev")} for t in traces], "cfg")
    cov["traces_validated_against_impl"] = len(traces)
    cov["traces_accepted"] = v["accepted"]
    cov["trace_states"] = v["states"]
    by = {t["tid"]: t for t in traces}
    for tid, rj in sorted(v["rejected"].items()):
        clause = (rj["clauses"] or ["NoEnabledAction"])[0]
        tr = by[tid]
        at = max(1, min(rj["at"], len(tr["ev"])))
        e = tr["ev"][at - 1]
        ctx.violation(f"C20|{clause}|stage={e['act']}", f"project {tr['project']} ({tr['be']}): stage {e['act']} {e.get('err', '')} {e.get('diff', '')}: {rj['clauses']}; "
                      f"cli: {tr['cli'][:300]}", {"cli": tr["cli"], "event": e, "requested": tr["req"], "clauses": rj["clauses"]})
    cov["samples"].append({"cli": traces[0]["cli"][:400], "events": [e["act"] for e in traces[0]["ev"]]})
    # histories of a project directory (Project.tla): init / hand edit / render [--force] / render --patch / second init
    import project_life
    if not MODIFIERS_ONLY:
        project_life.run(ctx, cov)
    cov["python_entry_runs"] = ndirect
    cov["rule"] = ("init+render runs over eight project kinds x three solver choices with padded / empty tokens in list options, and BaseConfiguration(...) + render runs "
                   "(the Python entry) with numeric rate coefficients given as numbers; non-trivial = every run")
    cov["exhaustive"] = False
    return finish(ctx, "model_checking", cov, [
        "token strings live in the driver; TLC sees shapes and ids (per option) and judges the four stages and the field-wise equality",
        "binding energies / yields reach the generator through process-global tables; they are compared after the render call",
        "the API rendering uses the requested description directly (files, lists, tables, symbols) in the same scratch directory",
    ])

"""C17 — code generation is a deterministic function of the network description (Globals.tla).

(A) TLC: all interleavings (depth <= 7) of New / Parse / Edit / Render on two networks, for three context assignments.
(B) spec->code: TLC -simulate behaviours are replayed, each in ONE fresh Python process (harness/c17_worker.py).
(C/D) every Render is compared with the tree a fresh process renders from that network's own description (projection of
    its mutating operations), under three hash seeds and rendered twice; the recorded facts are judged by Trace_Globals.tla.
"""
from __future__ import annotations

import json
import os
import re
import subprocess
import sys
from concurrent.futures import ThreadPoolExecutor
from pathlib import Path

from common import Ctx, MachineryError, REPO, finish, parse_tla, require_clean_mc, run_tlc, validate_traces

WORKER = Path(__file__).parent / "c17_worker.py"


def native_line(idx, r, p, a=1.0e-10, b=0.0, c=0.0, lo=-1.0, hi=-1.0, ty=100, src="test"):
    """independent encoder of the native exchange format (16 comma separated fields)"""
    r = list(r) + [""] * (3 - len(r))
    p = list(p) + [""] * (5 - len(p))
    return ",".join([f"{idx:<5}"] + [f"{x:>12}" for x in r + p] + [f"{a:10.3e}", f"{b:10.3e}", f"{c:10.3e}", f"{lo:9.2f}", f"{hi:9.2f}",
                                                                     f"{ty:>4}", f"{src:>8}"])


def make_files(d: Path) -> dict:
    (d / "A.naunet").write_text("\n".join([
        native_line(1, ["H", "H"], ["H2"]), native_line(2, ["HE+", "E-"], ["HE"]), native_line(3, ["C", "O"], ["CO"]),
        native_line(4, ["HE+", "CO"], ["C+", "O", "HE"])]))
    (d / "A2.naunet").write_text("\n".join([native_line(5, ["HE", "CRP"], ["HE+", "E-"], ty=101), native_line(6, ["C+", "E-"], ["C"])]))
    (d / "Abad.naunet").write_text("\n".join([native_line(7, ["H2", "CRP"], ["H", "H"], ty=101), native_line(8, ["Qq"], ["H"])]))
    (d / "B.naunet").write_text("\n".join([
        native_line(1, ["oH2", "He+"], ["He", "H", "H+"]), native_line(2, ["HCl", "H"], ["Cl", "H2"]), native_line(3, ["D", "H2"], ["HD", "H"])]))
    (d / "B2.naunet").write_text("\n".join([native_line(4, ["Cl", "H2"], ["HCl", "H"]), native_line(5, ["pH2", "D"], ["HD", "H"])]))
    (d / "Bbad.naunet").write_text("\n".join([native_line(6, ["HD", "H"], ["D", "H2"]), native_line(7, ["Zz"], ["H"])]))
    (d / "K1.krome").write_text("@common:user_crate,user_Av\n@var:ncolH=1.0d21\n@format:idx,R,R,P,P,Tmin,Tmax,rate\n"
                                "1,H,H,H2,,NONE,NONE,1.0d-10*user_crate\n2,H2,H+,H,H2+,>1.0d2,NONE,3.0d-10*exp(-2.1d4*invT)\n")
    (d / "K1b.krome").write_text("@format:idx,R,P,P,rate\n3,H2+,H+,H,1.1d-11*sqrTgas\n")
    (d / "K1bad.krome").write_text("@common:user_flux\n@var:bogus=2.0d0*user_flux\n@format:idx,R,R,P,rate\n4,H,H+,H2+,2.0d-20*user_flux\n5,Hx,H,H2,1.0d-10\n")
    (d / "K2.krome").write_text("@format:idx,R,R,P,P,Tmin,Tmax,rate\n1,C,H,CH,,10,280,6.59d-11\n2,CH,H,C,H2,NONE,.LE.8.d2,4.67e-10*(T32)**(-5.0e-01)\n")
    (d / "K2b.krome").write_text("@format:idx,R,R,P,P,rate\n3,C,H2,CH,H,1.0d-12*exp(-1.0d3*invT)\n")
    # default column layout (no @format line): idx,r,r,r,p,p,p,p,tmin,tmax,rate
    (d / "K2c.krome").write_text("@common:user_Av\n@var:ncolH=2.5d20*user_Av\n11,C,CH,,H,C2,,,10,280,6.59d-11\n13,H,H,H,H2,H,,,NONE,.LE.300,2.0d-31*(T32)**(-1.0d0)\n")
    (d / "K2bad.krome").write_text("@common:user_leak\n@format:idx,R,P,rate\n4,CH,C,1.0d-15*user_leak\n5,Hy,H,1.0d-10\n")
    import encoders
    lrec = lambda r, p_, code, a=1.0, idx=1: {"r": r, "p": p_, "a": a, "b": 0.0, "c": 0.0, "tmin": 5.0, "tmax": 41000.0, "idx": idx, "code": code}
    gl = [lrec(["H", "H"], ["H2"], 1, a=6.59e-11), lrec(["GRAIN0", "e-"], ["GRAIN-"], 20, idx=2), lrec(["C+", "GRAIN-"], ["C", "GRAIN0"], 6, idx=3),
          lrec(["CO"], ["GCO"], 7, idx=4), lrec(["GCO"], ["CO"], 8, idx=5)]
    (d / "G.leeds").write_text("\n".join(encoders.leeds(x) for x in gl) + "\n")
    (d / "G2.leeds").write_text(encoders.leeds(lrec(["H+", "GRAIN-"], ["H", "GRAIN0"], 6, idx=6)) + "\n")
    (d / "Gbad.leeds").write_text(encoders.leeds(lrec(["O", "H"], ["OH"], 1, idx=7)) + "\n" + encoders.leeds(lrec(["Qq"], ["H"], 1, idx=8)) + "\n")
    data = REPO / "tests" / "data"
    # a network with dust: two grain species of one population (GRAIN0, GRAIN-) under the hh93 model
    G = {"kw": {"grain_model": "hh93"}, "files": [[str(d / "G.leeds"), "leeds"], [str(d / "G2.leeds"), "leeds"]], "badfile": [str(d / "Gbad.leeds"), "leeds"],
         "allowed": ["H", "H2", "GRAIN0", "GRAIN-", "e-", "C+", "C", "CO", "H+"], "krome": False}    # (the ice keeps its Leeds spelling GCO: not a name the API's default prefix can spell)
    A = {"kw": {"elements": ["E", "H", "HE", "C", "O"], "pseudo_elements": ["CR", "CRP", "PHOTON"], "rate_modifier": {"2": "1.23e-17 * zeta / 1.3e-17"}},
         "files": [[str(d / "A.naunet"), "naunet"], [str(d / "A2.naunet"), "naunet"]], "badfile": [str(d / "Abad.naunet"), "naunet"],
         "allowed": ["H", "H2", "HE", "HE+", "E-", "C", "O", "CO", "C+"], "krome": False}
    B = {"kw": {"elements": ["e", "H", "D", "He", "C", "N", "O", "Cl"], "pseudo_elements": ["CR", "CRP", "Photon", "o", "p", "m"]},
         "files": [[str(d / "B.naunet"), "naunet"], [str(d / "B2.naunet"), "naunet"]], "badfile": [str(d / "Bbad.naunet"), "naunet"],
         "allowed": ["oH2", "pH2", "He", "He+", "H", "H+", "HCl", "Cl", "H2", "D", "HD"], "krome": False}
    K1 = {"kw": {}, "files": [[str(d / "K1.krome"), "krome"], [str(d / "K1b.krome"), "krome"]], "badfile": [str(d / "K1bad.krome"), "krome"],
          "allowed": ["H", "H2", "H+", "H2+"], "krome": True}
    K2 = {"kw": {}, "files": [[str(d / "K2c.krome"), "krome"], [str(d / "K2.krome"), "krome"], [str(d / "K2b.krome"), "krome"]],
          "badfile": [str(d / "K2bad.krome"), "krome"], "allowed": ["C", "H", "CH", "H2", "C2"], "krome": True}
    C = {"kw": {}, "files": [[str(data / "minimal.kida"), "kida"], [str(data / "minimal.umist"), "umist"]],
         "badfile": [str(d / "Bbad.naunet"), "naunet"], "allowed": ["C", "CH", "H", "C2"], "krome": False}
    # elements given, NO pseudo-element list (as the shipped `minimal` example has it)
    (d / "E.naunet").write_text("\n".join([native_line(1, ["H", "H"], ["H2"]), native_line(2, ["He+", "e-"], ["He"]), native_line(3, ["H2", "He+"], ["H", "H+", "He"])]))
    (d / "E2.naunet").write_text("\n".join([native_line(4, ["He++", "e-"], ["He+"]), native_line(5, ["He+", "He+"], ["He++", "He"])]))
    E1 = {"kw": {"elements": ["e", "H", "He"]}, "files": [[str(d / "E.naunet"), "naunet"], [str(d / "E2.naunet"), "naunet"]], "badfile": [str(d / "Bbad.naunet"), "naunet"],
          "allowed": ["H", "H2", "He", "He+", "e-", "H+"], "krome": False}
    B2 = {"kw": {"elements": ["e", "H", "D"], "pseudo_elements": ["Photon", "CR"]},
          "files": [[str(d / "B3.naunet"), "naunet"]], "badfile": [str(d / "Bbad.naunet"), "naunet"], "allowed": ["H", "D", "HD", "H2"], "krome": False}
    (d / "B3.naunet").write_text("\n".join([native_line(1, ["D", "H2"], ["HD", "H"]), native_line(2, ["H", "Photon"], ["H+", "e-"], ty=102)]))
    # ... the same in the upper-case convention: the identifiers (HE -> He) are computed from the element list AT RENDER TIME, so the lists of
    # whichever network was built last show in the sources if rendering does not re-install this network's own
    (d / "EU.naunet").write_text("\n".join([native_line(1, ["H", "H"], ["H2"]), native_line(2, ["HE+", "E-"], ["HE"]), native_line(3, ["H2", "HE+"], ["H", "H+", "HE"])]))
    (d / "EU2.naunet").write_text("\n".join([native_line(4, ["HE++", "E-"], ["HE+"]), native_line(5, ["HE+", "HE+"], ["HE++", "HE"])]))
    EU = {"kw": {"elements": ["E", "H", "HE"]}, "files": [[str(d / "EU.naunet"), "naunet"], [str(d / "EU2.naunet"), "naunet"]], "badfile": [str(d / "Abad.naunet"), "naunet"],
          "allowed": ["H", "H2", "HE", "HE+", "E-", "H+"], "krome": False}
    return {"elemonlyU": {"1": EU, "2": B}, "elemonly": {"1": E1, "2": B2}, "custom": {"1": A, "2": B}, "mixed": {"1": A, "2": K2}, "mixedC": {"1": B, "2": C}, "none": {"1": K1, "2": K2}, "grain": {"1": G, "2": C}}


def concrete(last: list, nets: dict):
    """abstract TLC action -> worker op + trace event skeleton"""
    k = last[0]
    if k == "New":
        return ["New", last[1]], {"op": "New", "n": last[1]}
    if k == "Edit":
        return ["Edit", last[1]] + list(last[2:]), {"op": "Edit", "n": last[1]}       # (an optional third item names the kind of edit)
    if k == "Render":
        return ["Render", last[1]], {"op": "Render", "n": last[1]}
    if k == "Parse":
        n, krome, aborts = last[1], last[2], last[3]
        d = nets[str(n)]
        if aborts:
            what = "badfile"
        elif krome == d["krome"]:
            what = "file"
        else:
            what = "allowed" if krome else "allowed0"
        if len(last) > 4:
            what = last[4]           # "line": the next file's first data line through add_reaction((line, format))
        is_krome = d["krome"] and what in ("file", "badfile", "line")
        return ["Parse", n, what], {"op": "Parse", "n": n, "krome": is_krome, "aborts": what == "badfile"}
    raise MachineryError(f"unknown action {last}")


def run_worker(scenario: dict, seed: str) -> list:
    env = dict(os.environ, PYTHONHASHSEED=seed, NAUNET_REPO=str(REPO))
    p = subprocess.run(["/venv/bin/python", str(WORKER)], input=json.dumps(scenario), capture_output=True, text=True, env=env, timeout=600)
    m = re.search(r"^RESULT (.*)$", p.stdout, re.M)
    if not m:
        raise MachineryError(f"worker failed: {p.stderr[-1500:]}")
    return json.loads(m.group(1))


def main(ctx: Ctx) -> int:
    cov: dict = {"samples": []}
    states = trans = 0
    for cfg in ("MC_Globals_custom.cfg", "MC_Globals_mixed.cfg", "MC_Globals_none.cfg"):
        r = run_tlc("MC_Globals.tla", cfg, ctx.sub("meta") / cfg, workers=4)
        require_clean_mc(r, cfg)
        if r["error"]:
            ctx.violation(f"C17|Design|{','.join(r['violated'])}|{cfg}", "TLC counterexample in Globals", {"tlc": r["out"][-4000:]})
        states += r["distinct"]; trans += r["generated"]
    # the full property on a network WITHOUT its own lists next to one WITH lists: expected to fail in the design
    r = run_tlc("MC_Globals.tla", "MC_Globals_mixed_full.cfg", ctx.sub("meta") / "mixed_full", workers=4)
    states += r.get("distinct", 0); trans += r.get("generated", 0)
    if r["error"]:
        ctx.violation("C17|Design|NonInterference|ctx=default-after-custom",
                      "a network constructed without element lists parses names against the lists another network installed "
                      "(TLC: New(custom 1); New(default 2) -> clean[2] = FALSE)", {"tlc": r["out"][-3000:]})
    for v in ("render_no_install", "krome_state_leaks"):
        c = ctx.scratch / f"v_{v}.cfg"
        c.write_text((Path(__file__).parent.parent / "spec" / "MC_Globals_custom.cfg").read_text().replace('"asis"', f'"{v}"'))
        rv = run_tlc("MC_Globals.tla", str(c), ctx.sub("meta") / v, workers=2)
        if "NonInterference" not in rv["violated"]:
            raise MachineryError(f"design variant {v} not caught")
    cov["design_variants_caught"] = 2
    cov["states"], cov["transitions"] = states, trans

    files = make_files(ctx.sub("files"))
    families = [("elemonlyU", "MC_Globals_custom.cfg"), ("elemonly", "MC_Globals_custom.cfg"), ("custom", "MC_Globals_custom.cfg"), ("mixed", "MC_Globals_mixed_full.cfg"), ("mixedC", "MC_Globals_mixed_full.cfg"),
                ("none", "MC_Globals_none.cfg"), ("grain", "MC_Globals_none.cfg")]
    scenarios = []
    nsim = 10 if ctx.quick else 120
    for fam, cfg in families:
        simdir = ctx.sub(f"sim_{fam}")
        c = ctx.scratch / f"sim_{fam}.cfg"
        c.write_text(re.sub(r"INVARIANT.*\n|CONSTRAINT.*\n|VIEW.*\n", "", (Path(__file__).parent.parent / "spec" / cfg).read_text()))
        run_tlc("MC_Globals.tla", str(c), ctx.sub("meta") / f"sim_{fam}", workers=1,
                extra=["-simulate", f"file={simdir}/b,num={nsim}", "-depth", "9", "-seed", str(ctx.seed + 23)])
        seen = set()
        for f in sorted(simdir.glob("b_*")):
            acts = [parse_tla(m.group(1)) for m in re.finditer(r"^/\\ last = (.*)$", f.read_text(), re.M)]
            acts = [a for a in acts if a[0] != "Init"]
            if not any(a[0] == "Render" for a in acts):
                acts.append(["Render", 1 if any(a == ["New", 1] for a in acts) else 2])
            if not any(a[0] == "New" and a[1] == acts[-1][1] for a in acts):
                continue
            key = json.dumps(acts, default=list)
            if key in seen:
                continue
            seen.add(key)
            scenarios.append((fam, acts))
        # targeted: the orders the seeded leads need
        scenarios.append((fam, [["New", 1], ["Parse", 1, files[fam]["1"]["krome"], False], ["Render", 1], ["Edit", 1], ["Render", 1]]))
        scenarios.append((fam, [["New", 1], ["Parse", 1, files[fam]["1"]["krome"], True], ["New", 2], ["Parse", 2, files[fam]["2"]["krome"], False], ["Render", 2]]))
        scenarios.append((fam, [["New", 1], ["Parse", 1, files[fam]["1"]["krome"], False], ["New", 2], ["Parse", 2, files[fam]["2"]["krome"], False],
                                ["Render", 1], ["Render", 2], ["Render", 1]]))
        scenarios.append((fam, [["New", 2], ["Parse", 2, files[fam]["2"]["krome"], False], ["Render", 2], ["New", 1], ["Parse", 1, files[fam]["1"]["krome"], False],
                                ["Render", 1], ["Render", 2]]))
        # a network rendered while it is still EMPTY, then filled and rendered again (the first rendering must leave nothing behind in it)
        scenarios.append((fam, [["New", 1], ["Render", 1], ["Parse", 1, files[fam]["1"]["krome"], False], ["Render", 1]]))
        # network 1 edits one of its option tables IN PLACE (net.shielding[...] = ...) while network 2 exists: 2 renders as it does alone
        scenarios.append((fam, [["New", 1], ["Parse", 1, files[fam]["1"]["krome"], False], ["New", 2], ["Parse", 2, files[fam]["2"]["krome"], False],
                                ["Edit", 1, "shield"], ["Render", 2], ["Render", 1]]))
        scenarios.append((fam, [["New", 2], ["New", 1], ["Parse", 1, files[fam]["1"]["krome"], False], ["Edit", 1, "shield"],
                                ["Parse", 2, files[fam]["2"]["krome"], False], ["Render", 2]]))
        # the network is only LOOKED at between two renderings (written to a file, searched for repeats, printed): same sources
        scenarios.append((fam, [["New", 1], ["Parse", 1, files[fam]["1"]["krome"], False], ["Render", 1], ["Edit", 1, "inspect"], ["Render", 1]]))
        scenarios.append((fam, [["New", 1], ["Parse", 1, files[fam]["1"]["krome"], False], ["Edit", 1, "inspect"], ["Render", 1]]))
        # one more reaction given as a (line, format) pair to network 1 after network 2 was built
        if not files[fam]["1"]["krome"]:     # (a KROME line cannot travel without its @format line)
            scenarios.append((fam, [["New", 1], ["Parse", 1, files[fam]["1"]["krome"], False], ["New", 2], ["Parse", 2, files[fam]["2"]["krome"], False],
                                    ["Parse", 1, files[fam]["1"]["krome"], False, "line"], ["Render", 1]]))
    cov["spec_behaviours_replayed"] = len(scenarios)

    jobs = []
    for sid, (fam, acts) in enumerate(scenarios):
        nets = files[fam]
        ops, evs = [], []
        for a in acts:
            o, e = concrete(a, nets)
            ops.append(o)
            evs.append(e)
        jobs.append({"sid": sid, "fam": fam, "nets": nets, "ops": ops, "evs": evs})

    refcache: dict = {}

    def reference(fam, nets, ops, upto, n):
        """fresh-process render of network n's own description = projection of its mutating ops before position upto"""
        proj = [o for o in ops[:upto] if o[1] == n and o[0] != "Render" and not (o[0] == "Edit" and len(o) > 2 and o[2] == "inspect")] + [["Render", n]]
        key = (fam, json.dumps(proj))
        if key not in refcache:
            hs = []
            for seed in ("0", "1", "12345"):
                res = run_worker({"nets": nets, "ops": proj}, seed)
                hs.append(res[-1].get("hash") if res[-1]["ok"] else "ERR:" + res[-1]["err"])
            refcache[key] = hs
        return refcache[key]

    def do(job):
        res = run_worker({"nets": job["nets"], "ops": job["ops"]}, "0")
        evs = []
        for k, (o, e, r) in enumerate(zip(job["ops"], job["evs"], res)):
            e = dict(e, ok=r["ok"])
            if o[0] == "Render":
                ref = reference(job["fam"], job["nets"], job["ops"], k, o[1])
                e["seeds_same"] = len(set(ref)) == 1
                e["same"] = r["ok"] and r.get("hash") == ref[0]
                e["repeat_same"] = r.get("repeat_same", True)
                e["ref_ok"] = not ref[0].startswith("ERR:")
            e["err"] = r["err"]
            evs.append(e)
        return {"tid": job["sid"] + 1, "ev": evs, "fam": job["fam"], "ops": job["ops"]}

    with ThreadPoolExecutor(14) as ex:
        traces = list(ex.map(do, jobs))
    cov["fresh_process_references"] = len(refcache)
    # which Custom assignment each family's trace spec needs
    rejected_total = 0
    for famset, custom in ((("custom", "elemonly", "elemonlyU"), "AllCustom"), (("mixed", "mixedC"), "Mixed"), (("none", "grain"), "NoneCustom")):
        part = [t for t in traces if t["fam"] in famset]
        if not part:
            continue
        cfgp = ctx.scratch / f"trace_{custom}.cfg"
        cfgp.write_text(f'CONSTANTS\n Nets = {{1, 2}}\n Custom <- {custom}\n Variant = "asis"\nSPECIFICATION TSpec\nCONSTRAINT Track\n'
                        "POSTCONDITION Verdicts\nCHECK_DEADLOCK FALSE\n")
        v = validate_traces(ctx, "Trace_Globals_MC.tla", str(cfgp), part, f"glob_{custom}")
        cov["traces_validated_against_impl"] = cov.get("traces_validated_against_impl", 0) + len(part)
        cov["traces_accepted"] = cov.get("traces_accepted", 0) + v["accepted"]
        bytid = {t["tid"]: t for t in part}
        for tid, rj in sorted(v["rejected"].items()):
            rejected_total += 1
            clause = (rj["clauses"] or ["NoEnabledAction"])[0]
            tr = bytid[tid]
            e = tr["ev"][min(rj["at"], len(tr["ev"])) - 1]
            fmt = tr["fam"]
            ctx.violation(f"C17|{clause}|family={fmt},op={e['op']}", f"{fmt}: ops {tr['ops']} rejected at event {rj['at']} {e}: {rj['clauses']}",
                          {"trace": tr, "clauses": rj["clauses"]})
    if cov.get("traces_validated_against_impl", 0) != len(traces):
        raise MachineryError("a scenario family has no trace configuration")
    # the command-line path: two projects rendered in one process (no state is cleared in between)
    import project_life
    diff = project_life.cli_sequence(ctx)
    cov["cli_projects_rendered_in_one_process"] = 2
    if diff:
        ctx.violation("C17|CliRenderIndependentOfEarlierRender|replacement", "a project with an upper-case element list and NO replacement table renders differently after "
                      f"a project WITH a replacement table was rendered in the same process: {diff[:6]}", {"differing_files": diff})
    renders = [e for t in traces for e in t["ev"] if e["op"] == "Render"]
    cov["renders_compared"] = len(renders)
    cov["renders_identical_to_fresh"] = sum(1 for e in renders if e.get("same"))
    cov["renders_where_model_predicts_interference"] = None
    if traces:
        cov["samples"].append({"family": traces[0]["fam"], "ops": traces[0]["ops"], "events": traces[0]["ev"][:4]})
    cov["rule"] = ("scenarios = interleavings of New/Parse(file|aborting file|allowed list)/Edit/Render on two networks (custom upper-case "
                   "element list, custom list with ortho/para pseudo-elements, default list KIDA+UMIST, KROME with and without directives); "
                   "non-trivial = operations of both networks interleaved before a render")
    cov["exhaustive"] = False
    return finish(ctx, "model_checking", cov, [
        "a fresh Python process rendering the projection of a network's own mutating operations defines 'the network description'",
        "CMakeLists version/date lines are normalised; everything else is compared byte for byte",
    ])

#!/bin/sh
# usage: confirm_mutant.sh <worktree> <i>   — confirms demo passes clean / fails mutated / suite still 82 passed
wt="$1"; i="$2"; cd "$wt" || exit 2
git checkout -q -- . 2>/dev/null
demo=""; for c in _out/demo$i.py _out/demo$i.sh; do [ -f "$c" ] && demo="$c"; done
run_demo() { case "$demo" in *.py) PYTHONPATH="$wt" /venv/bin/python "$demo" >/tmp/confirm_$$.log 2>&1;; *) sh "$demo" >/tmp/confirm_$$.log 2>&1;; esac; echo $?; }
clean=$(run_demo)
git apply "_out/mutant$i.diff" || { echo "RESULT $wt $i APPLY-FAILED"; exit 1; }
mut=$(run_demo)
tests=$(/venv/bin/python -m pytest -q -p no:cacheprovider --timeout=900 --continue-on-collection-errors 2>&1 | tail -1)
git checkout -q -- . ; git status --short | grep -v _out | head -3
rm -f /tmp/confirm_$$.log
echo "RESULT $wt $i clean_rc=$clean mutant_rc=$mut tests='$tests'"

"""Strict parser / evaluator / tree encoder for the C expressions naunet emits as rate coefficients.

Grammar (C precedence):  cond := or ('?' cond ':' cond)? ; or := and ('||' and)* ; and := cmp ('&&' cmp)* ;
cmp := add (('<'|'<='|'>'|'>='|'=='|'!=') add)? ; add := mul (('+'|'-') mul)* ; mul := unary (('*'|'/') unary)* ;
unary := ('+'|'-') unary | postfix ; postfix := NUMBER | IDENT | IDENT '(' args ')' | IDENT '[' expr ']' | '(' cond ')'
`--` and `++` are single tokens for which there is no rule (C's maximal munch), so `exp(--2.0*Av)` is rejected.
AST nodes are tuples: ("num", text) ("var", name) ("call", name, [args]) ("idx", name, sub) ("neg", x) ("pos", x)
("bin", op, a, b) ("cond", c, a, b)."""
from __future__ import annotations

import math
import re


class ParseError(Exception):
    pass


TOK = re.compile(r"\s*(?:(\d+\.?\d*(?:[eE][+-]?\d+)?|\.\d+(?:[eE][+-]?\d+)?)|([A-Za-z_]\w*)|(--|\+\+|&&|\|\||[<>=!]=|[-+*/()\[\],<>?:]))")


def tokenize(s: str):
    out, pos = [], 0
    s = s.strip()
    while pos < len(s):
        m = TOK.match(s, pos)
        if not m or m.end() == pos:
            raise ParseError(f"unexpected character at {s[pos:pos + 15]!r}")
        if m.group(1) is not None:
            out.append(("num", m.group(1)))
        elif m.group(2) is not None:
            out.append(("id", m.group(2)))
        else:
            out.append(("op", m.group(3)))
        pos = m.end()
    return out


class P:
    def __init__(self, toks):
        self.t, self.i = toks, 0

    def peek(self):
        return self.t[self.i] if self.i < len(self.t) else ("eof", "")

    def eat(self, val=None):
        tk = self.peek()
        if val is not None and tk[1] != val:
            raise ParseError(f"expected {val!r}, got {tk[1]!r}")
        self.i += 1
        return tk

    def cond(self):
        c = self.or_()
        if self.peek() == ("op", "?"):
            self.eat()
            a = self.cond()
            self.eat(":")
            b = self.cond()
            return ("cond", c, a, b)
        return c

    def or_(self):
        x = self.and_()
        while self.peek() == ("op", "||"):
            self.eat()
            x = ("bin", "||", x, self.and_())
        return x

    def and_(self):
        x = self.cmp()
        while self.peek() == ("op", "&&"):
            self.eat()
            x = ("bin", "&&", x, self.cmp())
        return x

    def cmp(self):
        x = self.add()
        if self.peek()[0] == "op" and self.peek()[1] in ("<", "<=", ">", ">=", "==", "!="):
            op = self.eat()[1]
            x = ("bin", op, x, self.add())
        return x

    def add(self):
        x = self.mul()
        while self.peek() in (("op", "+"), ("op", "-")):
            op = self.eat()[1]
            x = ("bin", op, x, self.mul())
        return x

    def mul(self):
        x = self.unary()
        while self.peek() in (("op", "*"), ("op", "/")):
            op = self.eat()[1]
            x = ("bin", op, x, self.unary())
        return x

    def unary(self):
        tk = self.peek()
        if tk == ("op", "-"):
            self.eat()
            return ("neg", self.unary())
        if tk == ("op", "+"):
            self.eat()
            return ("pos", self.unary())
        if tk[0] == "op" and tk[1] in ("--", "++"):
            raise ParseError(f"operator fusion {tk[1]!r}")
        return self.postfix()

    def postfix(self):
        tk = self.eat()
        if tk[0] == "num":
            return ("num", tk[1])
        if tk[0] == "id":
            if self.peek() == ("op", "("):
                self.eat()
                args = []
                if self.peek() != ("op", ")"):
                    args.append(self.cond())
                    while self.peek() == ("op", ","):
                        self.eat()
                        args.append(self.cond())
                self.eat(")")
                return ("call", tk[1], args)
            if self.peek() == ("op", "["):
                self.eat()
                sub = self.cond()
                self.eat("]")
                return ("idx", tk[1], sub)
            return ("var", tk[1])
        if tk == ("op", "("):
            x = self.cond()
            self.eat(")")
            return x
        raise ParseError(f"unexpected token {tk[1]!r}")


def parse(s: str):
    p = P(tokenize(s))
    x = p.cond()
    if p.peek()[0] != "eof":
        raise ParseError(f"trailing tokens from {p.peek()[1]!r}")
    return x


FUNCS = {"pow": lambda a, b: math.pow(a, b), "exp": math.exp, "sqrt": math.sqrt, "log": math.log, "log10": math.log10,
         "fmax": max, "fmin": min, "fabs": abs}


def evaluate(ast, env: dict, funcs: dict | None = None):
    k = ast[0]
    if k == "num":
        # C semantics: a literal written without point and exponent is an `int` (32-bit arithmetic, truncating division)
        return int(ast[1]) if re.fullmatch(r"\d+", str(ast[1])) and int(ast[1]) < 2 ** 31 else float(ast[1])
    if k == "var":
        return env[ast[1]]
    if k == "neg":
        return -evaluate(ast[1], env, funcs)
    if k == "pos":
        return evaluate(ast[1], env, funcs)
    if k == "idx":
        sub = ast[2]
        key = sub[1] if sub[0] == "var" else evaluate(sub, env, funcs)
        return env[f"{ast[1]}[{key}]"]
    if k == "call":
        f = (funcs or {}).get(ast[1]) or FUNCS.get(ast[1])
        if f is None:
            raise KeyError(f"function {ast[1]}")
        return f(*[evaluate(a, env, funcs) for a in ast[2]])
    if k == "cond":
        return evaluate(ast[2], env, funcs) if evaluate(ast[1], env, funcs) else evaluate(ast[3], env, funcs)
    if k == "bin":
        op = ast[1]
        a = evaluate(ast[2], env, funcs)
        if op == "&&":
            return bool(a) and bool(evaluate(ast[3], env, funcs))
        if op == "||":
            return bool(a) or bool(evaluate(ast[3], env, funcs))
        b = evaluate(ast[3], env, funcs)
        if type(a) is int and type(b) is int and op in ("+", "-", "*", "/"):
            if op == "/":
                if b == 0:
                    raise ZeroDivisionError("integer division by zero")
                q = abs(a) // abs(b)
                return q if (a >= 0) == (b >= 0) else -q
            v = {"+": a + b, "-": a - b, "*": a * b}[op]
            return (v + 2 ** 31) % 2 ** 32 - 2 ** 31          # (what two's-complement hardware leaves behind on overflow)
        return {"+": lambda: a + b, "-": lambda: a - b, "*": lambda: a * b, "/": lambda: a / b, "<": lambda: a < b, "<=": lambda: a <= b,
                ">": lambda: a > b, ">=": lambda: a >= b, "==": lambda: a == b, "!=": lambda: a != b}[op]()
    raise ValueError(k)


def names(ast, out=None):
    """identifiers used: variables, called functions, subscripted arrays (and their subscripts)"""
    out = out if out is not None else {"var": set(), "call": set(), "idx": set(), "sub": set()}
    k = ast[0]
    if k == "var":
        out["var"].add(ast[1])
    elif k in ("neg", "pos"):
        names(ast[1], out)
    elif k == "call":
        out["call"].add(ast[1])
        for a in ast[2]:
            names(a, out)
    elif k == "idx":
        out["idx"].add(ast[1])
        if ast[2][0] == "var":
            out["sub"].add(ast[2][1])
        else:
            names(ast[2], out)
    elif k == "bin":
        names(ast[2], out)
        names(ast[3], out)
    elif k == "cond":
        for a in ast[1:]:
            names(a, out)
    return out


# ----------------------------------------------------------------------------- canonical trees for TLC
def canon(ast):
    """Sound rewrites only: fold unary signs into numeric leaves; flatten left-nested '*' and '+' chains into n-ary nodes IN ORDER.
    -> nested lists (JSON): ["num", neg?, magnitude-text] ["var", n] ["call", n, [args]] ["idx", n, sub] ["neg", x]
       ["mul", [x...]] ["add", [x...]] ["sub", a, b] ["div", a, b] ["cmp", op, a, b] ["cond", c, a, b]"""
    k = ast[0]
    if k == "num":
        return ["num", False, ast[1]]
    if k == "var":
        return ["var", ast[1]]
    if k == "pos":
        return canon(ast[1])
    if k == "neg":
        x = canon(ast[1])
        if x[0] == "num":
            return ["num", not x[1], x[2]]
        if x[0] == "neg":
            return x[1]
        return ["neg", x]
    if k == "call":
        return ["call", ast[1], [canon(a) for a in ast[2]]]
    if k == "idx":
        return ["idx", ast[1], canon(ast[2])]
    if k == "cond":
        return ["cond", canon(ast[1]), canon(ast[2]), canon(ast[3])]
    op, a, b = ast[1], canon(ast[2]), canon(ast[3])
    if op == "*":
        la = a[1] if a[0] == "mul" else [a]
        return ["mul", la + [b]]
    if op == "+":
        la = a[1] if a[0] == "add" else [a]
        return ["add", la + [b]]
    if op == "-":
        return ["sub", a, b]
    if op == "/":
        return ["div", a, b]
    return ["cmp", op, a, b]

"""C14 (edit histories) and C15 (duplicate detection) — NetworkEdit.tla.

(A) TLC: all histories of the bounded universe (MC_NetworkEdit) + seeded design variants must fail + the wildcard
    universe (UNKNOWN-typed reaction) is checked separately.
(B) spec->code: TLC -simulate behaviours (with the `last` action label) are replayed on real Network objects.
(C) code->spec: random long histories over richer alphabets, targeted duplicate lists, `naunet extend` runs;
    everything is recorded by harness/netrec.py and validated by Trace_NetworkEdit.tla.
"""
from __future__ import annotations

import itertools
import os
import random
import re
from pathlib import Path

from common import (Ctx, MachineryError, REPO, SPEC, coverage_zero_actions, finish, import_naunet, parse_tla, quiet,
                    require_clean_mc, run_tlc, validate_traces)
import netrec

C15_CLAUSES = {"DupReport", "DupFirst", "Inv:ReportIsDecl", "Inv:RemovalSound"}

# real-name universe matching MC_NetworkEdit.Base / WildR  (ids 1..9)
UNIVERSE = [
    (["H", "H"], ["H2"], -1.0, -1.0, 100),
    (["H", "H"], ["H2"], 10.0, 100.0, 100),
    (["H2"], ["H", "H"], -1.0, -1.0, 101),
    (["C", "H"], ["CH"], -1.0, -1.0, 100),
    (["H", "C"], ["CH"], -1.0, -1.0, 100),
    (["H2", "e-"], ["H", "H", "e-"], -1.0, -1.0, 100),
    (["E", "H2"], ["H", "E", "H"], -1.0, -1.0, 100),
    (["H", "H"], ["H2"], -1.0, -1.0, 999),
    (["H", "H"], ["H2"], -1.0, -1.0, 101),
]
CLASS_NAMES = {1: "H", 2: "H2", 3: "C", 4: "CH", 5: "e-"}


def mk(desc):
    from naunet.reactions.reaction import Reaction
    from naunet.reactiontype import ReactionType
    r, p, lo, hi, ty = desc[:5]
    kw = {}
    if len(desc) > 5:
        kw["idxfromfile"] = desc[5]
    return Reaction(list(r), list(p), temp_min=lo, temp_max=hi, reaction_type=ReactionType(ty), **kw)


def sim_histories(ctx: Ctx, n: int, depth: int, wild: bool) -> list[list]:
    simdir = ctx.sub("sim_w" if wild else "sim")
    cfg = ctx.scratch / f"sim_{wild}.cfg"
    cfg.write_text(f'CONSTANTS\n Variant = "asis"\n Wild = {"TRUE" if wild else "FALSE"}\n MaxLen = 5\n MaxDepth = 100\n'
                   'SPECIFICATION MCSpec\nCHECK_DEADLOCK FALSE\n')
    res = run_tlc("MC_NetworkEdit.tla", str(cfg), ctx.sub("meta") / f"sim_{wild}", workers=1,
                  extra=["-simulate", f"file={simdir}/b,num={n}", "-depth", str(depth), "-seed", str(ctx.seed + 3)])
    files = sorted(simdir.glob("b_*"))
    if not files:
        raise MachineryError("no simulated behaviours:\n" + res["out"][-2000:])
    hists = []
    for f in files:
        acts = []
        for m in re.finditer(r"^/\\ last = (.*)$", f.read_text(), re.M):
            a = parse_tla(m.group(1))
            if a[0] != "Init":
                acts.append(a)
        if acts:
            hists.append(acts)
    return hists


def replay_history(acts: list) -> None:
    """Drive a real Network along a spec behaviour (the recorder is active and logs it)."""
    from naunet.network import Network
    net = Network()
    names = lambda S: [CLASS_NAMES[c] for c in sorted(S)]
    for a in acts:
        k = a[0]
        if k == "Add":
            net.add_reaction(mk(UNIVERSE[a[1] - 1]))
        elif k == "RemoveIdx":
            net.remove_reaction(a[1] - 1)
        elif k == "RemoveIdxList":
            net.remove_reaction(sorted(p - 1 for p in a[1]))
        elif k == "RemoveInst":
            net.remove_reaction(mk(UNIVERSE[a[1] - 1]))
        elif k == "RemoveInstList":
            net.remove_reaction([mk(UNIVERSE[i - 1]) for i in sorted(a[1])])
        elif k == "RemoveWhere":
            from naunet.species import Species
            net.remove_reaction(net.where_species(Species(CLASS_NAMES[a[1]]), a[2]))
        elif k == "SetAllowed":
            net.allowed_species = names(a[1])
        elif k == "SetRequired":
            net.required_species = names(a[1])
        elif k == "Reindex":
            net.reindex()
        elif k == "FindDup":
            net._nv_last = net.find_duplicate_reaction(None if a[1] == "default" else a[1])
        elif k == "RemoveDup":
            _, dupidx, _ = net._nv_last
            net.remove_reaction(list(dupidx))
        else:
            raise MachineryError(f"unknown action {a}")


# ------------------------------------------------------------------------------- random histories (code -> spec)

POOL_SPECIES = ["H", "H2", "C", "CH", "O", "OH", "CO", "H+", "H2+", "H3+", "e-", "E", "E-", "He", "He+", "C+", "#H", "#CO",
                "#H2O", "H2O", "GRAIN0", "GRAIN", "GRAIN-", "GRAIN0-"]


def random_reaction(rng: random.Random, wild_ok: bool, pool=None):
    pool = pool or POOL_SPECIES
    nr = rng.choice([1, 2, 2, 2, 3])
    npd = rng.choice([0, 1, 1, 2, 2, 3])
    r = [rng.choice(pool) for _ in range(nr)]
    p = [rng.choice(pool) for _ in range(npd)]
    lo, hi = rng.choice([(-1.0, -1.0), (-1.0, -1.0), (10.0, 300.0), (300.0, 41000.0), (10.0, -1.0)])
    types = [100, 100, 101, 102, 120] + ([999] if wild_ok else [])
    return (r, p, lo, hi, rng.choice(types), rng.choice([-1, -1, rng.randint(0, 9999)]))


def variants_of(rng: random.Random, d):
    """equivalent / near-equivalent variants: permuted, respelled electron, other window, other type"""
    r, p, lo, hi, ty, idx = d
    swap = {"e-": "E", "E": "E-", "E-": "e-", "GRAIN0": "GRAIN", "GRAIN": "GRAIN0", "GRAIN-": "GRAIN0-", "GRAIN0-": "GRAIN-"}
    choice = rng.randint(0, 5)
    if choice == 0:
        return (rng.sample(r, len(r)), rng.sample(p, len(p)), lo, hi, ty, idx)
    if choice == 1:
        return ([swap.get(x, x) for x in r[::-1]], [swap.get(x, x) for x in p], lo, hi, ty, -1)
    if choice == 2:
        return (r, p, 10.0, 20.0, ty, idx)
    if choice == 3:
        return (r, p, lo, hi, 101 if ty != 101 else 100, idx)
    if choice == 4:
        return (list(r), list(p) + [p[0]] if p else list(p), lo, hi, ty, idx)
    return (list(r), list(p), lo, hi, ty, idx)


def random_history(rng: random.Random, steps: int, wild_ok: bool):
    from naunet.network import Network
    pool = rng.sample(POOL_SPECIES, rng.randint(6, 14))
    kw = {}
    if rng.random() < 0.3:
        kw["allowed_species"] = rng.sample(pool, rng.randint(2, len(pool)))
    elif rng.random() < 0.3:
        kw["required_species"] = rng.sample(pool, rng.randint(1, 3))
    seen = [random_reaction(rng, wild_ok, pool) for _ in range(4)]
    if rng.random() < 0.5:
        net = Network([mk(d) for d in seen[:2]], **kw)
    else:
        net = Network(**kw)
    last = None
    for _ in range(steps):
        op = rng.choice(["add", "add", "add", "addvar", "addvar", "rmidx", "rmidxs", "rminst", "rminsts", "allow", "allow0",
                         "require", "reindex", "find", "find", "rmdup", "addstr", "addderived", "addfile", "rmwhere", "refused"])
        n = len(net.reaction_list)
        if op == "add":
            d = random_reaction(rng, wild_ok, pool)
            seen.append(d)
            net.add_reaction(mk(d))
        elif op == "addvar":
            d = variants_of(rng, rng.choice(seen))
            seen.append(d)
            net.add_reaction(mk(d))
        elif op == "addderived" and n:
            # a reaction DERIVED from one the network already holds (and may already have hashed): shallow copy, then every attribute
            # that makes up its identity is rewritten -- the way reverse / isotopologue reactions are produced from a template
            import copy
            d = rng.choice(seen)
            tmpl = mk(d)
            new = copy.copy(rng.choice(net.reaction_list))
            new.reactants, new.products = list(tmpl.reactants), list(tmpl.products)
            new.temp_min, new.temp_max, new.reaction_type, new.idxfromfile = tmpl.temp_min, tmpl.temp_max, tmpl.reaction_type, tmpl.idxfromfile
            net.add_reaction(new)
        elif op == "addfile":
            # add_reaction_from_file: a small file in the exchange format (written by the harness's own encoder), blank line included
            import encoders
            import tempfile
            ds = [random_reaction(rng, False, pool) if rng.random() < 0.5 else rng.choice(seen) for _ in range(rng.randint(1, 3))]
            ds = [d2 for d2 in ds if d2[4] != 999]
            seen.extend(ds)
            with tempfile.NamedTemporaryFile("w", suffix=".naunet", delete=False, dir=os.environ.get("TMPDIR")) as tf:
                for j, d2 in enumerate(ds):
                    tf.write(encoders.native({"r": list(d2[0]), "p": list(d2[1]), "a": 1.0e-10, "b": 0.0, "c": 0.0, "tmin": d2[2], "tmax": d2[3],
                                              "idx": d2[5] if d2[5] >= 0 else j + 1, "code": d2[4]}) + "\n" + ("\n" if j == 0 else ""))
            try:
                net.add_reaction_from_file(tf.name, "naunet")
            finally:
                os.unlink(tf.name)
        elif op == "addstr":
            d = rng.choice(seen)
            s = f"{mk(d):naunet}"
            net.add_reaction((s, "naunet"))
        elif op == "refused":
            # an edit the object refuses (the caller catches the error and goes on): nothing may have changed
            kind = rng.choice(["allow", "allow", "require", "rmidx", "add"])
            try:
                if kind == "allow":
                    net.allowed_species = rng.sample(pool, rng.randint(1, len(pool))) + ["Qq"]
                elif kind == "require":
                    net.required_species = rng.sample(pool, rng.randint(0, 2)) + ["Qq"]
                elif kind == "rmidx":
                    net.remove_reaction(n + rng.randint(0, 3))
                else:
                    net.add_reaction(("1,H,Qq,,H2,,,,,1.0e-10,0.0,0.0,-1.0,-1.0,100,test", "naunet"))
            except Exception:   # noqa
                pass
        elif op == "rmwhere" and n:
            # what `naunet extend --remove-species` does, for one species (by name or as an object) and any of the three modes
            from naunet.species import Species
            nm = rng.choice(pool)
            net.remove_reaction(net.where_species(nm if rng.random() < 0.5 else Species(nm), rng.choice(["all", "all", "reactant", "product"])))
        elif op == "rmidx" and n:
            net.remove_reaction(rng.randrange(n))
        elif op == "rmidxs" and n:
            idxs = sorted(rng.sample(range(n), rng.randint(1, min(3, n))))
            if rng.random() < 0.4:       # an index list may name a position twice (where_species(a) + where_species(b)), in any order
                idxs = idxs + [rng.choice(idxs)]
                rng.shuffle(idxs)
            net.remove_reaction(idxs)
        elif op == "rminst":
            net.remove_reaction(mk(rng.choice(seen)))
        elif op == "rminsts":
            net.remove_reaction([mk(rng.choice(seen)) for _ in range(rng.randint(1, 3))])
        elif op == "allow":
            net.allowed_species = rng.sample(pool, rng.randint(2, len(pool)))
        elif op == "allow0":
            net.allowed_species = []
        elif op == "require":
            allowed = net.allowed_species
            cand = allowed if allowed else pool
            net.required_species = rng.sample(cand, rng.randint(0, min(3, len(cand))))
        elif op == "reindex":
            net.reindex()
        elif op == "find":
            last = (net, net.find_duplicate_reaction(rng.choice([None, "brief", "minimal", "short"])))
            continue
        elif op == "rmdup" and last and last[0] is net:
            net.remove_reaction(list(last[1][1]))
        last = None


def dup_lists(rng: random.Random, n_lists: int, wild_ok: bool):
    """targeted C15 cases: lists with permuted / respelled / windowed / retyped repeats, triples and longer runs"""
    from naunet.network import Network
    # an index list that names a position twice, front / middle / back
    for idxs in ([1, 1], [0, 2, 2, 0], [3, 1, 3], [4, 4, 0]):
        net = Network([mk(d) for d in UNIVERSE[:5]])
        net.remove_reaction(list(idxs))
    if wild_ok:
        # the recorded witness of the non-transitive equality: [TWOBODY, UNKNOWN, COSMICRAY] of the same species
        for perm in itertools.permutations([UNIVERSE[0], UNIVERSE[7], UNIVERSE[8]]):
            net = Network([mk(d) for d in perm])
            net.find_duplicate_reaction()
    # a species that takes part in reactions is ALSO declared as required; then every reaction that mentions it leaves the network
    # (by removal, by a narrower allowed list): it stays a species, exactly as if the network had been constructed that way
    for how in ("remove", "allow", "removeall"):
        net = Network([mk(d) for d in (UNIVERSE[3], UNIVERSE[0], UNIVERSE[2])])       # C + H -> CH ; H + H -> H2 ; H2 -> H + H
        net.required_species = ["C", "CH"]
        if how == "remove":
            net.remove_reaction(0)
        elif how == "allow":
            net.allowed_species = ["H", "H2"]
            net.allowed_species = []
        else:
            net.remove_reaction([0, 1, 2])
        net.find_duplicate_reaction()
    # the same reaction arriving through DIFFERENT readers (a network merged from a KIDA, a UMIST and a native file): each reader
    # has its own Reaction subclass; under the default and the brief mode they are repeats of each other
    import encoders
    for rec in ({"r": ["H", "CH"], "p": ["C", "H2"], "tmin": 10.0, "tmax": 300.0},
                {"r": ["C+", "e-"], "p": ["C"], "tmin": 10.0, "tmax": 41000.0},
                {"r": ["H2", "O"], "p": ["OH", "H"], "tmin": 300.0, "tmax": 9999.0}):
        rec = dict(rec, a=1.0e-10, b=0.5, c=0.0, idx=7)
        forms = [(encoders.kida(dict(rec, code=3)), "kida"), (encoders.umist(dict(rec, code="NN")), "umist"),
                 (encoders.native(dict(rec, code=100)), "naunet"), (encoders.umist(dict(rec, code="NN", r=rec["r"][::-1])), "umist"),
                 (encoders.kida(dict(rec, code=3, r=rec["r"][::-1])), "kida")]
        for order in ((0, 1, 2), (1, 0, 2), (2, 1, 0), (0, 3, 4, 1), (3, 0)):
            net = Network()
            for k in order:
                net.add_reaction(forms[k])
            for mode in (None, "brief", "minimal", "short"):
                net.find_duplicate_reaction(mode)
            _, dupidx, _ = net.find_duplicate_reaction()
            net.remove_reaction(list(dupidx))
            net.find_duplicate_reaction()
    for _ in range(n_lists):
        base = [random_reaction(rng, wild_ok) for _ in range(rng.randint(1, 3))]
        lst = []
        for d in base:
            lst.append(d)
            for _ in range(rng.randint(0, 3)):
                lst.append(variants_of(rng, d))
        rng.shuffle(lst)
        net = Network([mk(d) for d in lst])
        for mode in (None, "brief", "minimal", "short"):
            _, dupidx, _ = net.find_duplicate_reaction(mode)
        mode = rng.choice([None, "brief", "minimal", "short"])
        _, dupidx, _ = net.find_duplicate_reaction(mode)
        net.remove_reaction(list(dupidx))
        net.find_duplicate_reaction(mode)
        # a reaction derived from one the searches above have already hashed (shallow copy, identity rewritten to that of ANOTHER entry
        # the network holds or held): the next search must see it as the repeat it is
        if net.reaction_list and len(lst) > 1:
            import copy
            src = net.reaction_list[0]
            other = next((d for d in lst if not (mk(d) == src)), None)
            if other is not None:
                tmpl = mk(other)
                new = copy.copy(src)
                new.reactants, new.products = list(tmpl.reactants), list(tmpl.products)
                new.temp_min, new.temp_max, new.reaction_type, new.idxfromfile = tmpl.temp_min, tmpl.temp_max, tmpl.reaction_type, tmpl.idxfromfile
                net.add_reaction(new)
                net.add_reaction(mk(other))
                for m2 in (None, "short"):
                    net.find_duplicate_reaction(m2)


# ------------------------------------------------------------------------------- naunet extend

def extend_runs(ctx: Ctx, rng: random.Random, n: int):
    """Run the network-editing command in scratch projects; its Network calls are recorded like any other."""
    from cleo.application import Application
    from cleo.testers.command_tester import CommandTester
    from naunet.console.commands.extend import ExtendCommand
    from naunet.configuration import BaseConfiguration
    from naunet.network import Network
    app = Application()
    app.add(ExtendCommand())
    results = []
    cwd = os.getcwd()
    for k in range(n):
        d = ctx.sub(f"extend_{k}")
        (d / "naunet_config.toml").write_text(BaseConfiguration("p").content)
        # an input network in the native format
        pool = ["H", "H2", "C", "CH", "O", "OH", "CO", "e-", "H+", "C+", "#H", "#CO", "#OH"]
        descs = [random_reaction(rng, False, pool) for _ in range(rng.randint(3, 8))]
        descs += [variants_of(rng, rng.choice(descs)) for _ in range(rng.randint(0, 3))]
        netrec.stop()
        # the input file is written by the harness's own encoder of the exchange format (not by naunet)
        import encoders
        recs = [{"r": list(x[0]), "p": list(x[1]), "a": 1.0e-10 * (k2 + 1), "b": 0.0, "c": 0.0, "tmin": x[2], "tmax": x[3], "idx": k2 + 1, "code": x[4]}
                for k2, x in enumerate(descs)]
        (d / "in.naunet").write_text("".join(encoders.native(r) + "\n" for r in recs))
        from naunet.reactiontype import ReactionType as _RT
        input_keys = [(tuple(x[0]), tuple(x[1]), round(x[2] * 10), round(x[3] * 10), int(x[4]), k2 + 1, _RT(int(x[4])).name) for k2, x in enumerate(descs)]
        opts = []
        optrec = {"red": False, "reduce": [], "rm": False, "rmspecies": [], "rmdup": False, "phases": []}
        if rng.random() < 0.5:
            opts.append("--remove-duplicate")
            optrec["rmdup"] = True
        if rng.random() < 0.5:
            optrec["rm"], optrec["rmspecies"] = True, rng.sample(pool, rng.choice([1, 1, 2]))
            opts.append("--remove-species=" + ",".join(optrec["rmspecies"]))
        if rng.random() < 0.4:
            optrec["red"], optrec["reduce"] = True, rng.sample(pool, rng.randint(4, len(pool)))
            opts.append("--reduce-by-species=" + ",".join(optrec["reduce"]))
        for o in ("--append-depletion", "--append-thermal-desorption", "--append-photon-desorption", "--append-cosmic-ray-desorption"):
            if rng.random() < 0.4:
                opts.append(o)
        os.chdir(d)
        rec = netrec.start()
        err = ""
        try:
            tester = CommandTester(app.find("extend"))
            with quiet():
                rc = tester.execute("in.naunet out.naunet " + " ".join(opts))
            if rc != 0:
                err = (tester.io.fetch_error() or tester.io.fetch_output())[-300:]
        except Exception as e:   # noqa
            err = f"{type(e).__name__}: {e}"
        finally:
            netrec.stop()
            os.chdir(cwd)
        # fold the trailing Add events of the command's append phases into one event per REQUESTED phase (the phases are
        # distinguishable by the type of the reactions they append; a requested phase that appended nothing is an empty event)
        if not err and rec.order:
            sl = rec.nets[rec.order[-1]]
            evs = sl["ev"]
            tail = len(evs)
            while tail > 0 and evs[tail - 1]["act"] in ("Reindex",):
                tail -= 1
            end = tail
            while tail > 0 and evs[tail - 1]["act"] == "Add" and evs[tail - 1]["i"][4] in (200, 201, 202, 203):
                tail -= 1
            adds = evs[tail:end]
            phases = []
            base_post = evs[tail - 1]["post"] if tail > 0 else None
            if base_post is None and tail > 0 and evs[tail - 1]["act"] == "Init":    # a network constructed empty
                base_post = {"rlist": [], "skipped": [], "reactants": [], "products": [], "species": [], "sources": [], "sinks": [], "idxs": [], "allowed": []}
            for flag, ty, act in (("--append-depletion", 200, "AppendDepletion"), ("--append-thermal-desorption", 201, "AppendDesorption"),
                                  ("--append-photon-desorption", 203, "AppendDesorption"), ("--append-cosmic-ray-desorption", 202, "AppendDesorption")):
                if flag in opts:
                    grp = [e for e in adds if e["i"][4] == ty]
                    post = grp[-1]["post"] if grp else (phases[-1]["post"] if phases else base_post)
                    phases.append({"act": act, "ty": ty, "ids": [e["i"] for e in grp], "post": post, "err": ""})
            if base_post is not None:
                sl["ev"] = evs[:tail] + phases + evs[end:]
        optrec["phases"] = [ty for flag, ty in (("--append-depletion", 200), ("--append-thermal-desorption", 201), ("--append-photon-desorption", 203),
                                                ("--append-cosmic-ray-desorption", 202)) if flag in opts]
        results.append({"opts": opts, "err": err, "rec": rec, "dir": d, "n_in": len(descs), "optrec": optrec, "input_keys": input_keys})
    return results


def read_native(path) -> list[dict]:
    """the harness's own reader of the exchange format: idx, 3 reactants, 5 products, alpha, beta, gamma, Tmin, Tmax, type, source"""
    out = []
    for line in Path(path).read_text().splitlines():
        if not line.strip() or line.lstrip().startswith("#"):
            continue
        f = [x.strip() for x in line.split(",")]
        if len(f) < 15:
            raise MachineryError(f"unreadable line in {path}: {line!r}")
        out.append({"idx": int(f[0]), "r": [x for x in f[1:4] if x], "p": [x for x in f[4:9] if x], "tmin": float(f[12]), "tmax": float(f[13]), "ty": int(f[14])})
    return out


def command_traces(ext: list[dict], tid0: int) -> list[dict]:
    """one trace per successful `naunet extend` run for Trace_ExtendCmd.tla: every Network call of the command on every object it
    made, in order; the construction of the reduced network folded into one Rebuild event; a final Write event read from the file"""
    out = []
    for e in ext:
        if e["err"] or not e["rec"].order:
            continue
        tr = netrec.to_traces(e["rec"], tid0=tid0 + len(out) + 1, merge=True, extra_keys=e["input_keys"])[0]
        evs, k = [], 0
        raw = tr["ev"]
        while k < len(raw):
            ev = raw[k]
            if ev["act"] == "Init" and ev.get("obj", 1) > 1:
                ids, post = [], ev["post"]
                k += 1
                while k < len(raw) and raw[k]["act"] == "Add" and tr["R"][raw[k]["i"] - 1]["ty"] not in (200, 201, 202, 203):
                    ids.append(raw[k]["i"])
                    post = raw[k]["post"]
                    k += 1
                evs.append({"act": "Rebuild", "ids": ids, "post": post, "err": ""})
                continue
            evs.append(ev)
            k += 1
        rank, cls = tr["name_rank"], tr["class_of"]
        written = read_native(e["dir"] / "out.naunet")
        evs.append({"act": "Write", "err": "", "out": [{"rn": [rank.get(x, 0) for x in w["r"]], "pn": [rank.get(x, 0) for x in w["p"]],
                                                         "tmin": round(w["tmin"] * 10), "tmax": round(w["tmax"] * 10), "ty": w["ty"]} for w in written]})
        o = e["optrec"]
        tr["ev"] = evs
        tr["input"] = tr.pop("extra_ids")
        tr["opt"] = {"red": o["red"], "reduce": sorted(rank[x] for x in o["reduce"] if x in rank), "rm": o["rm"],
                     "rmspecies": sorted(cls[x] for x in o["rmspecies"] if x in cls), "rmdup": o["rmdup"], "phases": o["phases"]}
        tr["cmdline"] = " ".join(e["opts"])
        tr["written"] = written
        del tr["name_rank"], tr["class_of"]
        out.append(tr)
    return out


# ------------------------------------------------------------------------------- main

def feature_of(tr: dict, at: int, clause: str) -> str:
    ev = tr["ev"][at - 1] if 0 < at <= len(tr["ev"]) else {}
    act = ev.get("act", "?")
    if clause in ("Inv:ReportIsDecl", "Inv:RemovalSound", "DupReport", "DupFirst"):
        ids = ev.get("post", {}).get("rlist", [])
        wild = any(tr["R"][i - 1]["ty"] == 999 for i in ids)
        return f"mode={ev.get('mode', '?')},wildcard={'UNKNOWN' if wild else 'none'}"
    return f"act={act}"


def main(ctx: Ctx) -> int:
    import_naunet()
    pid = ctx.pid
    cov: dict = {"samples": []}
    # ---- (A)
    base = (SPEC / "MC_NetworkEdit_quick.cfg").read_text()
    depth = 5 if ctx.quick else 7
    maxlen = 3 if ctx.quick else 4
    cfg = ctx.scratch / "mc.cfg"
    cfg.write_text(base.replace("MaxDepth = 6", f"MaxDepth = {depth}").replace("MaxLen = 3", f"MaxLen = {maxlen}"))
    r = run_tlc("MC_NetworkEdit.tla", str(cfg), ctx.sub("meta") / "mc", workers=16, coverage=ctx.quick, timeout=3000)
    require_clean_mc(r, "MC_NetworkEdit")
    if r["error"]:
        ctx.violation(f"{pid}|Design|{','.join(r['violated']) or 'error'}", "TLC counterexample in NetworkEdit (model of the code as is)",
                      {"tlc": r["out"][-6000:]})
    if ctx.quick:
        z = [a for a in coverage_zero_actions(r["out"]) if "MC_NetworkEdit" in a]
        if z:
            raise MachineryError(f"vacuous model: {z}")
    cov["states"], cov["transitions"] = r["distinct"], r["generated"]
    for v, expect in (("stale_remove", "CacheConsistent"), ("keep_skipped", "NothingLost"), ("hash_by_name", "ReportIsDecl")):
        if ctx.quick and ((pid == "C14") != (v != "hash_by_name")):
            continue
        c = ctx.scratch / f"var_{v}.cfg"
        c.write_text(base.replace('Variant = "asis"', f'Variant = "{v}"'))
        rv = run_tlc("MC_NetworkEdit.tla", str(c), ctx.sub("meta") / f"var_{v}", workers=8)
        if expect not in rv["violated"]:
            raise MachineryError(f"seeded design variant {v} not caught (expected {expect}, got {rv['violated']})")
        cov["design_variants_caught"] = cov.get("design_variants_caught", 0) + 1
    if pid == "C15":
        c = ctx.scratch / "wild.cfg"
        c.write_text(base.replace("Wild = FALSE", "Wild = TRUE"))
        rw = run_tlc("MC_NetworkEdit.tla", str(c), ctx.sub("meta") / "wild", workers=16)
        cov["states"] += rw.get("distinct", 0)
        cov["transitions"] += rw.get("generated", 0)
        if rw["error"]:
            ctx.violation("C15|Design|" + ",".join(rw["violated"]) + "|mode=default,wildcard=UNKNOWN",
                          "model of find_duplicate_reaction as coded: with an UNKNOWN-typed reaction equality is not transitive and the "
                          "first-seen table misses a repeat (list [TWOBODY, UNKNOWN, COSMICRAY] of the same species)",
                          {"tlc": rw["out"][-5000:]})

    # ---- (B) + (C): everything below runs real code under the recorder
    rng = random.Random(ctx.seed)
    traces: list[dict] = []
    origin: dict[int, str] = {}

    def harvest(rec, kind, extra=None):
        new = netrec.to_traces(rec, tid0=len(traces) + 1)
        for t in new:
            origin[t["tid"]] = kind
            if extra:
                t["note"] = extra
        traces.extend(new)

    crashed = 0
    hists = sim_histories(ctx, 150 if ctx.quick else 2500, 10 if ctx.quick else 14, wild=False)
    hists += sim_histories(ctx, 40 if ctx.quick else 500, 8, wild=True) if pid == "C15" else []
    cov["spec_behaviours_replayed"] = len(hists)
    for h in hists:
        rec = netrec.start()
        rec.queries = True
        try:
            replay_history(h)
        except MachineryError:
            raise
        except Exception as e:   # the real code refused a step the specification allows
            ctx.violation(f"{pid}|SpecToCode|{type(e).__name__}|act={h[min(len(h), 1) - 1][0]}",
                          f"real Network raised {type(e).__name__}: {e} while following a specification behaviour", {"history": h})
            crashed += 1
        finally:
            netrec.stop()
        harvest(rec, "spec->code")
    n_rand = 60 if ctx.quick else 1200
    for k in range(n_rand):
        rec = netrec.start()
        rec.queries = True
        try:
            random_history(rng, rng.randint(5, 40), wild_ok=False)
        except Exception as e:   # noqa
            crashed += 1
            ctx.violation(f"{pid}|History|{type(e).__name__}", f"real Network raised {type(e).__name__}: {e} in a random edit history", None)
        finally:
            netrec.stop()
        harvest(rec, "random history")
    rec = netrec.start()
    rec.queries = True
    try:
        dup_lists(rng, 40 if ctx.quick else 800, wild_ok=False)
        dup_lists(rng, 10 if ctx.quick else 100, wild_ok=True)
    finally:
        netrec.stop()
    harvest(rec, "duplicate lists")
    if not ctx.quick:
        # the repository's own network tests, run under the recorder: every Network they build becomes a validated trace
        import pytest
        from naunet.species import Species
        cwd = os.getcwd()
        rec = netrec.start()
        try:
            os.chdir(REPO)
            with quiet():
                pytest.main(["-q", "-p", "no:cacheprovider", "-x", "--no-header", "tests/test_network.py", "-k", "not export and not generate"])
        except BaseException as e:   # noqa
            ctx.notes.append(f"pytest under the recorder ended with {type(e).__name__}")
        finally:
            netrec.stop()
            os.chdir(cwd)
            Species.reset()
        before = len(traces)
        harvest(rec, "repository tests")
        cov["traces_from_repository_tests"] = len(traces) - before
    if pid == "C14":
        ext = extend_runs(ctx, rng, 40 if ctx.quick else 400)
        bad = [e for e in ext if e["err"]]
        cov["extend_runs"] = len(ext)
        cov["extend_failed"] = len(bad)
        for e in bad[:1]:
            m = re.search(r'option "?--?([\w-]+)"? does not exist', e["err"])
            feat = f"option={m.group(1)}" if m else e["err"].split(":")[0][:40]
            ctx.violation(f"C14|ExtendCmd|abort|{feat}", f"`naunet extend {' '.join(e['opts'])}` aborted: {e['err'][:200]}",
                          {"opts": e["opts"], "error": e["err"]})
        for e in ext:
            if not e["err"]:
                harvest(e["rec"], "naunet extend", " ".join(e["opts"]))
        # the command as a whole against ExtendCmd.tla (phases, arguments dictated by the options, written file)
        base_c = (SPEC / "MC_ExtendCmd.cfg").read_text()
        cfgc = ctx.scratch / "mc_cmd.cfg"
        cfgc.write_text(base_c if ctx.quick else base_c.replace("MaxIn = 3", "MaxIn = 4"))
        rc = run_tlc("MC_ExtendCmd.tla", str(cfgc), ctx.sub("meta") / "mc_cmd", workers=16, timeout=3000)
        require_clean_mc(rc, "MC_ExtendCmd")
        if rc["error"]:
            ctx.violation(f"C14|Design|Cmd|{','.join(rc['violated']) or 'error'}", "TLC counterexample in ExtendCmd (model of the command as is)", {"tlc": rc["out"][-6000:]})
        cov["cmd_model_states"] = rc["distinct"]
        for vname in ("dup_minimal", "rm_reactants_only"):
            cv = ctx.scratch / f"cmd_{vname}.cfg"
            cv.write_text(base_c.replace('CmdVariant = "asis"', f'CmdVariant = "{vname}"'))
            rv = run_tlc("MC_ExtendCmd.tla", str(cv), ctx.sub("meta") / f"cmd_{vname}", workers=8)
            if "PipelineResult" not in rv["violated"]:
                raise MachineryError(f"seeded command variant {vname} not caught")
        ctraces = command_traces(ext, 0)
        vc = validate_traces(ctx, "Trace_ExtendCmd.tla", "Trace_ExtendCmd.cfg", ctraces, "cmd", chunk=500)
        cov["cmd_traces"] = len(ctraces)
        cov["cmd_traces_accepted"] = vc["accepted"]
        cov["cmd_trace_states"] = vc["states"]
        cbyt = {t["tid"]: t for t in ctraces}
        for t, rj in sorted(vc["rejected"].items()):
            tr = cbyt[t]
            clause = (rj["clauses"] or ["NoEnabledAction"])[0]
            at = rj["at"]
            ev = tr["ev"][at - 1] if 0 < at <= len(tr["ev"]) else {}
            ctx.violation(f"C14|Cmd:{clause}|act={ev.get('act', '?')}", f"`naunet extend {tr['cmdline']}`: at call {at} ({ev.get('act')}) the command model's clause "
                          f"{clause} fails; input reactions {[tr['R'][i - 1]['text'] + ' [' + str(tr['R'][i - 1]['tmin']) + ',' + str(tr['R'][i - 1]['tmax']) + '] ty' + str(tr['R'][i - 1]['ty']) for i in tr['input']]}",
                          {"trace": tr, "clauses": rj["clauses"], "at": at})

    traces = [t for t in traces if t["ev"]]
    v = validate_traces(ctx, "Trace_NetworkEdit.tla", "Trace_NetworkEdit.cfg", traces, "net", chunk=1500)
    cov["traces_validated_against_impl"] = len(traces)
    cov["traces_accepted"] = v["accepted"]
    cov["trace_states"] = v["states"]
    cov["events_validated"] = sum(len(t["ev"]) for t in traces)
    cov["extend_append_phase_events"] = sum(1 for t in traces for e in t["ev"] if e["act"] in ("AppendDepletion", "AppendDesorption"))
    bytid = {t["tid"]: t for t in traces}
    mine = other = 0
    for tid, rj in sorted(v["rejected"].items()):
        clause = (rj["clauses"] or ["NoEnabledAction"])[0]
        is15 = clause in C15_CLAUSES
        if (pid == "C15") != is15:
            other += 1
            continue
        mine += 1
        tr = bytid[tid]
        at = rj["at"]    # the last state satisfying everything has l = at: event `at` is the offending one
        at = max(1, min(at, len(tr["ev"])))
        feat = feature_of(tr, at, clause)
        ev = tr["ev"][at - 1]
        ctx.violation(f"{pid}|{clause}|{feat}",
                      f"{origin[tid]}: trace {tid} rejected at event {rj['at']} ({ev['act']}) clauses {rj['clauses']}; "
                      f"reactions: {[tr['R'][i - 1]['text'] + ' ty=' + str(tr['R'][i - 1]['ty']) for i in ev['post']['rlist']][:8]}",
                      {"origin": origin[tid], "trace": tr, "rejected_at": rj["at"], "clauses": rj["clauses"]})
    # query clauses outside the listed properties (where_species by role, where_reaction): reported as notes, never as violations
    qn: dict = {}
    for tid, lst in sorted(v.get("notes", {}).items()):
        for l, clause in lst:
            qn[clause] = qn.get(clause, 0) + 1
            if qn[clause] <= 2:
                tr = bytid[tid]
                ctx.notes.append(f"beyond the listed properties: query clause {clause} fails in trace {tid} ({origin[tid]}) at event {l} "
                                 f"({tr['ev'][max(0, min(l, len(tr['ev'])) - 1)]['act']})")
    cov["query_answers_checked"] = sum(len(e["post"].get("ws", [])) + len(e["post"].get("wr", [])) for t in traces for e in t["ev"])
    cov["query_mismatches_beyond_listed_properties"] = qn
    cov["rejections_of_this_property"] = mine
    cov["rejections_of_sibling_property"] = other
    kinds = {}
    for t in traces:
        kinds[origin[t["tid"]]] = kinds.get(origin[t["tid"]], 0) + 1
    cov["trace_kinds"] = kinds
    if traces:
        t = traces[len(traces) // 2]
        cov["samples"].append({"kind": origin[t["tid"]], "universe": [x["text"] for x in t["R"]][:6],
                               "events": [{k: e[k] for k in e if k != "post"} for e in t["ev"][:8]]})
    cov["rule"] = ("histories = sequences of Network API calls (add / add string / remove by index, index list, instance, instance list / "
                   "set allowed / set required / find duplicates in 4 modes / remove duplicates / reindex / naunet extend); "
                   "non-trivial = at least one removal, filter change or duplicate query")
    cov["exhaustive"] = False
    return finish(ctx, "model_checking", cov, [
        "species classes are the classes of the real Species.__eq__ (species identity itself is C08/C09's subject)",
        "reaction objects are not shared between list positions",
    ])

#!/bin/bash
# runs every kept seeded change against its property's quick check (scratch copies of /repo); prints one line per change
cd /verif
for d in seeded/*/; do
  id=$(basename $d); pid=${id%%-*}
  f=$d/patch.diff; [ -f $d/patch_ported.diff ] && f=$d/patch_ported.diff
  sibling=$(python3 -c "import json,sys; print(json.load(open('$d/meta.json')).get('caught_by_sibling_check',''))" 2>/dev/null)
  [ -n "$sibling" ] && pid=$sibling
  nc=$(python3 -c "import json,sys; print('recorded-as-not-caught' if json.load(open('$d/meta.json')).get('not_caught') else '')" 2>/dev/null)
  ( out=$(harness/mutant_test.sh /verif/$f $pid 2>&1); rc=$?; sig=$(echo "$out" | grep -m1 "signature:" | sed 's/.*signature: //'); echo "MUTANT $id on=$pid rc=$rc $sig $nc" ) &
  while [ $(jobs -r | wc -l) -ge 5 ]; do sleep 1; done
done
wait
echo ALL-MUTANTS-DONE

#!/bin/bash
# runs the thorough tier of the given checks (default: all), N at a time (env PAR, default 3); prints one line per check
cd /verif
checks="${*:-$(python3 -c "import json; print(' '.join(c['property_id'] for c in json.load(open('MANIFEST.json'))['checks']))")}"
for p in $checks; do
  ( t0=$(date +%s); ./check $p --tier thorough > /tmp/thorough_$p.txt 2>&1; rc=$?; echo "THOROUGH $p rc=$rc secs=$(( $(date +%s) - t0 ))" ) &
  while [ $(jobs -r | wc -l) -ge ${PAR:-3} ]; do sleep 2; done
done
wait
echo THOROUGH-DONE

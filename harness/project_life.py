"""Life of a naunet project directory (Project.tla): init / hand edit / render [--force] / render --patch / second init.

(A) TLC checks Project.tla (and four seeded variants must fail).
(B) spec -> code: TLC-simulated behaviours are replayed with the REAL commands (cleo CommandTester, non-interactive) in scratch
    project directories; after every command the directory is inspected from outside and the history is validated by
    Trace_Project.tla.  References (tree hash, summary, patch hash per description) come from fresh single-shot projects."""
from __future__ import annotations

import hashlib
import os
import re
import shutil
from pathlib import Path

import tomlkit

from common import Ctx, MachineryError, REPO, SPEC, import_naunet, parse_tla, quiet, require_clean_mc, run_tlc, validate_traces

DESCS = [1, 2, 3, 4]
BASE_CLI = ("--name=proj --description=desc --loading=null --elements=null --pseudo-elements=null --element-replacement=null "
            "--surface-prefix='#' --bulk-prefix='@' --grain-symbol=GRAIN --allowed-species=null --extra-species=null --binding=null --yield=null "
            "--shielding=null --network-files=minimal.kida --file-formats=kida --heating=null --cooling=null --grain-model=null "
            "--solver=cvode --device=cpu --method=dense")


def apply_desc(doc, d: int):
    """the hand edit that turns the configuration into description d (1 = as initialised)"""
    ch = doc["chemistry"]
    ch["species"]["required"] = ["He"] if d == 2 else []
    rm = tomlkit.table()
    if d == 3:
        rm["6599"] = "4.2e-10"
    ch["rate_modifier"] = rm
    doc["ODEsolver"]["method"] = "sparse" if d == 4 else "dense"


def desc_of(doc) -> int:
    """which description the configuration tables hold (99 = none of them)"""
    try:
        ch = doc["chemistry"]
        req, rm, method = list(ch["species"]["required"]), dict(ch["rate_modifier"]), doc["ODEsolver"]["method"]
    except Exception:   # noqa
        return 99
    for d in DESCS:
        if req == (["He"] if d == 2 else []) and rm == ({"6599": "4.2e-10"} if d == 3 else {}) and method == ("sparse" if d == 4 else "dense"):
            return d
    return 99


def dir_hash(root: Path, subs) -> str | None:
    h, n = hashlib.sha256(), 0
    for sub in subs:
        for p in sorted((root / sub).rglob("*")) if (root / sub).exists() else []:
            if p.is_file():
                txt = p.read_bytes()
                h.update(str(p.relative_to(root)).encode() + b"\0" + txt + b"\0")
                n += 1
    return h.hexdigest() if n else None


class Shell:
    def __init__(self):
        from cleo.application import Application
        from cleo.testers.command_tester import CommandTester
        from naunet.console.commands.init import InitCommand
        from naunet.console.commands.render import RenderCommand
        self.app = Application()
        self.app.add(InitCommand())
        self.app.add(RenderCommand())
        self.Tester = CommandTester

    def run(self, d: Path, cmd: str, args: str):
        from naunet import chemistrydata
        from naunet.species import Species
        Species.reset()
        chemistrydata.user_binding_energy.clear()
        chemistrydata.user_photon_yield.clear()
        cwd = os.getcwd()
        os.chdir(d)
        try:
            t = self.Tester(self.app.find(cmd))
            with quiet():
                return t.execute(args, interactive=False), ""
        except SystemExit as e:     # the command declined (a confirmation answered "no")
            return (e.code or 0), "exit"
        except Exception as e:   # noqa
            return 1, f"{type(e).__name__}: {str(e)[:200]}"
        finally:
            os.chdir(cwd)
            Species.reset()


def observe(d: Path, refs: dict) -> dict:
    cf = d / "naunet_config.toml"
    cfg_id, summ_ids = 0, [0]
    if cf.exists():
        doc = tomlkit.loads(cf.read_text())
        cfg_id = desc_of(doc)
        if "summary" in doc:
            s = {k: (list(v) if isinstance(v, list) else v) for k, v in dict(doc["summary"]).items()}
            empty = all((v == 0 or v == []) for v in s.values())        # `naunet init` writes an all-empty summary table
            summ_ids = [0] if empty else ([k for k in DESCS if refs[k]["summary"] == s] or [99])
    th = dir_hash(d, ("include", "src", "python"))
    ph = dir_hash(d, ("enzo",))
    return {"cfg_id": cfg_id, "summ_ids": summ_ids,
            "tree_ids": [0] if th is None else ([k for k in DESCS if refs[k]["tree"] == th] or [99]),
            "patch_ids": [0] if ph is None else ([k for k in DESCS if refs[k]["patch"] == ph] or [99])}


def new_project(d: Path):
    d.mkdir(parents=True)
    shutil.copy(REPO / "tests" / "data" / "minimal.kida", d / "minimal.kida")


def references(ctx: Ctx, sh: Shell) -> dict:
    refs = {}
    for k in DESCS:
        d = ctx.scratch / "pl_ref" / str(k)
        new_project(d)
        rc, err = sh.run(d, "init", BASE_CLI)
        if rc != 0 or not (d / "naunet_config.toml").exists():
            raise MachineryError(f"reference project: naunet init failed: {err}")
        doc = tomlkit.loads((d / "naunet_config.toml").read_text())
        apply_desc(doc, k)
        (d / "naunet_config.toml").write_text(tomlkit.dumps(doc))
        rc, err = sh.run(d, "render", "--force")
        if rc != 0:
            raise MachineryError(f"reference project {k}: naunet render failed: {err}")
        rc, err = sh.run(d, "render", "--patch=enzo")
        if rc != 0:
            raise MachineryError(f"reference project {k}: naunet render --patch failed: {err}")
        doc = tomlkit.loads((d / "naunet_config.toml").read_text())
        refs[k] = {"tree": dir_hash(d, ("include", "src", "python")), "patch": dir_hash(d, ("enzo",)),
                   "summary": {kk: (list(v) if isinstance(v, list) else v) for kk, v in dict(doc["summary"]).items()}}
    if len({r["tree"] for r in refs.values()}) != len(DESCS):
        raise MachineryError("the reference descriptions do not render to distinct sources")
    return refs


def replay(sh: Shell, d: Path, acts: list, refs: dict) -> list[dict]:
    new_project(d)
    evs = []
    for a in acts:
        kind = a[0]
        e = {"act": kind, "d": 0, "force": False}
        if kind == "Init":
            e["d"] = a[1]
            fresh = not (d / "naunet_config.toml").exists()
            rc, err = sh.run(d, "init", BASE_CLI)
            if fresh and rc == 0 and a[1] != 1:       # `init` takes options; the other descriptions are reached by the edit the options stand for
                doc = tomlkit.loads((d / "naunet_config.toml").read_text())
                apply_desc(doc, a[1])
                (d / "naunet_config.toml").write_text(tomlkit.dumps(doc))
        elif kind == "Edit":
            e["d"] = a[1]
            doc = tomlkit.loads((d / "naunet_config.toml").read_text())
            apply_desc(doc, a[1])
            (d / "naunet_config.toml").write_text(tomlkit.dumps(doc))
            rc, err = 0, ""
        elif kind == "Render":
            e["force"] = bool(a[1])
            rc, err = sh.run(d, "render", "--force" if a[1] else "")
        elif kind == "RenderPatch":
            rc, err = sh.run(d, "render", "--patch=enzo")
        else:
            raise MachineryError(f"unknown action {a}")
        e["rc"], e["err"] = rc, err
        e.update(observe(d, refs))
        evs.append(e)
    return evs


def run(ctx: Ctx, cov: dict, pid: str = "C20"):
    import_naunet()
    r = run_tlc("MC_Project.tla", "MC_Project.cfg", ctx.sub("meta") / "pl_mc", workers=4, timeout=600)
    require_clean_mc(r, "MC_Project")
    if r["error"]:
        ctx.violation(f"{pid}|Design|Project|{','.join(r['violated']) or 'error'}", "TLC counterexample in Project.tla (model of the commands as they are)",
                      {"tlc": r["out"][-4000:]})
    base = (SPEC / "MC_Project.cfg").read_text()
    for v in ("init_overwrites", "render_always", "summary_once", "patch_renders_all"):
        c = ctx.scratch / f"pl_{v}.cfg"
        c.write_text(base.replace('PVariant = "asis"', f'PVariant = "{v}"'))
        rv = run_tlc("MC_Project.tla", str(c), ctx.sub("meta") / f"pl_{v}", workers=2, timeout=600)
        if not rv["error"]:
            raise MachineryError(f"seeded project variant {v} not caught")
    cov["project_model_states"] = r["distinct"]
    cov["project_design_variants_rejected"] = 4
    # behaviours
    simdir = ctx.sub("pl_sim")
    cfg = ctx.scratch / "pl_sim.cfg"
    cfg.write_text(re.sub(r"INVARIANT.*\n|PROPERTY.*\n", "", base))
    nsim = 14 if ctx.quick else 250
    run_tlc("MC_Project.tla", str(cfg), ctx.sub("meta") / "pl_sim", workers=1,
            extra=["-simulate", f"file={simdir}/b,num={nsim}", "-depth", "9", "-seed", str(ctx.seed + 5)], timeout=600)
    hists, seen = [], set()
    for f in sorted(simdir.glob("b_*")):
        acts = [parse_tla(m.group(1)) for m in re.finditer(r"^/\\ last = (.*)$", f.read_text(), re.M)]
        acts = [a for a in acts if a[0] != "Start"]
        key = repr(acts)
        if acts and key not in seen:
            seen.add(key)
            hists.append(acts)
    hists += [
        [["Init", 1], ["Render", False], ["Render", False], ["Edit", 2], ["Render", False], ["Render", True], ["Render", True]],
        [["Init", 1], ["RenderPatch"], ["Render", False], ["Edit", 3], ["RenderPatch"], ["Init", 2], ["Render", True]],
        [["Init", 4], ["Render", True], ["Edit", 1], ["Render", True], ["Edit", 4], ["Render", False]],
    ]
    sh = Shell()
    refs = references(ctx, sh)
    traces = []
    for k, acts in enumerate(hists):
        evs = replay(sh, ctx.scratch / "pl_run" / str(k), acts, refs)
        traces.append({"tid": k + 1, "ev": evs, "acts": acts})
    v = validate_traces(ctx, "Trace_Project.tla", "Trace_Project.cfg", [{"tid": t["tid"], "ev": t["ev"]} for t in traces], "project")
    cov["project_histories_replayed"] = len(traces)
    cov["project_histories_accepted"] = v["accepted"]
    cov["project_commands_run"] = sum(len(t["ev"]) for t in traces)
    by = {t["tid"]: t for t in traces}
    for tid, rj in sorted(v["rejected"].items()):
        tr = by[tid]
        clause = (rj["clauses"] or ["NoEnabledAction"])[0]
        at = max(1, min(rj["at"], len(tr["ev"])))
        e = tr["ev"][at - 1]
        ctx.violation(f"{pid}|Project:{clause}|cmd={e['act']}", f"project history {tr['acts'][:at]}: after command {at} ({e['act']}, rc={e['rc']} {e['err']}) the directory "
                      f"holds cfg={e['cfg_id']} sources={e['tree_ids']} summary={e['summ_ids']} patch={e['patch_ids']}: {rj['clauses']}",
                      {"history": tr["acts"], "events": tr["ev"], "clauses": rj["clauses"], "at": at})

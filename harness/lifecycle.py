"""Life cycle of the generated solver object (cvode dense / sparse): Init -> (Reset | Solve)* -> Finalize.

Lifecycle.tla models the public entry points of naunet/templates/cvode/src/naunet.cpp.j2 (objects created / destroyed,
configuration stored / applied, declared layout of the matrix handed to the linear solver).  Here:
  (A) TLC checks the model and its seeded design variants;
  (B) the REAL generated class is compiled against the API stand-in, driven through every legal history of public calls up
      to a length bound plus random longer ones (shim/lifecycle_driver.cpp), and each recorded history is validated against the
      model with Trace_Lifecycle.tla.  A Solve event carries the Jacobian AS THE LINEAR SOLVER READS IT: the stand-in calls the
      generated Jacobian routine and decodes the matrix by the layout it was declared with.
Clauses about the matrix layout and the Jacobian entries belong to C03; the others (object balance, applied configuration)
go beyond the listed properties and are reported as notes, never as violations of a listed property."""
from __future__ import annotations

import itertools
import json
import random
import subprocess
from concurrent.futures import ThreadPoolExecutor
from pathlib import Path

import creader
from common import SHIM, SPEC, Ctx, MachineryError, compile_cpp, render, require_clean_mc, run_tlc, validate_traces

C03_CLAUSES = {"DeclaredLayout", "JacobianAsTheSolverReadsIt", "JacobianValuesAsDense", "Inv:SolverSeesDeclaredLayout",
               "Inv:JacobianReadAsFilled", "MatrixAttachedToItsSolver"}
OPS = [("I", 1), ("I", 2), ("R", 1), ("R", 2), ("S", 0), ("F", 0)]


def legal_histories(maxlen: int):
    """every history the model allows (phase machine), up to maxlen public calls; a history that ends "ready" gets a Finalize"""
    out = []

    def rec(hist, phase):
        if hist:
            out.append(list(hist) + ([("F", 0)] if phase == "ready" else []))
        if len(hist) >= maxlen or phase == "closed":
            return
        for op, n in OPS:
            if op == "I" and phase == "new":
                rec(hist + [(op, n)], "ready" if n == 1 else "new")
            elif op in ("R", "S") and phase == "ready":
                rec(hist + [(op, n)], "ready")
    rec([], "new")
    # de-duplicate
    seen, uniq = set(), []
    for h in out:
        k = tuple(h)
        if k not in seen:
            seen.add(k)
            uniq.append(h)
    return uniq


def mc(ctx: Ctx, cov: dict):
    base = (SPEC / "MC_Lifecycle.cfg").read_text()
    states = 0
    for method in ("sparse", "dense"):
        c = ctx.scratch / f"lc_{method}.cfg"
        c.write_text(base.replace('Method = "sparse"', f'Method = "{method}"'))
        r = run_tlc("MC_Lifecycle.tla", str(c), ctx.sub("meta") / f"lc_{method}", workers=4, timeout=600)
        require_clean_mc(r, "MC_Lifecycle")
        if r["error"]:
            raise MachineryError("Lifecycle.tla (model of the code as is) violates its own invariants:\n" + r["out"][-2000:])
        states += r["distinct"]
    for v, expect in (("reset_csc", "SolverSeesDeclaredLayout"), ("reset_leak", "Balanced"), ("stale_cfg", "AppliedIsRequested")):
        c = ctx.scratch / f"lc_{v}.cfg"
        c.write_text(base.replace('Variant = "asis"', f'Variant = "{v}"'))
        rv = run_tlc("MC_Lifecycle.tla", str(c), ctx.sub("meta") / f"lc_{v}", workers=4, timeout=600)
        if expect not in rv["violated"]:
            raise MachineryError(f"vacuity guard: Lifecycle variant {v} should violate {expect}")
    cov["lifecycle_model_states"] = states
    cov["lifecycle_design_variants_rejected"] = 3


def parse_log(stdout: str, table, pattern, method: str, label: str, dense_seen: dict, ni) -> list:
    """ndjson of the stand-in (Configured) and of the driver / traced class (Begin, Op) -> traces for Trace_Lifecycle.tla.
    table: {tid: [expected op records]} for scripted histories, None when the program under observation decides its own calls."""
    traces, cur, confs = [], None, []
    for line in stdout.splitlines():
        k0 = line.find('{"ev"')       # the generated code prints its own messages on stdout without a newline
        if k0 < 0:
            continue
        e = json.loads(line[k0:])
        if e["ev"] == "Begin":
            cur = {"tid": e["tid"], "ev": [], "pattern": [list(x) for x in pattern], "method": method, "network": label}
            traces.append(cur)
            confs = []
            k = 0
        elif e["ev"] == "Configured":
            confs.append(e)
        elif e["ev"] == "Op":
            want = table[cur["tid"]][len(cur["ev"])] if table is not None else \
                ({"op": e["op"], "n": e["n"], "cfg": {"atol": round(e["atol"] / 1e-20), "rtol": round(e["rtol"] / 1e-6), "mx": round(e["mx"] / 100)}}
                 if e["op"] in ("I", "R") else {"op": e["op"], "n": 0})
            o = dict(want)
            o["ret"] = e["ret"]
            o["live"] = {x: e[x] for x in ("ctx", "vec", "mat", "ls", "mem")}
            o["bad_free"], o["use_dead"] = e["bad_free"], e["use_dead"]
            if want["op"] == "S":
                o["nconf"] = len(confs)
                c = confs[0] if confs else {}
                o["conf"] = {"atol": round(c.get("atol", 0) / 1e-20), "rtol": round(c.get("rtol", 0) / 1e-6), "mx": round(c.get("mxsteps", 0) / 100)}
                o["attached"] = bool(c.get("ls_matrix_is_attached"))
                o["fmt"], o["rows"], o["nnz"] = c.get("fmt", "?"), c.get("rows", -1), c.get("nnz", -1)
                seen = c.get("seen", [])
                vals = {(int(r), int(cc)): v for r, cc, v in seen}
                if method == "dense":
                    # a dense matrix has no stored structure: its non-zero cells must lie inside the assigned cells; the values are
                    # the reference for the sparse run of the same history
                    o["seen"] = [list(x) for x in pattern] if set(vals) <= set(pattern) else [list(x) for x in sorted(vals)]
                    o["values_match"] = True
                    dense_seen[(ni, cur["tid"], len(cur["ev"]))] = vals
                else:
                    o["seen"] = [list(x) for x in sorted(vals)]
                    ref = dense_seen.get((ni, cur["tid"], len(cur["ev"])))
                    o["values_match"] = ref is None or all(abs(vals.get(k2, 0.0) - v) <= 1e-12 * max(abs(v), 1e-300) for k2, v in ref.items())
                confs = []
            cur["ev"].append(o)
    return traces


def example_programs(ctx: Ctx, pid: str, cov: dict, total: dict):
    """The example programs a user gets from `naunet example` (tests/singlegrid.cpp of the generated project) are compiled UNCHANGED with
    the generated class and run against the stand-in; the public calls they make (reported by a force-included subclass) must be a
    history Lifecycle.tla allows, with every clause evaluated after every call -- the programs users actually start from."""
    import os
    from cleo.application import Application
    from cleo.testers.command_tester import CommandTester
    from common import quiet
    from naunet import chemistrydata
    from naunet.console.commands.example import ExampleCommand
    from naunet.console.commands.init import InitCommand
    from naunet.console.commands.render import RenderCommand
    from naunet.species import Species
    app = Application()
    for c_ in (ExampleCommand(), InitCommand(), RenderCommand()):
        app.add(c_)
    sets = [("minimal", 4, 5)] + ([] if ctx.quick else [("primordial", 8, 9), ("deuterium", 12, 13)])
    dense_seen: dict = {}
    nrun = 0
    for xi, (exname, sel_dense, sel_sparse) in enumerate(sets):
        pattern = None
        for method, sel in (("dense", sel_dense), ("sparse", sel_sparse)):
            d = ctx.scratch / "lc_example" / f"{exname}_{method}"
            d.mkdir(parents=True)
            cwd = os.getcwd()
            Species.reset()
            chemistrydata.user_binding_energy.clear()
            chemistrydata.user_photon_yield.clear()
            try:
                os.chdir(d)
                with quiet():
                    rc = CommandTester(app.find("example")).execute(f"--select={sel}", interactive=False)
            except (SystemExit, Exception) as e:   # noqa
                rc = f"{type(e).__name__}: {str(e)[:120]}"
            finally:
                os.chdir(cwd)
                Species.reset()
            test = d / "tests" / "singlegrid.cpp"
            if not test.exists() and (d / "src" / "naunet.cpp").exists():
                # on this tree the command renders the project and then stops in tests/CMakeLists.txt ("'general' is undefined", the
                # repository's own failing test_command_example); the program file is rendered here exactly the way the command does it
                from jinja2 import Environment, PackageLoader
                try:
                    (d / "tests").mkdir(exist_ok=True)
                    test.write_text(Environment(loader=PackageLoader("naunet")).get_template(f"tests/{exname}/singlegrid.cpp.j2").render())
                    cov["example_command_stopped_after_the_project"] = str(rc)[:80]
                    rc = 0
                except Exception as e:   # noqa
                    rc = f"{type(e).__name__}: {str(e)[:120]}"
            if rc != 0 or not test.exists():
                ctx.notes.append(f"lifecycle: `naunet example --select={sel}` did not produce tests/singlegrid.cpp ({rc})")
                continue
            macros = creader.parse_macros((d / "include/naunet_macros.h").read_text())
            if method == "dense":
                cells = creader.read_jac((d / "src" / "naunet_jac.cpp").read_text(), macros, "dense")
                pattern = sorted({(r, c) for (r, c) in cells["cells"]})
            if pattern is None:
                continue
            exe = ctx.scratch / f"lc_example_{exname}_{method}"
            # (only the program's own translation unit sees the reporting subclass; the generated class is compiled as it is)
            obj = ctx.scratch / f"lc_example_{exname}_{method}.o"
            p = subprocess.run(["g++", "-std=c++11", "-w", "-O0", "-c", "-include", str(SHIM / "include" / "naunet_traced_class.h"), "-I", str(SHIM / "include"),
                                "-I", str(d / "include"), str(test), "-o", str(obj)], capture_output=True, text=True, timeout=600)
            if p.returncode == 0:
                p = compile_cpp(sorted((d / "src").glob("*.cpp")) + [obj, SHIM / "example_glue.cpp"], [SHIM / "include", d / "include"], exe)
            if p.returncode != 0:
                ctx.notes.append(f"lifecycle: the example program of {exname}/{method} does not compile against the stand-in: {p.stderr[-300:]}")
                continue
            wd = ctx.sub(f"lc_example_run_{exname}_{method}")
            pr = subprocess.run([str(exe)], cwd=wd, capture_output=True, text=True, timeout=600)
            label = f"example {exname}"
            traces = parse_log(pr.stdout, None, pattern, method, label, dense_seen, 1000 + xi)
            if pr.returncode != 0 or not traces or not traces[0]["ev"]:
                ctx.notes.append(f"lifecycle: the example program of {exname}/{method} ended with exit code {pr.returncode}: {pr.stderr[-200:]}")
                continue
            nrun += 1
            cfg = ctx.scratch / f"lc_trace_example_{exname}_{method}.cfg"
            cfg.write_text("SPECIFICATION TSpec\nCONSTRAINT Track\nPOSTCONDITION Verdicts\nCHECK_DEADLOCK FALSE\nCONSTANTS\n"
                           f'  Method = "{method}"\n  NEQ = {macros["NEQUATIONS"]}\n  NNZ = {macros.get("NNZ", 0)}\n  Tols = {{}}\n  Variant = "asis"\n')
            v = validate_traces(ctx, "Trace_Lifecycle.tla", str(cfg), traces, f"lc_example_{exname}_{method}", chunk=3000)
            total["accepted"] += v["accepted"]
            total["states"] += v["states"]
            cov["example_program_calls_validated"] = cov.get("example_program_calls_validated", 0) + sum(len(t["ev"]) for t in traces)
            for t, rj in v["rejected"].items():
                tr = next(x for x in traces if x["tid"] == t)
                clause = rj["clauses"][0] if rj["clauses"] else "NoSuchStep"
                at = rj["at"]
                hist = " ".join(f"{e['op']}{e['n'] or ''}" for e in tr["ev"][:at])
                if clause in C03_CLAUSES:
                    total["rejected"] += 1
                    ctx.violation(f"{pid}|{clause}|example program,{method}", f"tests/singlegrid.cpp of the {exname} example (cvode/{method}): after its calls [{hist[-80:]}] "
                                  f"the model's clause {clause} fails: {json.dumps(tr['ev'][at - 1])[:400]}", {"trace": tr, "clauses": rj["clauses"], "at": at})
                else:
                    total["beyond"] += 1
                    ctx.notes.append(f"beyond the listed properties: life-cycle clause {clause} fails for the {exname} example program (cvode/{method}) after [{hist[-80:]}]")
    cov["example_programs_run"] = nrun


def run(ctx: Ctx, rng: random.Random, nets: list, pid: str = "C03") -> dict:
    """nets: [(label, Network)] small networks.  Returns coverage; C03-clause failures are raised as violations of `pid`."""
    cov: dict = {}
    mc(ctx, cov)
    hists = legal_histories(4 if ctx.quick else 5)
    for _ in range(20 if ctx.quick else 300):
        h = [("I", rng.choice([1, 1, 1, 2]))]
        while h[-1] != ("I", 1):
            h.append(("I", rng.choice([1, 2])))
        for _ in range(rng.randint(3, 12)):
            h.append(rng.choice([("R", 1), ("R", 1), ("R", 2), ("R", 3), ("S", 0), ("S", 0)]))
        h.append(("F", 0))
        hists.append(h)
    cov["lifecycle_histories_per_build"] = len(hists)
    jobs = []
    for ni, (label, net) in enumerate(nets):
        for method in ("dense", "sparse"):
            d = ctx.scratch / "lc_proj" / f"{ni}_{method}"
            render(net, "cvode", method, d)
            jobs.append((ni, label, method, d))

    def comp(job):
        ni, label, method, d = job
        out = ctx.scratch / f"lcdrv_{ni}_{method}"
        p = compile_cpp(sorted((d / "src").glob("*.cpp")) + [SHIM / "lifecycle_driver.cpp"], [SHIM / "include", d / "include"], out)
        return job, out, p

    total = {"accepted": 0, "rejected": 0, "states": 0, "beyond": 0}
    with ThreadPoolExecutor(8) as ex:
        built = list(ex.map(comp, jobs))
    dense_seen: dict = {}
    for (ni, label, method, d), exe, p in built:
        if p.returncode != 0:
            ctx.notes.append(f"lifecycle: generated cvode/{method} project of network {label} does not compile against the stand-in: {p.stderr[-300:]}")
            continue
        macros = creader.parse_macros((d / "include/naunet_macros.h").read_text())
        neq, nnz = macros["NEQUATIONS"], macros.get("NNZ", 0)
        dense_src = (ctx.scratch / "lc_proj" / f"{ni}_dense" / "src" / "naunet_jac.cpp").read_text()
        cells = creader.read_jac(dense_src, macros, "dense")
        pattern = sorted({(r, c) for (r, c) in cells["cells"]}) if isinstance(cells, dict) and "cells" in cells else None
        if pattern is None:
            raise MachineryError(f"lifecycle: cannot read the dense Jacobian cells: {type(cells)}")
        # scripts
        lines, table = [], {}
        for tid, h in enumerate(hists, 1):
            parts, evs = [str(tid), str(len(h))], []
            for op, n in h:
                if op in ("I", "R"):
                    a, r_, m = rng.randint(1, 3), rng.randint(1, 3), rng.randint(1, 4)
                    parts += [op, str(n), repr(a * 1e-20), repr(r_ * 1e-6), str(m * 100)]
                    evs.append({"op": op, "n": n, "cfg": {"atol": a, "rtol": r_, "mx": m}})
                elif op == "S":
                    parts += ["S", "1000.0"]
                    evs.append({"op": "S", "n": 0})
                else:
                    parts += ["F"]
                    evs.append({"op": "F", "n": 0})
            lines.append(" ".join(parts))
            table[tid] = evs
        sf = ctx.scratch / f"lc_scripts_{ni}_{method}.txt"
        sf.write_text("\n".join(lines) + "\n")
        wd = ctx.sub(f"lc_run_{ni}_{method}")
        pr = subprocess.run([str(exe), str(sf), str(wd)], capture_output=True, text=True, timeout=600)
        if pr.returncode != 0:
            ctx.violation(f"{pid}|Lifecycle|crash|{method}", f"driving the generated cvode/{method} class through legal histories of public calls "
                          f"crashed (exit {pr.returncode}): {pr.stderr[-300:]}", {"network": label, "stderr": pr.stderr[-2000:]})
            continue
        traces = parse_log(pr.stdout, table, pattern, method, label, dense_seen, ni)
        cfg = ctx.scratch / f"lc_trace_{ni}_{method}.cfg"
        cfg.write_text("SPECIFICATION TSpec\nCONSTRAINT Track\nPOSTCONDITION Verdicts\nCHECK_DEADLOCK FALSE\nCONSTANTS\n"
                       f'  Method = "{method}"\n  NEQ = {neq}\n  NNZ = {nnz}\n  Tols = {{}}\n  Variant = "asis"\n')
        v = validate_traces(ctx, "Trace_Lifecycle.tla", str(cfg), traces, f"lc_{ni}_{method}", chunk=3000)
        total["accepted"] += v["accepted"]
        total["states"] += v["states"]
        for t, rj in v["rejected"].items():
            tr = next(x for x in traces if x["tid"] == t)
            clause = rj["clauses"][0] if rj["clauses"] else "NoSuchStep"
            at = rj["at"]
            hist = " ".join(f"{e['op']}{e['n'] or ''}" for e in tr["ev"][:at])
            if clause in C03_CLAUSES:
                total["rejected"] += 1
                ctx.violation(f"{pid}|{clause}|lifecycle,{method}", f"cvode/{method}, network {label}: after the public calls [{hist}] the model's clause {clause} fails: "
                              f"{json.dumps(tr['ev'][at - 1])[:400]}", {"trace": tr, "clauses": rj["clauses"], "at": at})
            else:
                total["beyond"] += 1
                ctx.notes.append(f"beyond the listed properties: life-cycle clause {clause} fails for cvode/{method} after [{hist}]")
    example_programs(ctx, pid, cov, total)
    cov["lifecycle_traces_accepted"] = total["accepted"]
    cov["lifecycle_traces_rejected_C03"] = total["rejected"]
    cov["lifecycle_rejections_beyond_listed_properties"] = total["beyond"]
    cov["lifecycle_trace_states"] = total["states"]
    cov["lifecycle_builds"] = len(built)
    return cov

#!/bin/bash
# runs every registered quick check for the given seeds; prints the non-zero ones  (usage: seed_sweep.sh 1 2 3)
cd /verif
for sd in "$@"; do
  for p in $(python3 -c "import json; print(' '.join(c['property_id'] for c in json.load(open('MANIFEST.json'))['checks']))"); do
    ( NAUNET_EVIDENCE_DIR=/tmp/sweep_ev_$sd VERIF_SEED=$sd ./check $p --tier quick > /tmp/sweep_${p}_$sd.txt 2>&1; rc=$?; [ $rc -ne 0 ] && echo "SWEEP seed=$sd $p rc=$rc" ) &
    while [ $(jobs -r | wc -l) -ge 5 ]; do sleep 1; done
  done
done
wait
echo SWEEP-DONE

"""C10 — generated sources are self-contained: every symbol used is declared first (Symbols.tla).

(A) TLC: registry semantics (first registration wins unless forced, in-place replacement, unregister) and the merge over the
    component list (symbols unique, every symbol covered, later component's value wins) for all histories of 4 steps.
(B-D) projects for format mixes x grain models x back-ends x shielding/thermal options are rendered; the registries of the real
    component objects are read from outside; every unit's declarations and identifier uses are extracted from the emitted text;
    TLC checks that the declarations ARE the merged registry, declared once, declared before use; g++ -fsyntax-only against the
    API stand-ins is the second observation of the same fact."""
from __future__ import annotations

import re
import subprocess
from concurrent.futures import ThreadPoolExecutor

from common import Ctx, MachineryError, REPO, SHIM, finish, import_naunet, render, require_clean_mc, run_tlc, validate_traces
import cexpr
import creader
import encoders

MATH = ["exp", "pow", "sqrt", "log", "log10", "fmax", "fmin", "fabs", "max", "min", "abs"]
LOCALS = ["y", "ydot", "k", "kh", "kc", "u_data", "udata", "data", "jmatrix", "IJth", "rowptrs", "colvals", "j", "abund", "dfdt", "t", "y_cur", "yistart",
          "jistart", "NAUNET_SUCCESS", "NAUNET_FAIL", "ab", "rptr", "A", "Hnuclei"]


def rec(r, p, code, a=1.0e-10, b=0.0, c=0.0, idx=1, tmin=0.0, tmax=0.0):
    return {"r": r, "p": p, "a": a, "b": b, "c": c, "tmin": tmin, "tmax": tmax, "idx": idx, "code": code}


def ucl_text(group=""):
    s = f"#{group}"
    lines = [rec(["H", "H2"], ["H", "H", "H"], "MA"), rec(["CO"], [s + "CO"], "FREEZE"), rec([s + "CO"], ["CO"], "THERM"), rec([s + "CO"], ["CO"], "DESCR"),
             rec([s + "CO"], ["CO"], "DEUVCR"), rec([s + "CO"], ["CO"], "DESOH2"), rec(["H2"], ["H", "H"], "CRP"), rec(["CO"], ["C", "O"], "PHOTON"),
             rec(["H"], [s + "H"], "FREEZE"), rec(["C", "O"], ["CO"], "MA", b=0.5, c=10.0)]
    return "\n".join(encoders.uclchem(x) for x in lines) + "\n"


def cases(ctx: Ctx):
    d = ctx.sub("in")
    data = REPO / "tests" / "data"
    (d / "gas.ucl").write_text(ucl_text())
    (d / "gas_nothermal.ucl").write_text("\n".join(l for l in ucl_text().splitlines() if "THERM" not in l) + "\n")
    (d / "group1.ucl").write_text(ucl_text("1"))
    (d / "gas_hh93.ucl").write_text("\n".join(l for l in ucl_text().splitlines() if "DESOH2" not in l) + "\n")      # (hh93 has no H2-formation desorption)
    two = [rec(["H", "H2"], ["H", "H", "H"], "MA"), rec(["CO"], ["#CO"], "FREEZE"), rec(["#CO"], ["CO"], "THERM"), rec(["H2O"], ["#1H2O"], "FREEZE"),
           rec(["#1H2O"], ["H2O"], "THERM"), rec(["#1H2O"], ["H2O"], "DESCR"), rec(["#CO"], ["CO"], "DEUVCR")]
    (d / "twogroups.ucl").write_text("\n".join(encoders.uclchem(x) for x in two) + "\n")
    late = [rec(["C", "O"], ["CO"], "MA"), rec(["CO"], ["C", "O"], "PHOTON"), rec(["H", "H"], ["H2"], "MA"), rec(["H2"], ["H", "H"], "CRP")]
    (d / "h2late.ucl").write_text("\n".join(encoders.uclchem(x) for x in late) + "\n")
    ion = [rec(["H2+", "E-"], ["H", "H"], "MA"), rec(["H", "H+"], ["H2+"], "MA"), rec(["H"], ["H+", "E-"], "CRP")]
    (d / "h2ion.ucl").write_text("\n".join(encoders.uclchem(x) for x in ion) + "\n")
    ice = [rec(["H", "H"], ["#H2"], "MA"), rec(["#H2"], ["H", "H"], "THERM"), rec(["C", "O"], ["CO"], "MA"), rec(["CO"], ["#CO"], "FREEZE"), rec(["#CO"], ["CO"], "THERM")]
    (d / "h2ice.ucl").write_text("\n".join(encoders.uclchem(x) for x in ice) + "\n")
    (d / "k1.krome").write_text("@format:idx,R,R,P,P,Tmin,Tmax,rate\n1,H,H,H2,,NONE,NONE,1.0d-10*sqrTgas\n")
    (d / "k2.krome").write_text("@common:user_crate,user_Av\n@var:ncolH=1.0d21*user_Av\n@format:idx,R,P,P,rate\n2,H2,H,H,1.0d-17*user_crate*exp(-1.0d0*ncolH/1.0d21)\n")
    # a user variable defined twice in the header, with a dependent in between: the redefinition replaces the value IN PLACE
    (d / "k3.krome").write_text("@var:kbase=1.0d-9\n@var:kscaled=2.0d0*kbase\n@var:kbase=3.0d-9\n@format:idx,R,R,P,P,rate\n1,H,H,H2,,kscaled*sqrTgas\n"
                                "@var:kother=kscaled*kbase\n@format:idx,R,P,P,rate\n2,H2,H,H,kother\n")
    # two @common lines before the first reaction; the rates use a parameter of each
    (d / "k4.krome").write_text("@common:user_crflux,user_Av\n@common:user_dust2gas\n@format:idx,R,P,P,rate\n1,H2,H,H,1.0d-17*user_crflux*exp(-1.0d0*user_Av)\n"
                                "2,H,H,,3.0d-17*user_dust2gas\n")
    # user variables written in terms of the reader's own temperature shortcuts (invT, T32, Te, sqrTgas), as KROME networks write them
    (d / "k5.krome").write_text("@var:kx=2.0d0*invT\n@var:ky=kx*T32+sqrTgas\n@format:idx,R,R,P,P,rate\n1,H,H,H2,,1.0d-10*kx*T32\n"
                                "@var:kz=ky*invTe\n@format:idx,R,P,P,rate\n2,H2,H,H,kz*1.0d-17\n")
    # species whose index macros are long: a three-reactant term is one blank-free token wider than the line
    longr = [rec(["CH3CH2CH2CH2OH", "CH3CH2CH2CH2OH2+", "HCOOCH2CH2CH3"], ["CH3CH2CH2CH2O", "H2"], 100), rec(["CH3CH2CH2CH2O", "H"], ["CH3CH2CH2CH2OH"], 100, idx=2)]
    (d / "long.naunet").write_text("\n".join(encoders.native(x) for x in longr) + "\n")
    gl = [rec(["H", "H"], ["H2"], 1, a=6.59e-11), rec(["GRAIN0", "e-"], ["GRAIN-"], 20, a=1.0), rec(["C+", "GRAIN-"], ["C", "GRAIN0"], 6, a=1.0),
          rec(["CO"], ["GCO"], 7, a=1.0), rec(["GCO"], ["CO"], 8, a=1.0)]
    (d / "grain.leeds").write_text("\n".join(encoders.leeds(dict(x, tmin=5.0, tmax=41000.0)) for x in gl) + "\n")
    # surface photoreactions (Leeds type 12) of the three self-shielding molecules' ices: the rate names the gas-phase species' index macro
    # and column density
    sp = [rec(["H", "H"], ["H2"], 1, a=6.59e-11), rec(["CO"], ["GCO"], 7, a=1.0), rec(["H2"], ["GH2"], 7, a=1.0), rec(["N2"], ["GN2"], 7, a=1.0),
          rec(["GCO"], ["GC", "GO"], 12, a=2.0e-10, c=2.5), rec(["GH2"], ["GH", "GH"], 12, a=1.0e-10, c=2.0), rec(["GN2"], ["GN", "GN"], 12, a=3.0e-10, c=3.0),
          rec(["GC"], ["C"], 8, a=1.0), rec(["GO"], ["O"], 8, a=1.0), rec(["GH"], ["H"], 8, a=1.0), rec(["GN"], ["N"], 8, a=1.0)]
    (d / "surfphot.leeds").write_text("\n".join(encoders.leeds(dict(x, tmin=5.0, tmax=41000.0, idx=i_ + 1)) for i_, x in enumerate(sp)) + "\n")
    (d / "n.naunet").write_text("\n".join(encoders.native(x) for x in [rec(["H", "H"], ["H2"], 100), rec(["H2", "CR"], ["H", "H"], 101), rec(["CO", "PHOTON"], ["C", "O"], 102, c=2.5)]) + "\n")
    # grain charging in the native format, to go with a UCLCHEM gas-grain file: grain SPECIES under the rr07 models
    # (written as ordinary two-body reactions: the rr07 models implement no recombination / electron-capture law)
    charge = [rec(["GRAIN0", "e-"], ["GRAIN-"], 100), rec(["C+", "GRAIN-"], ["C", "GRAIN0"], 100, idx=2)]
    (d / "charge.naunet").write_text("\n".join(encoders.native(x) for x in charge) + "\n")

    def drop_grain_reactions(net):
        """the dust objects are looked at (a script printing their parameters), then every reaction with a grain species is removed"""
        _ = [g.model for g in net.grains]
        net.remove_reaction([i for i, r_ in enumerate(net.reaction_list) if any(s_.is_grain for s_ in r_.reactants + r_.products)])
    el = [rec(["H+", "e-"], ["H"], 100), rec(["H", "CR"], ["H+", "e-"], 101, idx=2), rec(["H", "H"], ["H2"], 100, idx=3)]
    (d / "el.naunet").write_text("\n".join(encoders.native(x) for x in el) + "\n")
    el2 = [rec(["C+", "E-"], ["C"], 100, idx=4), rec(["C", "CR"], ["C+", "E-"], 101, idx=5)]
    (d / "el2.naunet").write_text("\n".join(encoders.native(x) for x in el2) + "\n")
    out = [
        # cooling with each cvode method (the temperature row of Fex and of both Jacobians uses kc / kh)
        ("krome+cooling, cvode sparse", dict(filelist=str(data / "primordial.krome"), fileformats="krome", cooling=["CIC_HI", "RC_HII"]), "cvode", "sparse"),
        ("krome+cooling, cvode dense", dict(filelist=str(data / "primordial.krome"), fileformats="krome", cooling=["CIC_HI"]), "cvode", "dense"),
        # an ODE modifier that spells a species of the network differently (E for e-): refused, or a closed program
        ("ode modifier naming the electron as E", dict(filelist=str(d / "el.naunet"), fileformats="naunet", _may_refuse=True,
                                                        ode_modifier={"H": {"factors": ["1.0e-17 * nH"], "reactants": [["H+", "E"]]}}), "cvode", "dense"),
        ("ode modifier naming the electron as E, sparse", dict(filelist=str(d / "el.naunet"), fileformats="naunet", _may_refuse=True,
                                                                ode_modifier={"H": {"factors": ["1.0e-17 * nH"], "reactants": [["H+", "E"]]}}), "cvode", "sparse"),
        # the Hasegawa & Herbst models under formats other than Leeds (whose symbol NAMES differ: zeta / zeta_cr, G0, zism)
        ("uclchem+hh93", dict(filelist=str(d / "gas_hh93.ucl"), fileformats="uclchem", grain_model="hh93"), "cvode", "dense"),
        ("uclchem+hh93i", dict(filelist=str(d / "gas_hh93.ucl"), fileformats="uclchem", grain_model="hh93i"), "cvode", "sparse"),
        ("native grain charging+hh93", dict(filelist=[str(d / "n.naunet"), str(d / "charge.naunet")], fileformats="naunet", grain_model="hh93"), "odeint", "rosenbrock4"),
        # one species spelled two ways by two files (e- in one, E- in the other): one index macro, used everywhere
        ("native e- + native E-", dict(filelist=[str(d / "el.naunet"), str(d / "el2.naunet")], fileformats="naunet"), "cvode", "sparse"),
        ("native E- + native e-", dict(filelist=[str(d / "el2.naunet"), str(d / "el.naunet")], fileformats="naunet"), "odeint", "rosenbrock4"),
        # every pairing of the CO and N2 shielding tables
        ("leeds, CO VB88 + N2 L13 tables", dict(filelist=str(data / "rate12_HO.leeds"), fileformats="leeds", grain_model="hh93",
                                                shielding={"H2": "L96Table", "CO": "VB88Table", "N2": "L13Table"}), "cvode", "dense"),
        ("leeds, N2 L13 table only", dict(filelist=str(data / "rate12_HO.leeds"), fileformats="leeds", grain_model="hh93", shielding={"N2": "L13Table"}), "cvode", "sparse"),
        ("uclchem + native grain charging, rr07x", dict(filelist=[str(d / "gas.ucl"), str(d / "charge.naunet")], fileformats=["uclchem", "naunet"], grain_model="rr07x"),
         "cvode", "dense"),
        ("uclchem + native grain charging, rr07", dict(filelist=[str(d / "gas_nothermal.ucl"), str(d / "charge.naunet")], fileformats=["uclchem", "naunet"],
                                                      grain_model="rr07"), "odeint", "rosenbrock4"),
        ("leeds grains+hh93, grain reactions removed after the dust was inspected", dict(filelist=str(d / "grain.leeds"), fileformats="leeds", grain_model="hh93",
                                                                                          _prep=drop_grain_reactions), "cvode", "sparse"),
        ("leeds surface photoreactions of CO, H2, N2 ices + hh93", dict(filelist=str(d / "surfphot.leeds"), fileformats="leeds", grain_model="hh93"), "cvode", "dense"),
        ("leeds surface photoreactions of CO, H2, N2 ices + hh93i, tables", dict(filelist=str(d / "surfphot.leeds"), fileformats="leeds", grain_model="hh93i",
                                                                              shielding={"H2": "L96Table", "CO": "V09Table", "N2": "L13Table"}), "cvode", "sparse"),
        ("kida", dict(filelist=str(data / "minimal.kida"), fileformats="kida"), "cvode", "dense"),
        ("umist", dict(filelist=str(data / "minimal.umist"), fileformats="umist"), "cvode", "sparse"),
        ("krome+cooling", dict(filelist=str(data / "primordial.krome"), fileformats="krome", cooling=["CIC_HI", "RC_HII"]), "odeint", "rosenbrock4"),
        ("krome", dict(filelist=str(data / "primordial.krome"), fileformats="krome"), "cvode", "dense"),
        ("leeds+hh93", dict(filelist=str(data / "rate12_HO.leeds"), fileformats="leeds", grain_model="hh93"), "cvode", "dense"),
        ("leeds+hh93i+shield", dict(filelist=str(data / "rate12_HO.leeds"), fileformats="leeds", grain_model="hh93i",
                                    shielding={"H2": "L96Table", "CO": "V09Table", "N2": "L13Table"}), "cvode", "sparse"),
        ("uclchem+rr07x", dict(filelist=str(d / "gas.ucl"), fileformats="uclchem", grain_model="rr07x", shielding={"CO": "VB88Table"}), "cvode", "dense"),
        ("uclchem+rr07", dict(filelist=str(d / "gas_nothermal.ucl"), fileformats="uclchem", grain_model="rr07"), "odeint", "rosenbrock4"),
        ("naunet", dict(filelist=str(d / "n.naunet"), fileformats="naunet"), "cvode", "sparse"),
        ("kida+umist", dict(filelist=[str(data / "minimal.kida"), str(data / "minimal.umist")], fileformats=["kida", "umist"]), "cvode", "dense"),
        ("kida+krome", dict(filelist=[str(data / "minimal.kida"), str(data / "minimal.krome")], fileformats=["kida", "krome"]), "odeint", "rosenbrock4"),
        ("uclchem+rr07x group1", dict(filelist=str(d / "group1.ucl"), fileformats="uclchem", grain_model="rr07x"), "cvode", "dense"),
        ("uclchem+rr07x two groups", dict(filelist=str(d / "twogroups.ucl"), fileformats="uclchem", grain_model="rr07x", required_species=["C", "O"]), "cvode", "sparse"),
        ("krome two files", dict(filelist=[str(d / "k1.krome"), str(d / "k2.krome")], fileformats="krome"), "cvode", "dense"),
        ("leeds grains+hh93", dict(filelist=str(d / "grain.leeds"), fileformats="leeds", grain_model="hh93"), "cvode", "dense"),
        ("krome redefined variable", dict(filelist=str(d / "k3.krome"), fileformats="krome"), "cvode", "sparse"),
        ("uclchem without H2", dict(filelist=str(data / "minimal.ucl"), fileformats="uclchem"), "cvode", "dense"),
        ("uclchem H2+ without H2", dict(filelist=str(d / "h2ion.ucl"), fileformats="uclchem"), "cvode", "dense"),
        ("uclchem #H2 without H2", dict(filelist=str(d / "h2ice.ucl"), fileformats="uclchem", grain_model="rr07x"), "cvode", "sparse"),
        ("krome two @common lines", dict(filelist=str(d / "k4.krome"), fileformats="krome"), "odeint", "rosenbrock4"),
        ("krome user variables built on the temperature shortcuts", dict(filelist=str(d / "k5.krome"), fileformats="krome"), "cvode", "dense"),
        ("long identifiers", dict(filelist=str(d / "long.naunet"), fileformats="naunet"), "cvode", "sparse"),
        ("uclchem H2 late", dict(filelist=str(d / "h2late.ucl"), fileformats="uclchem"), "cvode", "sparse"),
    ]
    if not ctx.quick:
        out += [
            ("leeds", dict(filelist=str(data / "minimal.leeds"), fileformats="leeds"), "cvode", "dense"),
            ("uclchem", dict(filelist=str(data / "minimal.ucl"), fileformats="uclchem"), "cvode", "sparse"),
            ("rate12", dict(filelist=str(data / "rate12.umist"), fileformats="umist"), "cvode", "sparse"),
            ("leeds+hh93 odeint", dict(filelist=str(data / "rate12_HO.leeds"), fileformats="leeds", grain_model="hh93"), "odeint", "rosenbrock4"),
            ("uclchem+rr07x sparse", dict(filelist=str(d / "gas.ucl"), fileformats="uclchem", grain_model="rr07x"), "cvode", "sparse"),
            ("umist+krome+cooling", dict(filelist=[str(data / "minimal.umist"), str(data / "primordial.krome")], fileformats=["umist", "krome"],
                                         cooling=["CIC_HI"]), "cvode", "dense"),
        ]
    return out


def body_of(text: str, sig: str):
    m = re.search(sig, text)
    if not m:
        return None
    i = text.index("{", m.end() - 1)
    depth, j = 0, i
    while j < len(text):
        if text[j] == "{":
            depth += 1
        elif text[j] == "}":
            depth -= 1
            if depth == 0:
                return text[i + 1:j]
        j += 1
    return None


DECL = re.compile(r"(?:^|[;{}\n])\s*(?:realtype|double)\s+(\w+)\s*=\s*([^;]*);")


def ids_of(expr: str):
    try:
        n = cexpr.names(cexpr.parse(expr))
    except (cexpr.ParseError, RecursionError):      # (a sum of thousands of terms nests deeper than the interpreter's limit)
        toks = re.findall(r"[A-Za-z_]\w*", expr)
        return sorted(set(toks))
    return sorted(n["var"] | n["call"] | n["idx"] | n["sub"])


def unit_event(body: str, groups, stmts_exprs, globals_):
    body = re.sub(r"^\s*#.*$", "", body, flags=re.M)
    decls = []
    for m in DECL.finditer(body):
        name, rhs = m.group(1), m.group(2)
        if rhs.strip().startswith("{"):
            continue
        rhs_ids = [x for x in ids_of(rhs.replace("->", "."))] if "->" not in rhs else ["u_data"]
        decls.append({"name": name, "uses": rhs_ids})
    return {"act": "Unit", "groups": groups, "decls": decls, "stmts": [ids_of(e) for e in stmts_exprs], "globals": globals_}


def main(ctx: Ctx) -> int:
    import_naunet()
    from naunet.network import Network
    cov: dict = {"samples": []}
    r = run_tlc("MC_Symbols.tla", "MC_Symbols.cfg", ctx.sub("meta") / "mc", workers=16)
    require_clean_mc(r, "MC_Symbols")
    if r["error"]:
        ctx.violation(f"C10|Design|{','.join(r['violated'])}", "TLC counterexample in Symbols", {"tlc": r["out"][-3000:]})
    cov["states"], cov["transitions"] = r["distinct"], r["generated"]
    traces = []
    compile_jobs = []
    for ci, (label, kw, solver, method) in enumerate(cases(ctx)):
        try:
            kw = dict(kw)
            may_refuse = kw.pop("_may_refuse", False)
            prep = kw.pop("_prep", None)
            net = Network(**kw)
            if prep:
                prep(net)
            out = ctx.scratch / "p" / str(ci)
            render(net, solver, method, out)
        except Exception as e:  # noqa
            if may_refuse:
                cov["refused_cases"] = cov.get("refused_cases", 0) + 1
                continue
            ctx.violation(f"C10|Render|{type(e).__name__}|case={label}", f"{label}: {type(e).__name__}: {e}", {"case": label})
            continue
        comps = []
        for group, lst in (("reactions", net.reactions), ("grains", net.grains), ("heating", net.heating), ("cooling", net.cooling)):
            for comp in lst:
                comps.append({"group": group, "reg": [{"name": nm, "sym": v.symbol, "val": "" if v.value is None else str(v.value), "ty": v.type.name}
                                                      for nm, v in comp._symbols.items()]})
        # de-duplicate identical consecutive registries (thousands of reactions share one): Merge is idempotent on repeats
        comp_key = lambda c: (c["group"], tuple((e["name"], e["sym"], e["val"], e["ty"]) for e in c["reg"]))
        dedup, seen_keys = [], set()
        for c in comps:
            k = comp_key(c)
            if dedup and comp_key(dedup[-1]) == k:
                continue
            dedup.append(c)
        inc, src = out / "include", out / "src"
        T = {p.name: creader.strip_comments(p.read_text()) for p in list(inc.iterdir()) + list(src.iterdir()) if p.suffix in (".h", ".cpp")}
        macros = sorted(set(re.findall(r"#define\s+(\w+)", T["naunet_macros.h"])))
        const_decl = re.findall(r"extern\s+(?:const|__constant__|__device__)?\s*double\s+(\w+)", T["naunet_constants.h"])
        const_def = re.findall(r"^\s*(?:const|__constant__|__device__)?\s*double\s+(\w+)\s*(?:\[[^\]]*\])*\s*=", T["naunet_constants.cpp"], re.M)
        helpers = re.findall(r"\b(\w+)\s*\(", T["naunet_physics.h"] + T["naunet_utilities.h"])
        globals_ = sorted(set(macros + const_decl + helpers + LOCALS))
        ev = []
        fields = re.findall(r"^\s*double\s+(\w+)", body_of(T["naunet_data.h"], r"struct\s+NaunetData\s*\{") or "", re.M)
        ev.append({"act": "Data", "fields": fields, "groups": ["reactions", "grains", "heating", "cooling"]})
        ev.append({"act": "Constants", "declared": const_decl, "defined": const_def, "groups": ["reactions", "grains", "heating", "cooling"]})
        ratefile = T.get("naunet_rates.cpp") or T["naunet_ode.cpp"]
        fexfile = T.get("naunet_fex.cpp") or T["naunet_ode.cpp"]
        jacfile = T.get("naunet_jac.cpp") or T["naunet_ode.cpp"]
        for fn, sym, groups, nxt in (("EvalRates", "k", ["reactions", "grains"], "EvalHeatingRates"), ("EvalHeatingRates", "kh", ["heating"], "EvalCoolingRates"),
                                     ("EvalCoolingRates", "kc", ["cooling"], None)):
            body = body_of(ratefile, r"int\s+" + fn + r"\s*\([^)]*\)\s*\{")
            if body is None:
                continue
            try:
                st = creader.read_rates("int " + fn + "(" + body + ("int " + nxt + "(" if nxt else ""), sym, fn, nxt)
                exprs = [s["expr"] for s in st] + [f"Tgas >= {s['guard'].get('lo', 0)}" for s in st if s["guard"]]
            except creader.ReadError as e:
                exprs = []
            ev.append(dict(unit_event(body, groups, exprs, globals_), unit=fn))
        fsig = r"int\s+Fex\s*\([^)]*\)\s*\{" if solver == "cvode" else r"void\s+Fex::operator\(\)\s*\([^)]*\)\s*\{"
        jsig = r"int\s+Jac\s*\([^{]*\)\s*\{" if solver == "cvode" else r"void\s+Jac::operator\(\)\s*\([^{]*\)\s*\{"
        fb, jb = body_of(fexfile, fsig), body_of(jacfile, jsig)
        allg = ["reactions", "grains", "heating", "cooling"]
        if fb:
            ev.append(dict(unit_event(fb, allg, [m.group(1) for m in re.finditer(r"\bydot\s*\[[^\]]+\]\s*=([^;]*);", fb)], globals_), unit="Fex"))
        if jb:
            ev.append(dict(unit_event(jb, allg, [m.group(1) for m in re.finditer(r"(?:\bIJth\s*\([^)]*\)|\bdata\s*\[[^\]]+\]|(?<![\w.])j\s*\([^)]*\))\s*=([^;]*);", jb)],
                                      globals_), unit="Jac"))
        ev.append({"act": "Compile", "undeclared": [], "redefined": []})
        traces.append({"tid": len(traces) + 1, "comps": dedup, "ev": ev, "label": label, "be": f"{solver}/{method}"})
        compile_jobs.append((len(traces) - 1, out))

    def compile_one(job):
        ti, out = job
        und, red, other = set(), set(), set()
        for f in sorted((out / "src").glob("*.cpp")):
            p = subprocess.run(["g++", "-std=c++11", "-fsyntax-only", "-I", str(SHIM / "include"), "-I", str(out / "include"), str(f)],
                               capture_output=True, text=True, timeout=600)
            for line in p.stderr.splitlines():
                m = re.search(r"error: [‘'`](\w+)[’'] (?:was not declared|has not been declared|does not name a type)", line)
                if m:
                    und.add(m.group(1))
                m = re.search(r"(?:error|warning): (?:redefinition|redeclaration) of [‘'`]([^’']+)[’']|warning: \"(\w+)\" redefined", line)
                if m:
                    red.add(m.group(1) or m.group(2))
                elif "error:" in line and "not declared" not in line and "not been declared" not in line and "does not name a type" not in line:
                    other.add(re.search(r"error: (.*)", line).group(1)[:80])
        return ti, sorted(und), sorted(red), sorted(other)
    with ThreadPoolExecutor(12) as ex:
        for ti, und, red, other in ex.map(compile_one, compile_jobs):
            traces[ti]["ev"][-1]["undeclared"] = und
            traces[ti]["ev"][-1]["redefined"] = red
            if other:
                cov.setdefault("other_compile_errors_not_about_names", {})[traces[ti]["label"]] = other[:3]
    v = validate_traces(ctx, "Trace_Symbols.tla", "Trace_Symbols.cfg", [{k: t[k] for k in ("tid", "comps", "ev")} for t in traces], "sym", chunk=50,
                        extra_top={"builtins": MATH}, timeout=3000)
    cov["traces_validated_against_impl"] = len(traces)
    cov["traces_accepted"] = v["accepted"]
    cov["trace_states"] = v["states"]
    by = {t["tid"]: t for t in traces}
    for tid, rj in sorted(v["rejected"].items()):
        clause = (rj["clauses"] or ["NoEnabledAction"])[0]
        tr = by[tid]
        at = max(1, min(rj["at"], len(tr["ev"])))
        e = tr["ev"][at - 1]
        detail = ""
        if e["act"] == "Compile":
            detail = f"undeclared {e['undeclared'][:8]} redefined {e['redefined'][:5]}"
        elif e["act"] == "Unit":
            declared = {d["name"] for d in e["decls"]}
            glob = set(e["globals"]) | set(MATH)
            missing = sorted({x for s in e["stmts"] for x in s if x not in declared and x not in glob} |
                             {x for i, d in enumerate(e["decls"]) for x in d["uses"] if x not in glob and x not in {q["name"] for q in e["decls"][:i]}})
            detail = f"unit {e['unit']}: not declared before use: {missing[:8]}"
        ctx.violation(f"C10|{clause}|case={tr['label']}", f"{tr['label']} ({tr['be']}): {detail}: {rj['clauses']}",
                      {"case": tr["label"], "backend": tr["be"], "event": {k: e[k] for k in e if k not in ("globals",)}, "clauses": rj["clauses"]})
    t = traces[0]
    cov["samples"].append({"case": t["label"], "registry_of_first_component": t["comps"][0]["reg"][:4], "unit": {k: t["ev"][2][k] for k in ("unit", "groups")},
                           "first_decls": t["ev"][2]["decls"][:4]})
    cov["rule"] = "projects = format (mix) x grain model x back-end x shielding / cooling options; non-trivial = at least one derived quantity"
    cov["exhaustive"] = False
    return finish(ctx, "model_checking", cov, [
        "registries are read from the real component objects (component._symbols); identical consecutive registries are collapsed",
        "unit globals = index macros + extern constants + helper functions the rendered headers declare + C math + the unit's own locals",
        "g++ -fsyntax-only against the API stand-ins (/verif/shim) is the compiler's view of the same closure property",
    ])

#!/bin/bash
# usage: process_round.sh <Cxx> [check ...] — confirm both round-2 seeded changes of a property, keep them, run the checks against them
pid="$1"; shift; checks="${*:-$pid}"
export WT_ROOT=${WT_ROOT:-/tmp/wt2} ROUND=${ROUND:-r2-}
for i in 1 2; do
  [ -f "$WT_ROOT/$pid/_out/mutant$i.diff" ] || { echo "no mutant $i for $pid"; continue; }
  res=$(/verif/harness/confirm_mutant.sh "$WT_ROOT/$pid" $i | grep '^RESULT')
  echo "$res"
  case "$res" in *clean_rc=0\ mutant_rc=0*|*APPLY-FAILED*) echo "NOT CONFIRMED $pid $i"; continue;; esac
  case "$res" in *clean_rc=0*82\ passed*) ;; *) echo "NOT CONFIRMED $pid $i"; continue;; esac
  python3 /verif/harness/keep_mutant.py "$pid" $i "$res"
  for c in $checks; do /verif/harness/mutant_test.sh "/verif/seeded/$pid-$ROUND$i/patch.diff" "$c" 2>&1 | grep -v '^WARN\|KNOWN-FINDING' | cut -c1-220 | head -8; done
done

"""Independent line encoders for the six reaction-file formats, written from the format layouts (KIDA network files,
UMIST RATE12 colon format, KROME @format lines, the Leeds/Walsh fixed-width table, UCLCHEM Makerates csv, naunet's native
exchange format) — NOT from naunet's parsers.  A record is a dict:
  {"r": [names], "p": [names], "a": float, "b": float, "c": float, "tmin": float, "tmax": float, "idx": int, "code": <format code>}
"""
from __future__ import annotations


def _pad(lst, n, fill=""):
    lst = list(lst)
    if len(lst) > n:
        raise ValueError(f"too many species for this format: {lst}")
    return lst + [fill] * (n - len(lst))


def kida(rec) -> str:
    """reactants 3 x 11 chars + 1 blank, products 5 x 11 chars + 1 blank, then
    alpha beta gamma F g type itype Tmin Tmax formula number numABC recommendation"""
    r = "".join(f"{x:<11}" for x in _pad(rec["r"], 3))
    p = "".join(f"{x:<11}" for x in _pad(rec["p"], 5))
    return (f"{r} {p} {rec['a']:10.3e} {rec['b']:10.3e} {rec['c']:10.3e} {2.0:8.2e} {0.0:8.2e} logn {rec.get('itype', 4):2d} "
            f"{int(rec['tmin']):6d} {int(rec['tmax']):6d} {int(rec['code']):2d} {int(rec['idx']):5d} 1  1")


def umist(rec) -> str:
    """idx:code:R1:R2:P1:P2:P3:P4:NE:alpha:beta:gamma:Tmin:Tmax:ST:ACC:REF"""
    r = _pad(rec["r"], 2)
    p = _pad(rec["p"], 4)
    return ":".join([str(int(rec["idx"])), str(rec["code"]), *r, *p, "1", repr(float(rec["a"])), repr(float(rec["b"])), repr(float(rec["c"])),
                     repr(float(rec["tmin"])), repr(float(rec["tmax"])), "L", "C", '"ref"', "", ""])


def leeds(rec) -> str:
    """idx(5) reactants(3x10) products(5x10) alpha(8) beta(9) gamma(10) Tmin(5) Tmax(5) type(3)"""
    r = "".join(f"{x:<10}" for x in _pad(rec["r"], 3))
    p = "".join(f"{x:<10}" for x in _pad(rec["p"], 5))
    a = f"{rec['a']:8.2E}"
    if len(a) != 8:
        a = f"{rec['a']:8.1E}"
    return f"{int(rec['idx']):>4} {r}{p}{a:>8}{rec['b']:9.2f}{rec['c']:10.1f}{int(rec['tmin']):5d}{int(rec['tmax']):5d}{int(rec['code']):3d}"


def uclchem(rec) -> str:
    """R1,R2,R3,P1,P2,P3,P4,alpha,beta,gamma,Tmin,Tmax ; the second reactant column carries the type keyword"""
    r = list(rec["r"])
    kw = rec.get("code")
    if kw and kw != "MA":
        r = [r[0], kw] + r[1:]
    r = _pad(r, 3, "NAN")
    p = _pad(rec["p"], 4, "NAN")
    return ",".join([*r, *p, repr(float(rec["a"])), repr(float(rec["b"])), repr(float(rec["c"])), repr(float(rec["tmin"])), repr(float(rec["tmax"]))])


def krome(rec, fmt="idx,R,R,R,P,P,P,P,P,Tmin,Tmax,rate", tmin_text=None, tmax_text=None) -> str:
    cols = fmt.split(",")
    nr, npd = cols.count("R"), cols.count("P")
    r, p = iter(_pad(rec["r"], nr)), iter(_pad(rec["p"], npd))
    out = []
    for c in cols:
        if c == "idx":
            out.append(str(int(rec["idx"])))
        elif c == "R":
            out.append(next(r))
        elif c == "P":
            out.append(next(p))
        elif c == "Tmin":
            out.append(tmin_text if tmin_text is not None else ("NONE" if rec["tmin"] <= 0 else repr(float(rec["tmin"]))))
        elif c == "Tmax":
            out.append(tmax_text if tmax_text is not None else ("NONE" if rec["tmax"] <= 0 else repr(float(rec["tmax"]))))
        elif c == "rate":
            out.append(rec.get("rate", "1.0d-10"))
    return ",".join(out)


def native(rec, source="test") -> str:
    """idx, 3 reactants, 5 products, alpha, beta, gamma, Tmin, Tmax, type code, source tag (16 comma separated fields)"""
    r = _pad(rec["r"], 3)
    p = _pad(rec["p"], 5)
    return ",".join([f"{int(rec['idx']):<5}"] + [f"{x:>12}" for x in r + p] +
                    [f"{rec['a']:10.3e}", f"{rec['b']:10.3e}", f"{rec['c']:10.3e}", f"{rec['tmin']:9.2f}", f"{rec['tmax']:9.2f}",
                     f"{int(rec['code']):>4}", f"{source:>8}"])


ENCODERS = {"kida": kida, "umist": umist, "leeds": leeds, "uclchem": uclchem, "krome": krome, "naunet": native}

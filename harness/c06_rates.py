"""C06 (temperature windows) and the rate-modifier part of C13 — Rates.tla.

(A) TLC: all window shapes x index maps x modifier key sets x temperatures on a small integer axis.
(B/C/D) networks are ENCODED into files of the six formats (independent encoders) with every window shape, index pattern and
modifier set, read by the real readers, rendered for cvode dense/sparse and odeint; the strict reader parses the guards of the
emitted EvalRates; Trace_Rates.tla judges every statement against the declared window / override set.
"""
from __future__ import annotations

import random
import re

from common import Ctx, MachineryError, finish, import_naunet, render, require_clean_mc, run_tlc, validate_traces
import creader
import encoders

C13_CLAUSES = {"OnlyTargetsOverridden", "OverrideValueIsTheKeys", "OverrideIsUnguarded", "Inv:OnlyTargetsChanged", "ReindexWhenUnindexed"}
SPECIES = [(["H", "H"], ["H2"]), (["C", "H"], ["CH"]), (["CH", "H"], ["C", "H2"]), (["O", "H"], ["OH"]), (["OH", "H"], ["O", "H2"]),
           (["C", "O"], ["CO"]), (["H2", "O"], ["OH", "H"]), (["CO", "H"], ["C", "OH"])]
CODE = {"kida": 3, "umist": "NN", "leeds": 1, "uclchem": "MA", "krome": None, "naunet": 100}
OTHER_CLASSES = {"umist": [("PH", "PHOTON"), ("CP", "CRP"), ("CR", "CRPHOT")], "kida": [(1, "CR"), (2, "Photon")],
                 "uclchem": [("CRP", None), ("PHOTON", None), ("CRPHOT", None)]}
KROME_WINDOW_TEXT = [
    ("NONE", -1.0), ("N/A", -1.0), ("", -1.0), (">10", 10.0), (".GE.1d2", 100.0), (".GT.2d3", 2000.0), (".LE.2.d3", 2000.0),
    ("1.0d4", 10000.0), ("<1e4", 10000.0), ("5.5e3", 5500.0), (".LT.300", 300.0), ("1160", 1160.0), (".GE.5d1", 50.0),
    ("11604.52", 11604.52), ("157821.3", 157821.3), (".GE.1234567.25", 1234567.25),      # bounds with more than six significant digits
]
# spellings of a limit the reader is not known to translate (upper-case exponent letter, lower-case operator, >=): the file is refused, or
# the limit is honoured -- never dropped
KROME_EXOTIC_TEXT = [("5.5D3", 5500.0), (".le.3d2", 300.0), (">=10", 10.0), ("1.16D3", 1160.0), (".GE.2.5D1", 25.0)]
WINDOWS = [(-1.0, -1.0), (0.0, 0.0), (10.0, -1.0), (-1.0, 300.0), (10.0, 300.0), (300.0, 1000.0), (1000.0, 41000.0), (5.0, 10.0),
           (0.0, 50.0), (20.0, 0.0), (11604.52, 157821.3), (1234.56, 1234567.25),
           # the values data files use BY CONVENTION for "range unknown" are bounds like any other: only <= 0 means unbounded
           (-9999.0, 9999.0), (300.0, 9999.0), (9999.0, 41000.0), (10.0, 10000.0), (10.0, 99999.0), (-9999.0, 300.0)]


def gen_case(rng: random.Random, k: int) -> dict:
    fmts = rng.sample(list(CODE), rng.choice([1, 1, 2, 3]))
    if k % 7 == 0:
        fmts = ["uclchem"]          # unindexed network: re-indexed at render
    files, declared = [], []
    used_idx = []
    may_refuse = False
    for fmt in fmts:
        recs, lines = [], []
        n = rng.randint(1, 5)
        style = rng.choice(["unique", "shared", "onebased"])
        base = rng.sample(SPECIES, min(n, len(SPECIES)))
        piece = rng.random() < 0.4
        for j, (r, p) in enumerate(base):
            lo, hi = rng.choice(WINDOWS)
            idx = {"unique": rng.randint(1, 9000), "shared": rng.choice([7, 7, 4000]), "onebased": j + 1}[style]
            rec = {"r": r, "p": p, "a": 1.0e-10 * (j + 1), "b": 0.5, "c": 10.0 * j, "tmin": lo, "tmax": hi, "idx": idx, "code": CODE[fmt]}
            if rng.random() < 0.4 and fmt in OTHER_CLASSES:
                # other reaction classes of the format: photo-processes and cosmic-ray processes of ONE species (the partner is a
                # pseudo-reactant); their declared windows count like any other
                code, partner = rng.choice(OTHER_CLASSES[fmt])
                rec.update(code=code, r=[p[0]] + ([partner] if partner else []), p=list(r))
            recs.append(rec)
        if piece and recs:          # adjacent piecewise fits of the first reaction, all under ONE index (as KIDA/UMIST files do)
            r0 = recs[0]
            cuts = sorted(rng.sample([10.0, 50.0, 300.0, 1000.0, 9999.0, 41000.0], rng.choice([3, 4])))
            recs = [dict(r0, tmin=a, tmax=b, a=r0["a"] * (q + 1)) for q, (a, b) in enumerate(zip(cuts, cuts[1:]))] + recs[1:]
        # KROME: the column order is the file's own (@format); the limits may come before or AFTER the rate column
        kcols = rng.choice(["idx,R,R,R,P,P,P,P,P,Tmin,Tmax,rate", "idx,R,R,R,P,P,P,P,P,Tmin,Tmax,rate", "idx,R,R,R,P,P,P,P,P,rate,Tmin,Tmax",
                            "Tmin,Tmax,idx,R,R,R,P,P,P,P,P,rate", "idx,Tmax,R,R,R,P,P,P,P,P,rate,Tmin"]) if k % 2 else "idx,R,R,R,P,P,P,P,P,Tmin,Tmax,rate"
        for rec in recs:
            tmin_text = tmax_text = None
            if fmt == "krome":
                tt, tv = rng.choice(KROME_WINDOW_TEXT)
                ut, uv = rng.choice(KROME_WINDOW_TEXT)
                if k % 6 == 5:
                    if rng.random() < 0.5:
                        tt, tv = rng.choice(KROME_EXOTIC_TEXT)
                    else:
                        ut, uv = rng.choice(KROME_EXOTIC_TEXT)
                    may_refuse = True
                rec["tmin"], rec["tmax"] = tv, uv
                line = encoders.krome(rec, fmt=kcols, tmin_text=tt, tmax_text=ut)
            else:
                if fmt in ("kida", "leeds"):
                    rec["tmin"], rec["tmax"] = float(int(rec["tmin"])), float(int(rec["tmax"]))
                    if fmt == "leeds":
                        rec["tmin"], rec["tmax"] = max(rec["tmin"], -1.0), min(rec["tmax"], 99999.0)
                line = encoders.ENCODERS[fmt](rec)
            lines.append(line)
            idx = -1 if fmt == "uclchem" else rec["idx"]
            declared.append({"tmin": int(round(rec["tmin"] * 100)), "tmax": int(round(rec["tmax"] * 100)), "idx": idx, "fmt": fmt, "line": line})
            used_idx.append(idx)
        header = f"@format:{kcols}\n" if fmt == "krome" else ""
        files.append((fmt, header + "\n".join(lines) + "\n"))
    keys = []
    if rng.random() < 0.7:
        pool = [i for i in used_idx if i >= 0] or list(range(len(used_idx)))
        keys = rng.sample(sorted(set(pool)), min(len(set(pool)), rng.randint(1, 2)))
        if rng.random() < 0.4:
            keys.append(123456)        # a key no reaction carries
        if all(i == -1 for i in used_idx) and rng.random() < 0.5:
            keys.append(0)
    mods = {k2: f"1.{j + 1}e-9 * zeta + {j + 1}.0" for j, k2 in enumerate(keys)}
    if keys and k % 4 == 1:
        mods[keys[0]] = rng.choice([0.0, 0])     # a NUMBER, not a text: "this reaction is switched off"
    return {"files": files, "declared": declared, "mods": mods, "may_refuse": may_refuse}


def norm(txt: str) -> str:
    return " ".join(t[1] for t in creader.tokenize(txt))


K_DECL = re.compile(r"(static\s+)?(?:const\s+)?(?:realtype|double)\s+k\s*\[\s*NREACTIONS\s*\]\s*(=\s*\{\s*0\.0\s*\})?\s*;")


def runtime_traces(ctx: Ctx, rng, tid0: int, n: int):
    """compile the generated rates + Fex against the stand-in and call Fex at a SEQUENCE of temperatures in one process:
    reaction i is X_i -> Y_i over its own species, so ydot[Y_i] = k_i exposes every rate coefficient"""
    import json
    import subprocess
    from common import SHIM, compile_cpp
    from naunet.network import Network
    out = []
    for q in range(n):
        wins = [rng.choice(WINDOWS) for _ in range(rng.randint(3, 6))]
        cuts = sorted(rng.sample([10.0, 50.0, 300.0, 1000.0], 3))
        wins += list(zip(cuts, cuts[1:]))                       # an adjacent pair
        elems = ["H", "C", "N", "O", "S", "F", "P", "He", "Na", "Mg", "Si", "Cl", "Ar", "Ca", "Fe", "Ni"]
        recs = [{"r": [elems[i]], "p": [elems[i] + "2"] if False else [elems[i] + "+"], "a": 1.0 + i, "b": 0.0, "c": 0.0, "tmin": lo, "tmax": hi, "idx": i + 1, "code": 100}
                for i, (lo, hi) in enumerate(wins)]
        d = ctx.sub("rt_in") / str(q)
        d.mkdir()
        (d / "n.naunet").write_text("\n".join(encoders.native(r) for r in recs) + "\n")
        net = Network(filelist=str(d / "n.naunet"), fileformats="naunet")
        proj = ctx.scratch / "rt" / str(q)
        render(net, "cvode", "dense", proj)
        macros = creader.parse_macros((proj / "include/naunet_macros.h").read_text())
        exe = ctx.scratch / f"fexdrv_{q}"
        srcs = [proj / "src" / f for f in ("naunet_fex.cpp", "naunet_rates.cpp", "naunet_constants.cpp", "naunet_physics.cpp", "naunet_utilities.cpp")]
        p = compile_cpp(srcs + [SHIM / "fex_driver.cpp"], [SHIM / "include", proj / "include"], exe)
        if p.returncode != 0:
            ctx.violation("C06|Compile|runtime", "generated rates/fex do not compile against the stand-in: " + p.stderr[-600:], {"lines": [encoders.native(r) for r in recs]})
            continue
        temps = []
        for lo, hi in wins:
            for b in (lo, hi):
                if b > 0:
                    temps += [b - 0.01, b, b + 0.01]
        temps += [1.0, 5.0e4]
        rng.shuffle(temps)
        tf = d / "temps.txt"
        tf.write_text("\n".join(repr(t) for t in temps) + "\n")
        pr = subprocess.run([str(exe), str(tf)], capture_output=True, text=True, timeout=120)
        if pr.returncode != 0:
            if "runtime error: index" in pr.stderr:
                ctx.violation("C06|OutOfBounds|runtime", "the generated rates / right-hand side index an array outside its declared size: " + pr.stderr.strip().splitlines()[0][:300],
                              {"lines": [encoders.native(r) for r in recs]})
                continue
            raise MachineryError(f"fex driver failed: {pr.stderr[-300:]}")
        from naunet.species import Species
        prod_slot = [macros["IDX_" + Species(r["p"][0]).alias] for r in recs]
        ev = []
        for line in pr.stdout.splitlines():
            e = json.loads(line)
            ev.append({"act": "Eval", "T": int(round(e["T"] * 100)), "active": [i + 1 for i, s in enumerate(prod_slot) if e["ydot"][s] != 0.0]})
        out.append({"tid": tid0 + len(out) + 1, "R": [{"tmin": int(round(r["tmin"] * 100)), "tmax": int(round(r["tmax"] * 100)), "idx": r["idx"]} for r in recs],
                    "mods": [], "ev": ev, "be": "runtime"})
    return out


def apalache_all_temperatures(ctx: Ctx, cov: dict):
    """Rates.tla for EVERY integer temperature and every choice of cut points (APA_Rates.tla, symbolic constants); two mutated copies of
    the window definition must fail (vacuity guard).  TLC stays the deciding tool for the bounded instances and all traces."""
    import shutil
    import subprocess
    from concurrent.futures import ThreadPoolExecutor
    from common import SPEC
    if not shutil.which("apalache-mc"):
        ctx.notes.append("apalache-mc not on PATH: the all-temperatures check of Rates.tla was skipped")
        return
    variants = {"asis": None, "closed_upper_bound": ("(tmax <= 0 \\/ t < tmax)", "(tmax <= 0 \\/ t <= tmax)"),
                "zero_is_a_bound": ("(tmin <= 0 \\/ t >= tmin)", "(tmin < 0 \\/ t >= tmin)")}

    def one(item):
        name, sub = item
        d = ctx.sub(f"apa_rates_{name}")
        txt = (SPEC / "Rates.tla").read_text()
        if sub:
            if sub[0] not in txt:
                raise MachineryError(f"APA_Rates variant {name}: text to mutate not found")
            txt = txt.replace(sub[0], sub[1])
        (d / "Rates.tla").write_text(txt)
        shutil.copy(SPEC / "APA_Rates.tla", d / "APA_Rates.tla")
        p = subprocess.run(["apalache-mc", "check", "--cinit=ConstInit", "--init=Init", "--next=Next", "--inv=Inv", "--length=6", f"--out-dir={d / 'out'}",
                            "APA_Rates.tla"], cwd=d, capture_output=True, text=True, timeout=1200)
        out = p.stdout + p.stderr
        return name, "EXITCODE: OK" in out, "The outcome is: Error" in out, out[-1200:]
    with ThreadPoolExecutor(3) as ex:
        res = list(ex.map(one, variants.items()))
    for name, ok, cex, tail in res:
        if not ok and not cex:
            raise MachineryError(f"apalache did not decide APA_Rates/{name}: {tail}")
        if name == "asis" and not ok:
            ctx.violation("C06|Design|AllTemperatures", "Apalache: with symbolic cut points and temperature the window semantics of Rates.tla fail", {"apalache": tail})
        if name != "asis" and ok:
            raise MachineryError(f"vacuity guard: mutated window definition {name} passes APA_Rates")
    cov["all_integer_temperatures_and_cut_points"] = "Apalache 0.58, APA_Rates.tla: 3 adjacent pieces + unbounded + lower-bound-only, symbolic c1<c2<c3<c4 and t0"
    cov["apalache_window_variants_rejected"] = 2


def main(ctx: Ctx) -> int:
    import_naunet()
    from naunet.network import Network
    pid = ctx.pid
    cov: dict = {"samples": []}
    if pid == "C06":
        apalache_all_temperatures(ctx, cov)
    r = run_tlc("MC_Rates.tla", "MC_Rates.cfg", ctx.sub("meta") / "mc", workers=16)
    require_clean_mc(r, "MC_Rates")
    if r["error"]:
        ctx.violation(f"{pid}|Design|{','.join(r['violated'])}", "TLC counterexample in Rates", {"tlc": r["out"][-4000:]})
    cov["states"], cov["transitions"] = r["distinct"], r["generated"]

    rng = random.Random(ctx.seed)
    ncase = 40 if ctx.quick else 500
    traces, meta = [], {}
    tid = 0
    fixed = []
    for q, (text, val) in enumerate(KROME_EXOTIC_TEXT):     # one KROME file per untranslated spelling, as lower and as upper limit
        for side in ("tmin", "tmax"):
            rec = {"r": ["H", "H"], "p": ["H2"], "a": 1.0e-10, "b": 0.5, "c": 0.0, "tmin": val if side == "tmin" else -1.0, "tmax": val if side == "tmax" else -1.0,
                   "idx": 1, "code": None}
            line = encoders.krome(rec, tmin_text=text if side == "tmin" else "NONE", tmax_text=text if side == "tmax" else "NONE")
            fixed.append({"files": [("krome", "@format:idx,R,R,R,P,P,P,P,P,Tmin,Tmax,rate\n" + line + "\n")],
                          "declared": [{"tmin": int(round(rec["tmin"] * 100)), "tmax": int(round(rec["tmax"] * 100)), "idx": 1, "fmt": "krome", "line": line}],
                          "mods": {}, "may_refuse": True})
    allcases = [gen_case(rng, ci) for ci in range(ncase)] + fixed
    # second pass: the first networks once more at the end of the run (same process, after everything else was read and rendered)
    allcases += [dict(c_) for c_ in allcases[:6]]
    for ci, case in enumerate(allcases):
        d = ctx.sub("in") / str(ci)
        d.mkdir()
        flist, fmts = [], []
        for j, (fmt, text) in enumerate(case["files"]):
            f = d / f"f{j}.{fmt}"
            f.write_text(text)
            flist.append(str(f)); fmts.append(fmt)
        try:
            if ci % 3 == 2 and case["mods"]:
                # the modifiers arrive AFTER construction, by read-modify-write through the property (m = net.rate_modifier; m[k] = v; net.rate_modifier = m),
                # one at a time
                net = Network(filelist=flist, fileformats=fmts)
                for mk_, mv_ in dict(case["mods"]).items():
                    m_ = net.rate_modifier
                    m_[mk_] = mv_
                    net.rate_modifier = m_
            else:
                net = Network(filelist=flist, fileformats=fmts, rate_modifier=dict(case["mods"]))
        except Exception as e:   # noqa
            if case.get("may_refuse"):
                cov["files_with_untranslated_limit_spelling_refused"] = cov.get("files_with_untranslated_limit_spelling_refused", 0) + 1
                continue
            ctx.violation(f"{pid}|Read|{type(e).__name__}", f"reading encoded files raised {type(e).__name__}: {e}", {"files": case["files"]})
            continue
        if len(net.reaction_list) != len(case["declared"]):
            ctx.violation(f"{pid}|Read|count", f"{len(case['declared'])} data lines gave {len(net.reaction_list)} reactions", {"files": case["files"]})
            continue
        for phase in (0, 1, 2, 3):
            if phase == 3:
                # one reaction is REMOVED (nothing else): the others keep the indices their files gave them, and a modifier keyed by such an
                # index still replaces exactly that reaction
                if not (ci % 2 == 0 and len(case["declared"]) >= 2 and any(dd["idx"] > len(case["declared"]) for dd in case["declared"][1:])):
                    continue
                net.remove_reaction(0)
                cov["removal_then_modifier_cases"] = cov.get("removal_then_modifier_cases", 0) + 1
                decl3 = list(case["declared"][1:])
                mods3 = {next(dd["idx"] for dd in reversed(decl3) if dd["idx"] > len(case["declared"])): "6.6e-7 * zeta"}
                net.rate_modifier = dict(mods3)
                case = dict(case, declared=decl3, mods=mods3, files=case["files"] + [("edit", f"first reaction removed, rate_modifier {mods3}")])
            if phase == 2:
                # the network is EDITED (a reaction without index appended), re-indexed explicitly, and modifiers are then given by the new
                # indices -- one of them a number that was a FILE index of another reaction before: exactly the reactions that carry those
                # indices now are overridden
                if not (ci % 4 == 3 and not case["mods"] and any(dd["idx"] >= 0 for dd in case["declared"])):
                    continue
                from naunet.reactions.reaction import Reaction
                from naunet.reactiontype import ReactionType
                net.add_reaction(Reaction(["H", "H"], ["H2"], alpha=7.7e-18, reaction_type=ReactionType.GAS_TWOBODY))
                net.reindex()
                decl2 = [dict(dd, idx=pos_) for pos_, dd in enumerate(list(case["declared"]) + [{"tmin": -100, "tmax": -100, "idx": -1, "fmt": "api"}])]
                n_ = len(decl2)
                old = sorted({dd["idx"] for dd in case["declared"] if 0 <= dd["idx"] < n_ and decl2[dd["idx"]] is not None})
                keys = {n_ - 1} | set(old[-1:])
                mods2 = {k_: f"{4.2 + j_}e-7 * zeta" for j_, k_ in enumerate(sorted(keys))}
                net.rate_modifier = dict(mods2)
                case = dict(case, declared=decl2, mods=mods2, files=case["files"] + [("edit", f"one reaction appended, reindex(), rate_modifier {mods2}")])
            if phase == 1:
                # the SAME Reaction objects get other windows (assigned in place) and the network is rendered again in this process: every
                # guard must follow the window the reaction has NOW
                if not (ci % 4 == 1 and not case["mods"] and net.reaction_list):
                    continue
                decl2 = []
                for rr, dd in zip(net.reaction_list, case["declared"]):
                    lo, hi = rng.choice(WINDOWS)
                    if dd["fmt"] in ("kida", "leeds"):
                        lo, hi = float(int(lo)), float(int(hi))
                    rr.temp_min, rr.temp_max = lo, hi
                    decl2.append(dict(dd, tmin=int(round(lo * 100)), tmax=int(round(hi * 100))))
                case = dict(case, declared=decl2, files=case["files"] + [("edit", "windows re-assigned in place: " + str([(d2["tmin"], d2["tmax"]) for d2 in decl2]))])
            modtext = {norm(str(v)): k for k, v in case["mods"].items()}
            # (the rate statements of the gpu device are read for every third network: same guards, same form)
            for solver, method, tag in (("cvode", "dense", "dense"), ("cvode", "sparse", "sparse"), ("odeint", "rosenbrock4", "odeint")) + \
                    ((("cvode", "cusparse", "cusparse"),) if ci % 3 == 0 else ()):
                out = ctx.scratch / "r" / f"{ci}_{tag}_{phase}"
                tmpl = (["src/naunet_rates.cpp.j2", "src/naunet_fex.cpp.j2", "src/naunet_jac.cpp.j2"] if solver == "cvode" else ["src/naunet_ode.cpp.j2"])
                try:
                    render(net, solver, method, out, templates=tmpl, device="gpu" if tag == "cusparse" else "cpu")
                    srcs = {p.name: p.read_text() for p in (out / "src").iterdir()}
                    ratetext = srcs.get("naunet_rates.cpp") or srcs.get("naunet_rates.cu") or srcs["naunet_ode.cpp"]
                    stmts = creader.read_rates(ratetext)
                except creader.ReadError as e:
                    ctx.violation(f"{pid}|MalformedRates|{tag}", f"{tag}: {e}", {"files": case["files"], "mods": case["mods"]})
                    continue
                except Exception as e:   # noqa
                    ctx.violation(f"{pid}|Render|{type(e).__name__}", f"{tag}: rendering raised {type(e).__name__}: {e}", {"files": case["files"], "mods": case["mods"]})
                    continue
                decls = [m for t in srcs.values() for m in K_DECL.finditer(creader.strip_comments(t))]
                k_init_ok = len(decls) >= 2 and all((not m.group(1)) and m.group(2) for m in decls)
                ev = []
                for st in stmts:
                    g = st["guard"] or {}
                    key = modtext.get(norm(st["expr"]))
                    guard = {"has_lo": "lo" in g, "lo": int(round(g.get("lo", 0) * 100)), "lo_op": g.get("lo_op", ">="),
                             "has_hi": "hi" in g, "hi": int(round(g.get("hi", 0) * 100)), "hi_op": g.get("hi_op", "<")}
                    ev.append({"act": "Assign", "i": st["i"], "overridden": key is not None, "modkey": key if key is not None else -999, "guard": guard,
                               "expr": st["expr"][:80]})
                ev.append({"act": "Finish", "nstatements": len(stmts), "k_init_ok": k_init_ok,
                           "reindexed": [x.idxfromfile for x in net.reaction_list] == list(range(len(net.reaction_list))) and
                           all(dd["idx"] == -1 for dd in case["declared"])})
                tid += 1
                traces.append({"tid": tid, "R": [{"tmin": dd["tmin"], "tmax": dd["tmax"], "idx": dd["idx"]} for dd in case["declared"]],
                               "mods": sorted(case["mods"]), "ev": ev, "be": tag})
                meta[tid] = case
    if pid == "C06" and meta:
        # the batched kernels of the cusparse back-end, for the first networks: one event per kernel
        for ci2 in sorted({id(c_): c_ for c_ in meta.values()}.values(), key=lambda c_: str(c_["files"]))[: (3 if ctx.quick else 20)]:
            try:
                flist2 = []
                d2 = ctx.sub("in") / f"batch_{len(traces)}"
                d2.mkdir()
                for j, (fmt_, text_) in enumerate(x for x in ci2["files"] if x[0] != "edit"):
                    f2 = d2 / f"f{j}.{fmt_}"
                    f2.write_text(text_)
                    flist2.append((str(f2), fmt_))
                net2 = Network(filelist=[a for a, _ in flist2], fileformats=[b for _, b in flist2])
                out2 = ctx.scratch / "r" / f"batch_{len(traces)}"
                render(net2, "cvode", "cusparse", out2, templates=["src/naunet_fex.cpp.j2", "src/naunet_jac.cpp.j2"], device="gpu")
            except Exception:   # noqa   (reading / rendering problems of these networks are reported by the traces above)
                continue
            for unit in ("fex", "jac"):
                for kname, facts in sorted(creader.batch_context((out2 / "src" / f"naunet_{unit}.cu").read_text()).items()):
                    tid += 1
                    traces.append({"tid": tid, "R": [], "mods": [], "be": f"cusparse {kname}",
                                   "ev": [{"act": "Batch", "calls": facts["calls"], "own_params": facts["own_params"], "own_state": facts["own_state"],
                                           "cleared": facts["k_cleared_per_system"]}]})
                    meta[tid] = ci2
        cov["batched_kernels_checked"] = sum(1 for t_ in traces if t_["be"].startswith("cusparse"))
    if pid == "C06":
        traces += runtime_traces(ctx, rng, len(traces), 2 if ctx.quick else 10)
    v = validate_traces(ctx, "Trace_Rates.tla", "Trace_Rates.cfg", traces, "rates", chunk=1500)
    cov["traces_validated_against_impl"] = len(traces)
    cov["traces_accepted"] = v["accepted"]
    cov["trace_states"] = v["states"]
    bytid = {t["tid"]: t for t in traces}
    mine = other = 0
    for t, rj in sorted(v["rejected"].items()):
        clause = (rj["clauses"] or ["NoEnabledAction"])[0]
        is13 = clause in C13_CLAUSES
        if (pid == "C13") != is13:
            other += 1
            continue
        mine += 1
        tr = bytid[t]
        at = max(1, min(rj["at"], len(tr["ev"])))
        e = tr["ev"][at - 1]
        if tr["be"].startswith("cusparse") and e.get("act") == "Batch":
            ctx.violation(f"C06|{clause}|kernel={tr['be'].split()[-1]}", f"batched kernel {tr['be']}: rate coefficients are not evaluated from the system's own "
                          f"parameter record / state slice: {e}: {rj['clauses']}", {"files": meta[t]["files"], "event": e, "clauses": rj["clauses"]})
            continue
        if tr["be"] == "runtime":
            ctx.violation(f"C06|{clause}|runtime", f"compiled Fex called in sequence: at T={e.get('T', 0) / 100} the active reactions were {e.get('active')} "
                          f"for windows {tr['R']}: {rj['clauses']}", {"trace": tr, "clauses": rj["clauses"]})
            continue
        dd = meta[t]["declared"][e["i"]] if e["act"] == "Assign" and e["i"] < len(meta[t]["declared"]) else {}
        feat = f"fmt={dd.get('fmt', '?')}"
        ctx.violation(f"{pid}|{clause}|{feat}", f"{tr['be']}: statement {e} against declared {dd}: {rj['clauses']}",
                      {"files": meta[t]["files"], "mods": meta[t]["mods"], "trace": tr, "rejected_at": at, "clauses": rj["clauses"]})
    cov["rejections_of_this_property"] = mine
    cov["rejections_of_sibling_property"] = other
    if traces:
        t = traces[len(traces) // 2]
        cov["samples"].append({"declared": meta[t["tid"]]["declared"][:3], "mods": meta[t["tid"]]["mods"], "events": t["ev"][:3]})
    cov["rule"] = ("cases = files of 1-3 formats encoded line by line with every window shape (none/lower/upper/both/adjacent piecewise, KROME "
                   "operator and d-exponent spellings), index pattern (unique/shared/1-based/absent) and modifier key set; non-trivial = "
                   "at least one window or one modifier")
    cov["exhaustive"] = False
    return finish(ctx, "model_checking", cov, [
        "a rate modifier replaces the whole rate statement including its window guard (as the generator intends); such reactions are "
        "judged by C13, not by C06",
        "temperatures are scaled by 100 to integers; declared bounds have at most two decimals",
        "zero-initialisation of k[] is observed textually in every consumer (declaration with = {0.0}, not static)",
    ])

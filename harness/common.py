"""Shared machinery: scratch dirs, TLC runner, trace-batch validation, findings, evidence."""
from __future__ import annotations

import atexit
import contextlib
import io
import json
import logging
import os
import re
import shutil
import subprocess
import sys
import tempfile
import time
from pathlib import Path

VERIF = Path(__file__).resolve().parent.parent
SPEC = VERIF / "spec"
SHIM = VERIF / "shim"
EVID = Path(os.environ.get("NAUNET_EVIDENCE_DIR", str(VERIF / "evidence")))
REPLAYS = EVID / "replays"
REPO = Path(os.environ.get("NAUNET_REPO", "/repo"))
GUARD = "NAUNET_VERIF"

os.environ.setdefault(GUARD, "1")
os.environ.setdefault("PYTHONHASHSEED", "0")


def import_naunet():
    """Import naunet from the working tree of REPO (never from a stale install)."""
    if str(REPO) not in sys.path:
        sys.path.insert(0, str(REPO))
    logging.disable(logging.CRITICAL)
    os.environ.setdefault("TQDM_DISABLE", "1")
    import naunet  # noqa

    got = Path(naunet.__file__).resolve().parent.parent
    if got != REPO.resolve():
        raise MachineryError(f"naunet imported from {got}, expected {REPO}")
    return naunet


class MachineryError(Exception):
    """The checking machinery itself failed (exit 2), not the property."""


class Ctx:
    def __init__(self, pid: str, tier: str, seed: int):
        self.pid, self.tier, self.seed = pid, tier, seed
        self.t0 = time.time()
        base = os.environ.get("TMPDIR", "/tmp")
        self.scratch = Path(tempfile.mkdtemp(prefix=f"nv_{pid}_", dir=base))
        if not os.environ.get("NAUNET_KEEP_SCRATCH"):
            atexit.register(lambda: shutil.rmtree(self.scratch, ignore_errors=True))
        self.violations: list[dict] = []   # {sig, what, replay}
        self.notes: list[str] = []

    @property
    def quick(self) -> bool:
        return self.tier == "quick"

    def sub(self, name: str) -> Path:
        p = self.scratch / name
        p.mkdir(parents=True, exist_ok=True)
        return p

    def violation(self, sig: str, what: str, replay_obj=None):
        self.violations.append({"sig": sig, "what": what, "replay": replay_obj})


# --------------------------------------------------------------------------- TLC

TLC_JAR_CP = "/opt/veriftools/tla/tla2tools.jar:/opt/veriftools/tla/CommunityModules-deps.jar"


def run_tlc(spec: str, cfg: str, metadir: Path, workers: int = 8, extra: list[str] | None = None,
            env: dict | None = None, timeout: int = 1800, coverage: bool = False, heap: str = "4g",
            deque: bool = False) -> dict:
    """Run TLC on SPEC/spec with SPEC/cfg (cfg may be an absolute path). Returns parsed stats + output."""
    metadir.mkdir(parents=True, exist_ok=True)
    cfgp = cfg if os.path.isabs(cfg) else str(SPEC / cfg)
    # (-Xss: the recursive operators of the trace specs walk lists of a few thousand entries; with the default thread stack the depth that
    #  fits depends on how much of TLC the JIT has compiled by then, i.e. on machine load)
    # (-Djava.io.tmpdir: TLC leaves a `tlc-<n>` directory per run in the JVM's temp directory; they go where the run's own scratch goes)
    jopts = ["-XX:+UseParallelGC", f"-Xmx{heap}", "-Xss64m", f"-Djava.io.tmpdir={metadir}"]
    if deque:
        jopts.append("-Dtlc2.tool.queue.IStateQueue=StateDeque")
    cmd = ["java", *jopts, "-cp", TLC_JAR_CP, "tlc2.TLC", "-workers", str(workers), "-metadir", str(metadir),
           "-noGenerateSpecTE", "-config", cfgp]
    if coverage:
        cmd += ["-coverage", "1"]
    cmd += (extra or []) + [spec]
    e = dict(os.environ)
    e.update(env or {})
    t0 = time.time()
    try:
        p = subprocess.run(cmd, cwd=str(SPEC), env=e, capture_output=True, text=True, timeout=timeout)
    except subprocess.TimeoutExpired as ex:
        raise MachineryError(f"TLC timeout after {timeout}s on {spec}/{cfg}") from ex
    out = p.stdout + p.stderr
    res = {"out": out, "rc": p.returncode, "wall": time.time() - t0, "cmd": " ".join(cmd)}
    m = re.search(r"(\d+) states generated, (\d+) distinct states found", out)
    if m:
        res["generated"], res["distinct"] = int(m.group(1)), int(m.group(2))
    m = re.search(r"depth of the complete state graph search is (\d+)", out)
    if m:
        res["depth"] = int(m.group(1))
    res["violated"] = re.findall(r"Error: (?:Invariant|Action property|Temporal properties?) ?(\S*) (?:is|were) violated", out)
    res["error"] = ("Error:" in out)
    res["finished"] = "Model checking completed" in out or "Finished in" in out
    return res


def require_clean_mc(res: dict, what: str):
    """A model-check run of the design spec must complete without error; else the machinery is broken
    (the spec models the code as is; a property violation of the DESIGN is reported by the caller)."""
    if "generated" not in res or not res["finished"]:
        raise MachineryError(f"TLC did not finish for {what}:\n{res['out'][-3000:]}")


def coverage_zero_actions(out: str) -> list[str]:
    """Names of top-level actions with zero count in a -coverage 1 report."""
    zero = []
    for m in re.finditer(r"^<(\w+) line \d+, col \d+ to line \d+, col \d+ of module (\w+)>: (\d+):(\d+)", out, re.M):
        if int(m.group(4)) == 0 and m.group(1) not in ("Init",):
            zero.append(f"{m.group(2)}!{m.group(1)}")
    return zero


_TLA_TUPLE = re.compile(r'^<<(.*)>>$')


def parse_printt_tuples(out: str, head: str) -> list[list]:
    """Lines printed by PrintT(<<"HEAD", a, b, ...>>) -> python lists (ints / strings)."""
    res = []
    for line in out.splitlines():
        line = line.strip()
        if not line.startswith(f'<<"{head}"'):
            continue
        m = _TLA_TUPLE.match(line)
        if not m:
            continue
        items = []
        for tok in re.findall(r'"((?:[^"\\]|\\.)*)"|(-?\d+)|(TRUE|FALSE)', m.group(1)):
            if tok[1] != "":
                items.append(int(tok[1]))
            elif tok[2] != "":
                items.append(tok[2] == "TRUE")
            else:
                items.append(tok[0])
        res.append(items)
    return res


def validate_traces(ctx: Ctx, spec: str, cfg: str, traces: list[dict], name: str, chunk: int = 4000,
                    extra_top: dict | None = None, timeout: int = 1800, deque: bool = False) -> dict:
    """Batch trace validation.  `traces` = [{"tid": int, "ev": [...], ...}].  The trace spec prints
    <<"VERDICT", tid, reached, need>> for every trace and <<"MISMATCH", tid, l, clause>> for failed clauses.
    Returns {"accepted": n, "rejected": {tid: {"at": l, "clauses": [...]}}, "states": .., "generated": ..}."""
    accepted = 0
    rejected: dict[int, dict] = {}
    notes: dict[int, list] = {}      # <<"NOTE", tid, l, clause>>: clauses that are reported without blocking the trace
    states = generated = 0
    wall = 0.0
    for ci in range(0, len(traces), chunk):
        part = traces[ci:ci + chunk]
        f = ctx.sub("traces") / f"{name}_{ci}.json"
        top = {"traces": part}
        top.update(extra_top or {})
        f.write_text(json.dumps(top))
        res = run_tlc(spec, cfg, ctx.sub("meta") / f"{name}_{ci}", workers=1, env={"TRACE_FILE": str(f)},
                      timeout=timeout, deque=deque)
        wall += res["wall"]
        verdicts = parse_printt_tuples(res["out"], "VERDICT")
        if len(verdicts) != len(part):
            raise MachineryError(f"trace validation {name}: {len(verdicts)} verdicts for {len(part)} traces\n"
                                 + res["out"][-4000:])
        states += res.get("distinct", 0)
        generated += res.get("generated", 0)
        mism: dict[int, list] = {}
        for _, tid, l, clause in parse_printt_tuples(res["out"], "MISMATCH"):
            mism.setdefault(tid, []).append((l, clause))
        for _, tid, l, clause in parse_printt_tuples(res["out"], "NOTE"):
            if (l, clause) not in notes.setdefault(tid, []):
                notes[tid].append((l, clause))
        for _, tid, reached, need in verdicts:
            if reached == need:
                accepted += 1
            else:
                cl = [c for (l, c) in mism.get(tid, []) if l >= reached] or [c for (_, c) in mism.get(tid, [])]
                # most recent first: the last mismatch printed at the furthest position is the deciding one
                seen, ordered = set(), []
                for c in reversed(cl):
                    if c not in seen:
                        seen.add(c)
                        ordered.append(c)
                rejected[tid] = {"at": reached, "need": need, "clauses": ordered}
    return {"accepted": accepted, "rejected": rejected, "states": states, "generated": generated, "wall": wall, "notes": notes}


# --------------------------------------------------------------------------- rendering helpers

def quiet():
    return contextlib.redirect_stdout(io.StringIO())


_loaders: dict = {}


def render(net, solver: str, method: str, path: Path, templates: list[str] | None = None, device: str = "cpu",
           jac_pattern: bool = False, name: str = "proj"):
    """TemplateLoader.render into path (TemplateLoader objects are reused: construction costs ~0.2 s)."""
    import_naunet()
    from naunet.templateloader import TemplateLoader
    key = (solver, method, device)
    tl = _loaders.get(key)
    if tl is None:
        tl = _loaders[key] = TemplateLoader(solver, method, device)
    path = Path(path)
    path.mkdir(parents=True, exist_ok=True)
    with quiet():
        tl.render(name, net, templates=templates, path=path, jac_pattern=jac_pattern)
    return path


def compile_cpp(sources: list[Path], includes: list[Path], out: Path, flags: list[str] | None = None,
                timeout: int = 600) -> subprocess.CompletedProcess:
    # -fsanitize=bounds: a subscript outside the DECLARED size of an array (locals, class members) stops the program with a diagnostic
    cmd = ["g++", "-std=c++11", "-w", "-O0", "-fsanitize=bounds", "-fno-sanitize-recover=bounds", *(flags or [])]
    for i in includes:
        cmd += ["-I", str(i)]
    cmd += [str(s) for s in sources] + ["-o", str(out)]
    return subprocess.run(cmd, capture_output=True, text=True, timeout=timeout)


# --------------------------------------------------------------------------- findings + evidence

def load_findings() -> tuple[dict[str, dict[str, str]], list[str]]:
    known: dict[str, dict[str, str]] = {}
    fixed: list[str] = []
    f = VERIF / "known_findings.txt"
    if f.exists():
        for line in f.read_text().splitlines():
            line = line.strip()
            if not line or line.startswith("#"):
                continue
            if line.startswith("fixed:"):
                fixed.append(line)
                continue
            m = re.match(r"known: property=(\S+) sig=(\S+) :: (.*)$", line)
            if m:
                known.setdefault(m.group(1), {})[m.group(2)] = m.group(3)
    return known, fixed


def finish(ctx: Ctx, level: str, coverage: dict, assumptions: list[str]) -> int:
    """Write evidence, print KNOWN-FINDING / VIOLATION lines, return exit code."""
    known, _ = load_findings()
    kn = known.get(ctx.pid, {})
    new, seen_known = [], {}
    for v in ctx.violations:
        if v["sig"] in kn:
            seen_known.setdefault(v["sig"], v)
        else:
            new.append(v)
    for sig, v in sorted(seen_known.items()):
        print(f"KNOWN-FINDING: property={ctx.pid} {sig} :: {kn[sig]}")
    rc = 0
    if new:
        REPLAYS.mkdir(parents=True, exist_ok=True)
        bysig: dict[str, dict] = {}
        for v in new:
            bysig.setdefault(v["sig"], v)
        for i, (sig, v) in enumerate(sorted(bysig.items())):
            rp = REPLAYS / f"{ctx.pid}_{re.sub(r'[^A-Za-z0-9_.=-]+', '_', sig)[:80]}.json"
            rp.write_text(json.dumps({"property": ctx.pid, "signature": sig, "what": v["what"], "case": v["replay"],
                                      "tier": ctx.tier, "seed": ctx.seed}, indent=1, default=str))
            print(f"VIOLATION property={ctx.pid} replay={rp}")
            print(f"  signature: {sig}\n  what: {v['what']}")
        rc = 1
    coverage = dict(coverage)
    coverage["known_findings_seen"] = sorted(seen_known)
    coverage["new_violation_signatures"] = sorted({v["sig"] for v in new})
    ev = {"property_id": ctx.pid, "tier": ctx.tier, "seed": ctx.seed, "level": level, "coverage": coverage,
          "assumptions": assumptions + ctx.notes, "wall_s": round(time.time() - ctx.t0, 2),
          "violations": len({v['sig'] for v in new})}
    EVID.mkdir(exist_ok=True)
    (EVID / f"{ctx.pid}.json").write_text(json.dumps(ev, indent=1, default=str))
    return rc


# --------------------------------------------------------------------------- TLA+ value parsing (simulate / dump files)

def parse_tla(s: str):
    """ints, strings, TRUE/FALSE, <<tuples>>, {sets}, [records |-> ...], (functions a :> b @@ ...) -> python values"""
    s = s.strip()
    pos = 0

    def ws():
        nonlocal pos
        while pos < len(s) and s[pos] in " \n\t":
            pos += 1

    def val():
        nonlocal pos
        ws()
        if s.startswith("<<", pos):
            pos += 2
            items = []
            ws()
            while not s.startswith(">>", pos):
                items.append(val())
                ws()
                if s[pos] == ",":
                    pos += 1
                ws()
            pos += 2
            return items
        if s[pos] == "{":
            pos += 1
            items = []
            ws()
            while s[pos] != "}":
                items.append(val())
                ws()
                if s[pos] == ",":
                    pos += 1
                ws()
            pos += 1
            return set(items) if all(isinstance(x, (int, str)) for x in items) else items
        if s[pos] == "[":
            pos += 1
            rec = {}
            ws()
            while s[pos] != "]":
                m = re.match(r"(\w+)\s*\|->", s[pos:])
                if not m:
                    raise ValueError(f"bad record at {s[pos:pos + 30]!r}")
                pos += m.end()
                rec[m.group(1)] = val()
                ws()
                if s[pos] == ",":
                    pos += 1
                ws()
            pos += 1
            return rec
        if s[pos] == "(":
            pos += 1
            fn = {}
            ws()
            while s[pos] != ")":
                k = val()
                ws()
                assert s.startswith(":>", pos), s[pos:pos + 20]
                pos += 2
                fn[k if not isinstance(k, list) else tuple(k)] = val()
                ws()
                if s.startswith("@@", pos):
                    pos += 2
                ws()
            pos += 1
            return fn
        if s[pos] == '"':
            e = s.index('"', pos + 1)
            v = s[pos + 1:e]
            pos = e + 1
            return v
        m = re.match(r"-?\d+", s[pos:])
        if m:
            pos += m.end()
            return int(m.group())
        m = re.match(r"[A-Za-z_]\w*", s[pos:])
        pos += m.end()
        return {"TRUE": True, "FALSE": False}.get(m.group(), m.group())
    return val()


def sim_states(path, only: set | None = None) -> list[dict]:
    """states of one `tlc -simulate file=` behaviour: [{var: value}] (restricted to the variables in `only`)"""
    text = Path(path).read_text()
    states = []
    for block in re.split(r"^STATE_\d+ ==\s*$", text, flags=re.M)[1:]:
        block = re.split(r"^\\\*", block, flags=re.M)[0]
        st = {}
        for m in re.finditer(r"^(?:/\\ )?(\w+) = (.*?)(?=^/\\ |\Z)", block, flags=re.M | re.S):
            if only is None or m.group(1) in only:
                st[m.group(1)] = parse_tla(m.group(2))
        states.append(st)
    return states

"""C12 — KROME rate expressions keep their value when translated from Fortran to C (Expr.tla).

(A) TLC: EvalC(Translate(t)) = EvalF(t) for every tree of depth <= 2 over + - * ** unary minus (integers), and the two seeded
    mis-translations (left-associated **, negative literal as base) are caught.
(B-D) trees chosen by TLC (-simulate) and generated deeper trees are printed as Fortran with minimal parentheses, translated by the
    real KROMEReaction, parsed back and compared with Translate(t) by TLC; every rate expression of the bundled KROME files is
    compared numerically against its Fortran value."""
from __future__ import annotations

import math
import random
import re

from common import Ctx, MachineryError, REPO, finish, import_naunet, require_clean_mc, run_tlc, sim_states, validate_traces
import cexpr

PREC = {"+": 1, "-": 1, "*": 2, "/": 2, "neg": 3, "**": 4}
KROME_IDX = {"H": "idx_H", "H2": "idx_H2", "H+": "idx_Hp", "H-": "idx_Hm", "E": "idx_E", "He": "idx_He", "D": "idx_D"}


def fnum(ctext: str, rng) -> str:
    return ctext.replace("e", rng.choice(["d", "e", "d"])) if "e" in ctext else ctext


def fprint(t, rng, parent=0, side=""):
    """Fortran text with minimal parentheses"""
    k = t[0]
    if k == "num":
        return fnum(t[1], rng)
    if k == "var":
        return t[1]
    if k == "ab":
        return f"n({KROME_IDX[t[1]]})"
    if k == "call":
        return f"{t[1]}({fprint(t[2], rng)})"
    if k == "neg":
        s = "-" + fprint(t[1], rng, PREC["neg"], "r")
        return f"({s})" if parent >= PREC["neg"] or side == "r" and parent >= 1 else s
    op, a, b = t[1], t[2], t[3]
    p = PREC[op]
    if op == "**":
        s = fprint(a, rng, p + 1, "l") + "**" + fprint(b, rng, p, "r")      # right associative
    else:
        s = fprint(a, rng, p, "l") + op + fprint(b, rng, p + 1, "r")        # left associative
    need = p < parent
    return f"({s})" if need else s


def tree_json(t):
    return list(t) if t[0] in ("num", "var", "ab") else ([t[0], tree_json(t[1])] if t[0] == "neg" else
                                                       ([t[0], t[1], tree_json(t[2])] if t[0] == "call" else [t[0], t[1], tree_json(t[2]), tree_json(t[3])]))


def gen_tree(rng, depth):
    if depth == 0 or rng.random() < 0.25:
        r = rng.random()
        if r < 0.4:
            return ("num", rng.choice(["2.0", "3.0", "1.5e-1", "3.e2", "2.5e0", "7", "1.0e-10"]))
        if r < 0.75:
            return ("var", rng.choice(["Tgas", "invT", "T32", "user_x", "Te", "Hnuclei"]))
        return ("ab", rng.choice(sorted(KROME_IDX)))
    r = rng.random()
    if r < 0.12:
        return ("neg", ("num", rng.choice(["2.0", "0.76e0", "5.0e-1"])))
    if r < 0.22:
        return ("call", rng.choice(["exp", "sqrt", "log", "log10", "atan", "acos", "asin", "tanh", "abs"]), gen_tree(rng, depth - 1))
    op = rng.choice(["+", "-", "*", "/", "**", "**"])
    return ("bin", op, gen_tree(rng, depth - 1), gen_tree(rng, depth - 1))


def shape(t):
    if t[0] == "neg" and t[1][0] == "bin" and t[1][1] == "**":
        return "neg-literal-base" if t[1][2][0] == "num" else "neg-pow"
    feats = []

    def walk(x, under_neg=False):
        if x[0] == "bin":
            if x[1] == "**" and x[3][0] == "bin" and x[3][1] == "**":
                feats.append("pow-chain")
            if x[1] == "**" and x[2][0] == "neg":
                feats.append("neg-base-parenthesised")
            walk(x[2]); walk(x[3])
        elif x[0] == "neg":
            if x[1][0] == "bin" and x[1][1] == "**":
                feats.append("neg-literal-base" if x[1][2][0] == "num" else "neg-pow")
            walk(x[1])
        elif x[0] == "call":
            walk(x[2])
        elif x[0] == "ab":
            feats.append("ab=" + x[1])
    walk(t)
    order = ["pow-chain", "neg-literal-base", "neg-pow"]
    for o in order:
        if o in feats:
            return o
    abs_ = sorted(f for f in feats if f.startswith("ab=") and f[3:] not in ("H", "H+", "H-", "D"))
    return abs_[0] if abs_ else (feats[0] if feats else "plain")


def translate_real(text: str):
    from naunet.reactions.kromereaction import KROMEReaction
    KROMEReaction.initialize()
    KROMEReaction.reacformat = "idx,R,R,P,P,Tmin,Tmax,rate"
    try:
        r = KROMEReaction(f"1,H,H,H2,,NONE,NONE,{text}")
        out = r.rateexpr()
    except Exception as e:   # noqa
        # a rejected expression is submitted once more straight away (a caller that retries): still rejected -- or, if it is accepted now,
        # judged like any accepted translation
        try:
            out = KROMEReaction(f"1,H,H,H2,,NONE,NONE,{text}").rateexpr()
        except Exception:   # noqa
            return {"accepted": False, "valid": True, "tree": ["none"], "out": "", "err": f"{type(e).__name__}"}
    try:
        return {"accepted": True, "valid": True, "tree": cexpr.canon(cexpr.parse(out)), "out": out, "err": ""}
    except cexpr.ParseError as e:
        return {"accepted": True, "valid": False, "tree": ["none"], "out": out, "err": str(e)}


def fortran_value(text: str, env: dict):
    py = re.sub(r"(\d\.?\d*)[dD]([-+]?\d+)", r"\1e\2", text)
    py = re.sub(r"\bn\(\s*(idx_\w+)\s*\)", lambda m: f"AB['{m.group(1)}']", py)
    return eval(py, {"__builtins__": {}}, env)   # Python's ** has Fortran's precedence and associativity


def main(ctx: Ctx) -> int:
    import_naunet()
    from naunet.species import Species
    cov: dict = {"samples": []}
    r = run_tlc("MC_Expr.tla", "MC_Expr.cfg", ctx.sub("meta") / "mc", workers=16)
    require_clean_mc(r, "MC_Expr")
    if r["error"]:
        ctx.violation(f"C12|Design|{','.join(r['violated'])}", "TLC counterexample in Expr", {"tlc": r["out"][-3000:]})
    cov["states"], cov["transitions"] = r["distinct"], r["generated"]
    for v in ("left_pow", "neg_base"):
        c = ctx.scratch / f"{v}.cfg"
        c.write_text(open("/verif/spec/MC_Expr.cfg").read().replace('"asis"', f'"{v}"'))
        rv = run_tlc("MC_Expr.tla", str(c), ctx.sub("meta") / v, workers=4)
        if "SameValue" not in rv["violated"]:
            raise MachineryError(f"design variant {v} not caught")
    cov["design_variants_caught"] = 2
    rng = random.Random(ctx.seed)
    alias = {sp: "IDX_" + Species(sp).alias for sp in KROME_IDX}
    trees = []
    simdir = ctx.sub("sim")
    run_tlc("MC_Expr.tla", "MC_Expr.cfg", ctx.sub("meta") / "sim", workers=1,
            extra=["-simulate", f"file={simdir}/b,num={200 if ctx.quick else 3000}", "-depth", "1", "-seed", str(ctx.seed + 5)])
    num_text = {"2": "2.0", "3": "3.0"}

    def from_tla(x):
        if x[0] == "num":
            return ("num", num_text.get(x[1], x[1]))
        if x[0] in ("var", "ab"):
            return (x[0], x[1])
        if x[0] == "neg":
            return ("neg", from_tla(x[1]))
        if x[0] == "call":
            return ("call", x[1], from_tla(x[2]))
        return ("bin", x[1], from_tla(x[2]), from_tla(x[3]))
    seen = set()
    for f in sorted(simdir.glob("b_*")):
        t = from_tla(sim_states(f, {"t"})[0]["t"])
        if t not in seen:
            seen.add(t)
            trees.append(("tlc", t))
    cov["tlc_chosen_trees"] = len(trees)
    two, three = ("num", "2.0"), ("num", "3.0")
    for w in [("bin", "**", two, ("bin", "**", three, two)), ("neg", ("bin", "**", two, two)), ("bin", "*", ("ab", "H2"), two), ("bin", "*", ("ab", "He"), two),
              ("bin", "*", ("ab", "E"), two), ("bin", "-", ("var", "user_x"), ("bin", "**", three, two)), ("bin", "/", two, ("bin", "/", ("var", "Tgas"), three)),
              # inverse trigonometric intrinsics keep their names; integer literals divide as integers in Fortran AND in C
              ("call", "atan", ("bin", "/", ("var", "Tgas"), ("num", "3.e2"))), ("bin", "*", two, ("call", "acos", ("var", "invT"))), ("call", "asin", ("var", "invT")),
              ("bin", "**", ("var", "Tgas"), ("bin", "/", ("num", "1"), ("num", "2"))), ("bin", "/", ("num", "7"), ("num", "2")),
              ("bin", "*", ("var", "T32"), ("bin", "/", ("bin", "/", ("num", "7"), ("num", "2")), ("num", "2"))), ("bin", "/", ("var", "Tgas"), ("num", "300")),
              # a leading sign in front of a power whose base is a name / call / abundance / parenthesis: -x**y means -(x**y)
              ("neg", ("bin", "**", ("var", "T32"), two)), ("call", "exp", ("neg", ("bin", "**", ("var", "T32"), two))),
              ("bin", "+", ("neg", ("bin", "**", ("var", "user_x"), two)), three), ("neg", ("bin", "**", ("call", "sqrt", ("var", "Tgas")), three)),
              ("neg", ("bin", "**", ("ab", "H"), two)), ("neg", ("bin", "**", ("bin", "+", ("var", "Tgas"), two), two)),
              ("bin", "*", two, ("call", "exp", ("neg", ("bin", "**", ("var", "invT"), ("num", "1.5e-1")))))]:
        trees.append(("witness", w))
    for _ in range(300 if ctx.quick else 5000):
        trees.append(("random", gen_tree(rng, 3)))
    trees += [("again", t) for _, t in trees[:60]]       # second pass: the first trees again at the end of the run (same process)
    traces = []
    for origin, t in trees:
        text = fprint(t, rng)
        traces.append({"tid": len(traces) + 1, "kind": "tree", "t": tree_json(t), "obs": translate_real(text), "text": text, "origin": origin, "shape": shape(t)})
    # bundled KROME expressions
    nb = 0
    for fn in ("primordial.krome", "minimal.krome"):
        kfmt = None
        for line in (REPO / "tests" / "data" / fn).read_text().splitlines():
            if line.startswith("@format:"):
                kfmt = line[8:].strip().lower().split(",")
                continue
            if not line.strip() or line.startswith(("#", "@", "//")) or kfmt is None:
                continue
            cols = line.strip().split(",")
            if len(cols) != len(kfmt):
                continue
            text = cols[kfmt.index("rate")].replace("dexp", "exp")
            obs = translate_real(text)
            same = True
            if obs["accepted"] and obs["valid"]:
                ast = cexpr.parse(obs["out"])
                for k in range(8):
                    T = 20.0 + 977.0 * k
                    base = {"Tgas": T, "invT": 1.0 / T, "T32": T / 300.0, "Te": T * 8.617343e-5, "invTe": 1.0 / (T * 8.617343e-5),
                            "lnTe": math.log(T * 8.617343e-5), "sqrTgas": math.sqrt(T), "Hnuclei": 1e4, "nH": 1e4, "user_crate": 1.3e-17}
                    fenv = dict(base, exp=math.exp, sqrt=math.sqrt, log=math.log, log10=math.log10, AB={})
                    try:
                        want = fortran_value(text, fenv)
                        got = cexpr.evaluate(ast, dict(base))
                    except (KeyError, NameError, OverflowError, ZeroDivisionError, ValueError, SyntaxError):
                        continue
                    if not (want == got or abs(want - got) <= 1e-12 * max(abs(want), abs(got))):
                        same = False
                        break
            obs["same_value"] = same
            traces.append({"tid": len(traces) + 1, "kind": "text", "t": ["none"], "obs": obs, "text": text, "origin": fn, "shape": "bundled"})
            nb += 1
    cov["bundled_expressions"] = nb
    # numbers whose exponent is not written in one piece with the mantissa (outside the grammar): refused, or read as the number meant
    for text, meant in (("2.0 e-3*Tgas", "2.0e-3*Tgas"), ("2.0e -3*Tgas", "2.0e-3*Tgas"), ("1.5E 3*invT", "1.5e3*invT"), ("5 e-1*T32", "5e-1*T32"),
                        ("1e5e3*user_x", None), ("3.0d0 d0*Tgas", None)):
        obs = translate_real(text)
        same = True
        if obs["accepted"] and obs["valid"]:
            if meant is None:
                same = False          # there is no number this could mean
            else:
                ast = cexpr.parse(obs["out"])
                for T in (20.0, 997.0):
                    base = {"Tgas": T, "invT": 1.0 / T, "T32": T / 300.0, "user_x": 1.7}
                    try:
                        want = fortran_value(meant, dict(base, exp=math.exp, sqrt=math.sqrt, log=math.log, log10=math.log10, AB={}))
                        got = cexpr.evaluate(ast, dict(base))
                    except (KeyError, NameError, OverflowError, ZeroDivisionError, ValueError, SyntaxError):
                        same = False
                        break
                    if not (want == got or abs(want - got) <= 1e-12 * max(abs(want), abs(got))):
                        same = False
                        break
        obs["same_value"] = same
        traces.append({"tid": len(traces) + 1, "kind": "text", "t": ["none"], "obs": obs, "text": text, "origin": "split literal", "shape": "split-literal"})
    # rates written with user variables (@var), whole files through the real reader and generator: in KROME the @var lines are assignments
    # executed in file order before the rates, so a variable assigned twice has its LAST value, and a variable may be written with an earlier
    # one or with the reader's temperature shortcuts.  The generated EvalRates is evaluated statement by statement (C semantics).
    from naunet.network import Network
    from common import render
    import creader
    VARFILES = {
        # assigned twice, nothing in between depends on it: the last assignment is the value
        "reassigned": ["@var:user_k=1.5d0*Tgas", "@var:user_k=4.d0*Tgas**0.5d0", "@var:user_a=2.0d0", "@format:idx,R,R,P,P,rate",
                       "1,H,H,H2,,1.0d-10*user_k", "2,H2,H,H,H,user_k*user_a*1.0d-12", "3,H,H+,H2+,,2.0d-9/user_k**2"],
        "shortcuts": ["@var:kx=2.0d0*invT", "@var:ky=kx*T32+sqrTgas", "@format:idx,R,R,P,P,rate", "1,H,H,H2,,1.0d-10*kx*T32", "2,H2,H,H,H,ky**(-0.5d0)*1.0d-11"],
        "chain": ["@var:a1=3.0d0", "@var:a2=a1**2", "@var:a3=a1*a2-1.0d0", "@format:idx,R,P,P,rate", "1,H2,H,H,a1*1.0d-17", "2,H2+,H+,H,a3/a2*1.0d-17"],
        # assigned twice with a variable in between that was computed from the FIRST value
        "reassigned-after-dependent": ["@var:kbase=1.0d-9", "@var:kscaled=2.0d0*kbase", "@var:kbase=3.0d-9", "@format:idx,R,R,P,P,rate",
                                         "1,H,H,H2,,kscaled*sqrTgas", "2,H2,H,H,H,kbase*1.0d-3"],
    }
    DECLRE = re.compile(r"(?:^|[;{}\n])\s*(?:realtype|double)\s+(\w+)\s*=\s*([^;]*);")
    for fi, (fname, flines) in enumerate(VARFILES.items()):
        fpath = ctx.sub("in") / f"vars_{fi}.krome"
        fpath.write_text("\n".join(flines) + "\n")
        rates_f = [ln.split(",")[-1] for ln in flines if ln[0].isdigit()]
        try:
            net = Network(filelist=str(fpath), fileformats="krome")
            out = ctx.scratch / "r" / f"vars_{fi}"
            render(net, "cvode", "dense", out, templates=["src/naunet_rates.cpp.j2"])
            text = creader.strip_comments((out / "src/naunet_rates.cpp").read_text())
            body = text[text.index("int EvalRates"):text.index("int EvalHeatingRates")]
            decls = [(m.group(1), m.group(2)) for m in DECLRE.finditer(body)]
            kst = {st["i"]: st["expr"] for st in creader.read_rates(text)}
            err = ""
        except Exception as e:   # noqa
            decls, kst, err = [], {}, f"{type(e).__name__}: {str(e)[:100]}"
        for ri, ftext in enumerate(rates_f):
            obs = {"accepted": not err, "valid": True, "tree": ["none"], "out": kst.get(ri, ""), "err": err, "same_value": True}
            if not err:
                for T in (20.0, 997.0, 8000.0):
                    base = {"Tgas": T, "invT": 1.0 / T, "T32": T / 300.0, "Te": T * 8.617343e-5, "invTe": 1.0 / (T * 8.617343e-5),
                            "lnTe": math.log(T * 8.617343e-5), "sqrTgas": math.sqrt(T), "nH": 1e4}
                    try:
                        fenv = dict(base, exp=math.exp, sqrt=math.sqrt, log=math.log, log10=math.log10, AB={})
                        for ln in flines:
                            if ln.startswith("@var:"):
                                nm, rhs = ln[5:].split("=", 1)
                                fenv[nm.strip()] = fortran_value(rhs, fenv)
                        want = fortran_value(ftext, fenv)
                        cenv = {"Tgas": T, "nH": 1e4}
                        for nm, rhs in decls:
                            if "u_data" in rhs:
                                continue
                            cenv[nm] = cexpr.evaluate(cexpr.parse(rhs), cenv)
                        got = cexpr.evaluate(cexpr.parse(kst[ri]), cenv)
                    except Exception as e:   # noqa   (an undeclared name, an unparsable statement: not the same value)
                        obs["same_value"], obs["err"] = False, f"{type(e).__name__}: {str(e)[:80]}"
                        break
                    if not (want == got or abs(want - got) <= 1e-12 * max(abs(want), abs(got))):
                        obs["same_value"], obs["err"] = False, f"T={T}: Fortran {want!r}, generated {got!r}"
                        break
            traces.append({"tid": len(traces) + 1, "kind": "text", "t": ["none"], "obs": obs, "text": f"{ftext}   [file: {' | '.join(flines[:4])} ...]",
                           "origin": f"user variables, file {fname!r}: {obs['err']}", "shape": f"user-variables,case={fname}"})
    cov["rates_with_user_variables"] = sum(1 for t in traces if t["shape"].startswith("user-variables"))
    v = validate_traces(ctx, "Trace_Expr.tla", "Trace_Expr.cfg", [{k: t[k] for k in ("tid", "kind", "t", "obs")} for t in traces], "expr", chunk=3000,
                        extra_top={"alias": alias})
    cov["traces_validated_against_impl"] = len(traces)
    cov["traces_accepted"] = v["accepted"]
    cov["translator_accepted"] = sum(1 for t in traces if t["obs"]["accepted"])
    cov["trace_states"] = v["states"]
    by = {t["tid"]: t for t in traces}
    for tid, rj in sorted(v["rejected"].items()):
        clause = (rj["clauses"] or ["NoEnabledAction"])[0]
        tr = by[tid]
        ctx.violation(f"C12|{clause}|shape={tr['shape']}", f"Fortran {tr['text']!r} -> C {tr['obs']['out']!r} ({tr['origin']}): {rj['clauses']}",
                      {"fortran": tr["text"], "c": tr["obs"]["out"], "tree": tr["t"], "clauses": rj["clauses"]})
    cov["samples"] += [{"fortran": t["text"], "c": t["obs"]["out"], "accepted": t["obs"]["accepted"]} for t in traces[:: max(1, len(traces) // 4)][:4]]
    cov["rule"] = "trees over + - * / ** unary minus, calls, literals with d/e exponents, variables, n(idx_X); non-trivial = at least one operator"
    cov["exhaustive"] = False
    return finish(ctx, "model_checking", cov, [
        "the minimal-parenthesis Fortran printer is my own; Python's ** serves as the Fortran value oracle for the bundled expressions",
        "an expression the translator rejects is fine by the property; only accepted-and-altered is a violation",
    ])

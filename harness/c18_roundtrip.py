"""C18 — writing a network and reading it back preserves the model; export + re-render never silently changes a rate law
(RoundTrip.tla).

(A) TLC: two write/read cycles over all idempotent printing functions of a small value domain.
(B-D) networks built through the API and read from files of every format (independent encoders) are written in the native
format, read back, written and read again; the files are decoded by an independent reader; each exported project is re-read
from its own reactions file and every rate statement is compared numerically with the direct rendering.  Judged by
Trace_RoundTrip.tla."""
from __future__ import annotations

import hashlib
import math
import random
import re

from common import Ctx, MachineryError, finish, import_naunet, render, require_clean_mc, run_tlc, validate_traces
import cexpr
import creader
import encoders
import c07_formats as F


def p3e(x):
    return f"{x:10.3e}".strip()


def p2f(x):
    return f"{x:9.2f}".strip()


def decode_native(text: str):
    recs = []
    for line in text.split("\n"):
        if not line.strip():
            continue
        f = [x.strip() for x in line.split(",")]
        if len(f) != 16:
            raise ValueError(f"native line with {len(f)} fields: {line[:60]!r}")
        recs.append({"idx": int(f[0]), "r": [x for x in f[1:4] if x], "p": [x for x in f[4:9] if x], "a": "e:" + f[9], "b": "e:" + f[10],
                     "c": "e:" + f[11], "tmin": "f:" + f[12], "tmax": "f:" + f[13], "ty": int(f[14]), "src": f[15]})
    return recs


def obs_net(net):
    out = []
    for x in net.reaction_list:
        out.append({"idx": x.idxfromfile, "r": [s.name for s in x.reactants], "p": [s.name for s in x.products], "a": "e:" + p3e(x.alpha),
                    "b": "e:" + p3e(x.beta), "c": "e:" + p3e(x.gamma), "tmin": "f:" + p2f(x.temp_min), "tmax": "f:" + p2f(x.temp_max),
                    "ty": int(x.reaction_type), "src": x.source})
    return out


def pseudo(name: str, lo=0.5, hi=2.0) -> float:
    h = int(hashlib.sha256(name.encode()).hexdigest()[:8], 16) / 0xFFFFFFFF
    return lo + (hi - lo) * h


class Env(dict):
    def __init__(self, salt):
        super().__init__()
        self.salt = salt

    def __missing__(self, k):
        scale = {"Tgas": (10.0, 300.0), "Tdust": (8.0, 40.0), "zeta": (1e-17, 5e-17), "zism": (1.3e-17, 1.3e-17), "nH": (1e3, 1e6),
                 "Av": (0.1, 10.0), "omega": (0.3, 0.6)}.get(k, (0.5, 2.0))
        v = pseudo(k + self.salt, *scale)
        self[k] = v
        return v


def fake_funcs(salt):
    def mk(name):
        return lambda *a: pseudo(name + salt + ",".join(f"{x:.6g}" for x in a), 0.1, 1.0)
    return {n: mk(n) for n in ("GetShieldingFactor", "GetGrainScattering", "GetCharactWavelength", "GetMantleDens", "GetHNuclei", "GetNumDens")}


def same_value(e1: str, e2: str) -> bool | None:
    try:
        a1, a2 = cexpr.parse(e1), cexpr.parse(e2)
    except cexpr.ParseError:
        return e1.split() == e2.split()
    if cexpr.canon(a1) == cexpr.canon(a2):
        return True
    ok = 0
    for k in range(12):
        env = Env(str(k))
        vals = []
        for a_ in (a1, a2):
            try:
                vals.append(cexpr.evaluate(a_, env, fake_funcs(str(k))))
            except (KeyError, ZeroDivisionError, OverflowError, ValueError):
                vals.append(None)
        if vals[0] is None and vals[1] is None:
            continue
        if vals[0] is None or vals[1] is None:
            return False          # one side has a value here, the other divides by zero / leaves the domain: not the same law
        v1, v2 = vals
        ok += 1
        if not (v1 == v2 or abs(v1 - v2) <= 1e-9 * max(abs(v1), abs(v2))):
            return False
    return True if ok else None


def rate_exprs(ctx, net, tag):
    out = ctx.scratch / "r" / tag
    render(net, "cvode", "dense", out, templates=["src/naunet_rates.cpp.j2"])
    return {st["i"]: st["expr"] for st in creader.read_rates((out / "src/naunet_rates.cpp").read_text())}


RERENDER = """
import logging, os, sys
sys.path.insert(0, {root!r})
logging.disable(logging.CRITICAL)
from cleo.application import Application
from cleo.testers.command_tester import CommandTester
from naunet.console.commands.render import RenderCommand
app = Application()
app.add(RenderCommand())
sys.exit(CommandTester(app.find("render")).execute("--force"))
"""


def export_cases(ctx, rng, n, tid0):
    """gas-grain networks with user-supplied binding energies / yields: export, then re-render the exported project in a fresh process"""
    import os
    import subprocess
    from common import REPO, quiet
    from naunet import chemistrydata
    from naunet.network import Network
    from naunet.reactions.reaction import Reaction
    from naunet.reactiontype import ReactionType as RT
    from naunet.species import Species
    out = []
    ices = ["#CO", "#H2O", "#H", "#CH4", "#NH3"]
    for k in range(n):
        Species.reset()
        chemistrydata.user_binding_energy.clear()
        chemistrydata.user_photon_yield.clear()
        chosen = rng.sample(ices, rng.randint(2, 4))
        eb = {s: float(rng.choice([650, 1300, 2750, 5600, 4321])) for s in rng.sample(chosen, rng.randint(1, len(chosen)))}
        yl = {s: rng.choice([2.7e-3, 1.0e-4]) for s in rng.sample(chosen, rng.randint(0, 2))}
        chemistrydata.update_binding_energy(dict(eb))
        chemistrydata.update_photon_yield(dict(yl))
        reacs, i = [], 0
        for s in chosen:
            for r_, p_, ty, a in (([s[1:]], [s], RT.GRAIN_FREEZE, 1.0), ([s], [s[1:]], RT.GRAIN_DESORB_THERMAL, 1.0)):
                i += 1
                reacs.append(Reaction(r_, p_, -1.0, -1.0, a, 0.0, 0.0, ty, i))
        if "#CO" in chosen and "#H" in chosen:
            i += 1
            reacs.append(Reaction(["#CO", "#H"], ["#HCO"], -1.0, -1.0, 2500.0, 0.0, 0.0, RT.SURFACE_TWOBODY, i))
        reacs.append(Reaction(["H", "CO"], ["HCO"], 10.0, 300.0, 1.0e-15, 0.0, 0.0, RT.GAS_TWOBODY, i + 1))
        if k % 3 == 2:
            # charged grains: electron capture and cation recombination, the cations written BEFORE the grain (the exchange format writes the
            # reactants of a reaction in name order, so H+ + GRAIN- comes back as GRAIN- + H+)
            reacs.append(Reaction(["GRAIN0", "e-"], ["GRAIN-"], -1.0, -1.0, 1.0, 0.0, 0.0, RT.GRAIN_ECAPTURE, i + 2))
            for j_, ion_ in enumerate(("H+", "He+", "C+", "HCO+")):
                reacs.append(Reaction([ion_, "GRAIN-"], [ion_[:-1], "GRAIN0"], -1.0, -1.0, 1.0, 0.0, 0.0, RT.GRAIN_RECOMINE, i + 3 + j_))
        d = ctx.sub("exp") / str(k)
        d.mkdir()
        ev = {"act": "Export", "exported": True, "refused": False, "same": True, "diff": [], "eb": eb, "yields": yl, "ices": chosen}
        if k % 5 == 1 and k % 4 != 3:
            # a binding energy given through the PER-SPECIES setter (`Species.binding_energy = ...`, on every object that stands for the ice)
            # instead of the module-wide table: the direct rendering uses it, so the exported project must bring it back
            pick = next((s_ for s_ in chosen if s_ not in eb), None)
            if pick:
                for r3 in reacs:
                    for sp in r3.reactants + r3.products:
                        if sp.name == pick:
                            sp.binding_energy = 1575.0
                ev["eb_by_setter"] = {pick: 1575.0}
        try:
            with quiet():
                # (an entry with NO dependency species is a constant source term; it stands before one that has a dependency)
                extra = {"ode_modifier": {"H": {"factors": ["4.0e-20", "-1.0e-17*nH"], "reactants": [[], ["H"]]}, "CO": {"factors": ["2.0e-21"], "reactants": [[]]}}, } \
                    if k % 2 == 0 else {}
                if k % 3 == 1:
                    # an allowed list AND a required list, the required grain species (which no reaction mentions, and which the dust
                    # model's grain density is made of) being on both
                    names = sorted({x.name for r3 in reacs for x in r3.reactants + r3.products})
                    extra.update(allowed_species=names + ["GRAIN0"], required_species=["GRAIN0"])
                if k % 4 == 3:
                    # a THERMAL network: gas-phase reactions and cooling processes; the exported project must bring its temperature equation back
                    reacs = [Reaction(["H", "e-"], ["H+", "e-", "e-"], 10.0, 41000.0, 5.0e-11, 0.5, 157800.0, RT.GAS_TWOBODY, 1),
                             Reaction(["H+", "e-"], ["H"], -1.0, -1.0, 3.5e-12, -0.75, 0.0, RT.GAS_TWOBODY, 2),
                             Reaction(["He", "e-"], ["He+", "e-", "e-"], -1.0, -1.0, 2.4e-11, 0.5, 285300.0, RT.GAS_TWOBODY, 3),
                             Reaction(["He+", "e-"], ["He"], -1.0, -1.0, 4.5e-12, -0.67, 0.0, RT.GAS_TWOBODY, 4)]
                    net = Network(reacs, cooling=rng.sample(["CIC_HI", "RC_HII", "CEC_HI", "CIC_HeI"], rng.randint(1, 3)))
                    ev["thermal"] = True
                else:
                    net = Network(reacs, grain_model="hh93", **extra)
                rate_exprs(ctx, net, f"exp_{k}")        # the direct rendering must work at all (a dust model may not serve these reaction classes)
        except Exception:   # noqa
            continue
        try:
            with quiet():
                net.export("proj", prefix=d, overwrite=True)
        except Exception as e:   # noqa   (a loud refusal to export is not a SILENT change of a rate law: allowed by the property)
            ev["refused"], ev["err"] = True, f"export raised {type(e).__name__}: {str(e)[:120]}"
            out.append({"tid": tid0 + len(out) + 1, "net": [], "pr": [], "ev": [ev], "origin": "export"})
            continue
        proj = d / "proj"
        def snapshot():
            rates = {st["i"]: st["expr"] for st in creader.read_rates((proj / "src/naunet_rates.cpp").read_text())}
            try:       # the right-hand side as multisets of terms (the order of the factors of a term carries no meaning)
                mac = creader.parse_macros((proj / "include/naunet_macros.h").read_text())
                fx = creader.read_fex((proj / "src/naunet_fex.cpp").read_text(), mac)["eqs"]
                rates.update({f"ydot[{q}]": repr(sorted((sg, str(cf), tuple(sl)) for sg, cf, sl in terms)) for q, (terms, _w) in fx.items()})
            except Exception as e:   # noqa
                rates["ydot"] = f"unreadable: {type(e).__name__}"
            consts = dict(re.findall(r"\b(?:double|realtype)\s+(\w+)\s*=\s*([^;{]+);", creader.strip_comments((proj / "src/naunet_constants.cpp").read_text())))
            return rates, consts
        before = snapshot()
        pr = subprocess.run(["/venv/bin/python", "-c", RERENDER.format(root=str(REPO))], cwd=proj, capture_output=True, text=True, timeout=600,
                            env=dict(os.environ, PYTHONPATH=str(REPO)))
        if pr.returncode != 0:
            ev["refused"], ev["err"] = True, (pr.stderr or pr.stdout)[-200:]
        else:
            after = snapshot()
            diff = []
            for i2 in sorted(set(before[0]) | set(after[0]), key=str):
                if isinstance(i2, str):
                    if before[0].get(i2) != after[0].get(i2):
                        diff.append(f"{i2}: exported {before[0].get(i2, '-')[:150]}, re-rendered {after[0].get(i2, '-')[:150]}")
                    continue
                if i2 not in before[0] or i2 not in after[0] or same_value(before[0][i2], after[0][i2]) is False:
                    diff.append(f"k[{i2}]: exported {before[0].get(i2, '-')[:110]!r}, re-rendered {after[0].get(i2, '-')[:110]!r}")
            for c2 in sorted(set(before[1]) | set(after[1])):
                a_, b_ = before[1].get(c2), after[1].get(c2)
                try:
                    eq = a_ is not None and b_ is not None and float(a_) == float(b_)
                except ValueError:
                    eq = a_ is not None and b_ is not None and a_.split() == b_.split()
                if not eq:
                    diff.append(f"{c2}: exported {a_}, re-rendered {b_}")
            ev["diff"] = diff[:6]
            ev["same"] = not diff
        evs = [ev]
        if ev["exported"] and not ev["refused"]:
            # the network is edited and exported AGAIN into the same project (overwrite=True): the project's files must describe the network
            # as it is now
            ev2 = {"act": "Export", "exported": True, "refused": False, "same": True, "diff": [], "eb": eb, "yields": yl, "ices": chosen, "second": True}
            try:
                Species.reset()
                net.reaction_list[0].alpha = 3.3
                net.add_reaction(Reaction(["H", "H"], ["H2"], 10.0, 300.0, 2.0e-17, 0.5, 0.0, RT.GAS_TWOBODY, 99))
                with quiet():
                    net.export("proj", prefix=d, overwrite=True)
                before = snapshot()
                pr = subprocess.run(["/venv/bin/python", "-c", RERENDER.format(root=str(REPO))], cwd=proj, capture_output=True, text=True, timeout=600,
                                    env=dict(os.environ, PYTHONPATH=str(REPO)))
                if pr.returncode != 0:
                    ev2["refused"], ev2["err"] = True, (pr.stderr or pr.stdout)[-200:]
                else:
                    after = snapshot()
                    diff = [f"{i2}: exported {str(before[0].get(i2, '-'))[:110]!r}, re-rendered {str(after[0].get(i2, '-'))[:110]!r}"
                            for i2 in sorted(set(before[0]) | set(after[0]), key=str)
                            if i2 not in before[0] or i2 not in after[0] or
                            ((before[0][i2] != after[0][i2]) if isinstance(i2, str) else (same_value(before[0][i2], after[0][i2]) is False))]
                    ev2["diff"], ev2["same"] = diff[:6], not diff
            except Exception as e:   # noqa
                ev2["refused"], ev2["err"] = True, f"export raised {type(e).__name__}: {str(e)[:120]}"
            evs.append(ev2)
        out.append({"tid": tid0 + len(out) + 1, "net": [], "pr": [], "ev": evs, "origin": "export"})
    Species.reset()
    chemistrydata.user_binding_energy.clear()
    chemistrydata.user_photon_yield.clear()
    return out


def gas_table_cases():
    """one reaction per (format, gas-phase code)"""
    base = {"r": ["CO", "He+"], "p": ["C+", "O", "He"], "a": 2.5e-10, "b": -0.5, "c": 12.5, "tmin": 10.0, "tmax": 41000.0, "idx": 1}
    cases = []
    for code in (1, 2, 3, 4, 5):
        cases.append(("kida", dict(base, code=code, r=["CO"] + ({1: ["CR"], 2: ["Photon"]}.get(code, ["He+"])))))
    for code in ("NN", "IN", "DR", "CP", "CR", "PH", "RA"):
        cases.append(("umist", dict(base, code=code, r=["CO"] + ({"CP": ["CRP"], "CR": ["CRPHOT"], "PH": ["PHOTON"]}.get(code, ["He+"])), p=["C+", "O", "He"][:3])))
    for code in (1, 2, 3, 4):
        cases.append(("leeds", dict(base, code=code, a=2.5e-9, b=-0.5, c=12.5, tmin=10.0, tmax=41000.0,
                                    r=["CO"] + ({2: ["CRP"], 3: ["CRPHOT"], 4: ["PHOTON"]}.get(code, ["He+"])))))
    # Leeds types the exchange format has no code for (the direct rendering gives them the rate 0): refused by the writer, or still 0 afterwards
    for code in (15, 16, 19):
        cases.append(("leeds", dict(base, code=code, a=2.5e-9, b=-0.5, c=12.5, tmin=10.0, tmax=41000.0)))
    for code in ("MA", "CRP", "PHOTON", "CRPHOT"):
        cases.append(("uclchem", dict(base, code=code, r=["CO", "He+"] if code == "MA" else ["CO"])))
    for code in (100, 101, 102, 110, 111, 120):
        cases.append(("naunet", dict(base, code=code)))
    # two-body fits with a NEGATIVE gamma (33 such entries in RATE12) and with beta = gamma = 0
    for fmt, code in (("kida", 3), ("umist", "NN"), ("leeds", 1), ("uclchem", "MA"), ("naunet", 100)):
        cases.append((fmt, dict(base, code=code, c=-36.1, b=-0.5, a=2.5e-9 if fmt == "leeds" else 2.5e-10)))
        cases.append((fmt, dict(base, code=code, c=0.0, b=0.0, a=2.5e-9 if fmt == "leeds" else 2.5e-10)))
    return cases


def main(ctx: Ctx) -> int:
    import_naunet()
    from naunet.network import Network
    from naunet.reactions.reaction import Reaction
    from naunet.reactiontype import ReactionType
    cov: dict = {"samples": []}
    r = run_tlc("MC_RoundTrip.tla", "MC_RoundTrip.cfg", ctx.sub("meta") / "mc", workers=16)
    require_clean_mc(r, "MC_RoundTrip")
    if r["error"]:
        ctx.violation(f"C18|Design|{','.join(r['violated'])}", "TLC counterexample in RoundTrip", {"tlc": r["out"][-4000:]})
    c = ctx.scratch / "v.cfg"
    c.write_text(open("/verif/spec/MC_RoundTrip.cfg").read().replace('"asis"', '"source_keeps_newline"'))
    rv = run_tlc("MC_RoundTrip.tla", str(c), ctx.sub("meta") / "v", workers=4)
    if "ReadWriteId" not in rv["violated"]:
        raise MachineryError("design variant source_keeps_newline not caught")
    cov["design_variants_caught"] = 1
    cov["states"], cov["transitions"] = r["distinct"], r["generated"]

    rng = random.Random(ctx.seed)
    nets = []   # (origin, Network, per-reaction (fmt, code))
    n = 6 if ctx.quick else 500
    for fmt in ("kida", "umist", "leeds", "uclchem", "krome", "naunet"):
        for k in range(n):
            lines, codes = [], []
            kfmt = "idx,R,R,R,P,P,P,P,P,Tmin,Tmax,rate"
            for _ in range(rng.randint(1, 6)):
                rec = F.gen_record(rng, fmt)
                line, named, _ = F.encode(rng, fmt, rec, kfmt)
                if fmt == "kida" and named["code"] == 6:
                    continue
                if fmt == "leeds" and named["code"] not in (1, 2, 3, 4):
                    continue
                if fmt == "uclchem" and named["code"] not in ("MA", "CRP", "PHOTON", "CRPHOT"):
                    continue
                lines.append(line)
                codes.append((fmt, named["code"]))
            if not lines:
                continue
            f = ctx.sub("in") / f"{fmt}_{k}.txt"
            f.write_text(("@format:" + kfmt + "\n" if fmt == "krome" else "") + "\n".join(lines) + "\n")
            try:
                nets.append((f"{fmt} file", Network(filelist=str(f), fileformats=fmt), codes))
            except Exception as e:  # noqa   (reading is C07's subject)
                continue
    for k in range(n):
        reacs, codes = [], []
        for _ in range(rng.randint(1, 6)):
            rec = F.gen_record(rng, "naunet")
            if rng.random() < 0.3:       # names wider than the 12-character columns of the exchange format
                side = rec["r"] if rng.random() < 0.5 or not rec["p"] else rec["p"]
                side[rng.randrange(len(side))] = rng.choice(["CH3CH2CH2CH2OH", "CH3CH2CH2CH2OH2+", "HCOOCH2CH2CH3", "CH3CH2CH2CH2O"])
            if rng.random() < 0.25:      # bounds wider than the 9-character columns of the exchange format ("no upper limit" spelled as a huge number)
                rec["tmin"], rec["tmax"] = rng.choice([(10000.0, 1.0e9), (300.0, 2.5e10), (1234.56, 1234567.25), (0.01, 99999999.99), (-1.0, 1.0e12)])
            ty = rng.choice([100, 101, 102, 110, 111, 120])
            reacs.append(Reaction(rec["r"], rec["p"], temp_min=rec["tmin"], temp_max=rec["tmax"], alpha=rec["a"], beta=rec["b"], gamma=rec["c"],
                                  reaction_type=ReactionType(ty), idxfromfile=rng.choice([-1, 3, 77777])))
            codes.append(("api", ty))
        if k % 2 == 0 and reacs:
            # the same channel listed again with other coefficients (two fits of one reaction, as merged databases have them): both are kept
            r0 = reacs[0]
            reacs.append(Reaction([x.name for x in r0.reactants], [x.name for x in r0.products], temp_min=r0.temp_min, temp_max=r0.temp_max,
                                  alpha=float(p3e(r0.alpha * 3.0 + 1.0e-12)), beta=float(p3e(r0.beta + 0.25)),   # (given to the printed precision, like every generated coefficient)
                                   gamma=r0.gamma, reaction_type=r0.reaction_type, idxfromfile=r0.idxfromfile))
            codes.append(("api", int(r0.reaction_type)))
        nets.append(("api", Network(reacs), codes))
    for fmt, rec in gas_table_cases():
        line, named, _ = F.encode(random.Random(1), fmt, dict(rec), "idx,R,R,R,P,P,P,P,P,Tmin,Tmax,rate") if False else (None, None, None)
        enc = {"kida": encoders.kida, "umist": encoders.umist, "leeds": encoders.leeds, "uclchem": encoders.uclchem, "naunet": encoders.native}[fmt]
        f = ctx.sub("in") / f"table_{fmt}_{rec['code']}_{rec['c']}.txt"
        f.write_text(enc(rec) + "\n")
        try:
            nets.append((f"table {fmt}", Network(filelist=str(f), fileformats=fmt), [(fmt, rec["code"])]))
        except Exception as e:  # noqa
            ctx.violation(f"C18|Read|fmt={fmt},code={rec['code']}", f"{type(e).__name__}: {e}", {"line": enc(rec)})

    traces = []
    for ti, (origin, net, codes) in enumerate(nets):
        d = ctx.sub("rt") / str(ti)
        d.mkdir()
        # header: every value as repr text; Pr maps it to the printed text, and printed texts to themselves re-printed
        header, pr = [], {}

        def val(x, fn):
            tag = "e:" if fn is p3e else "f:"
            t0 = tag + repr(float(x))
            pr[t0] = tag + fn(float(x))
            pr[tag + fn(float(x))] = tag + fn(float(fn(float(x))))
            return t0
        for x in net.reaction_list:
            header.append({"idx": x.idxfromfile, "r": [s.name for s in x.reactants], "p": [s.name for s in x.products], "a": val(x.alpha, p3e),
                           "b": val(x.beta, p3e), "c": val(x.gamma, p3e), "tmin": val(x.temp_min, p2f), "tmax": val(x.temp_max, p2f),
                           "ty": int(x.reaction_type) if x.reaction_type is not None else -1, "src": x.source})
        ev = []

        def step(act, fn):
            e = {"act": act, "ok": True, "recs": [], "err": ""}
            try:
                e["recs"] = fn()
            except Exception as ex:  # noqa
                e["ok"] = False
                e["err"] = f"{type(ex).__name__}: {str(ex)[:100]}"
            ev.append(e)
            return e
        state = {}

        def w1():
            net.write(d / "f1.naunet", "naunet")
            return decode_native((d / "f1.naunet").read_text())

        def r1():
            state["n2"] = Network(filelist=str(d / "f1.naunet"), fileformats="naunet")
            return obs_net(state["n2"])

        def w2():
            state["n2"].write(d / "f2.naunet", "naunet")
            return decode_native((d / "f2.naunet").read_text())

        def r2():
            state["n3"] = Network(filelist=str(d / "f2.naunet"), fileformats="naunet")
            return obs_net(state["n3"])
        e1 = step("Write1", w1)
        if not e1["ok"] and any(h["ty"] == -1 for h in header):
            # (the writer refused a network that holds a reaction without a native type code: allowed, and nothing further to compare)
            ev[-1] = {"act": "WriteRefused", "err": e1["err"]}
        if e1["ok"] and step("Read1", r1)["ok"]:
            if ti % 2 == 1 and state["n2"].reaction_list and not origin.startswith("table"):     # (the table cases all go on to the law comparison)
                k = rng.randrange(len(state["n2"].reaction_list))
                newa = rng.choice([9.87e-10, -1.5e-3, 4.0])
                reidx = rng.random() < 0.5
                try:
                    state["n2"].reaction_list[k].alpha = newa
                    if reidx:
                        state["n2"].reindex()
                    okm = True
                except Exception:  # noqa
                    okm = False
                ev.append({"act": "Modify", "k": k + 1, "v": val(newa, p3e), "reindex": reidx, "ok": okm})
            e = step("Write2", w2)
            e["same_text"] = e["ok"] and (d / "f1.naunet").read_text() == (d / "f2.naunet").read_text()
            if e["ok"]:
                step("Read2", r2)
        # export + re-render: direct rate statements vs the statements of the network re-read from its own file
        if len([e for e in ev if e["act"] != "Modify"]) == 4 and all(e["ok"] for e in ev) and not any(e["act"] == "Modify" for e in ev):
            direct = rerend = None
            derr = rerr = ""
            try:
                direct = rate_exprs(ctx, net, f"{ti}_d")
            except Exception as ex:  # noqa
                derr = f"{type(ex).__name__}: {str(ex)[:80]}"
            try:
                rerend = rate_exprs(ctx, state["n2"], f"{ti}_r")
            except Exception as ex:  # noqa
                rerr = f"{type(ex).__name__}: {str(ex)[:80]}"
            for i, (fmt, code) in enumerate(codes):
                if direct is None:
                    # the direct rendering itself is refused (e.g. KIDA three-body, KROME needs its own class): nothing to compare
                    continue
                refused = rerend is None
                sv = None if refused else same_value(direct.get(i, ""), rerend.get(i, ""))
                ev.append({"act": "Rerender", "i": i, "fmt": fmt, "code": str(code), "direct_ok": True, "refused": refused,
                           "same_law": bool(sv) if sv is not None else True, "direct": direct.get(i, "")[:120],
                           "rerendered": "" if refused else rerend.get(i, "")[:120], "err": rerr})
            if direct is not None and ti % (2 if ctx.quick else 4) == 0:
                # beyond the listed properties: the KROME copy of the network (Network.write(..., "krome")) read back by the KROME reader
                ke = {"act": "KromeCopy", "ok": True, "recs": [], "same_rate": [], "err": ""}
                try:
                    net.write(d / "k.krome", "krome")
                    nk = Network(filelist=str(d / "k.krome"), fileformats="krome")
                    ke["recs"] = [{"idx": o_["idx"], "r": o_["r"], "p": o_["p"], "tmin": o_["tmin"], "tmax": o_["tmax"]} for o_ in obs_net(nk)]
                    krates = rate_exprs(ctx, nk, f"{ti}_k")
                    ke["same_rate"] = [same_value(direct.get(i, ""), krates.get(i, "")) is not False for i in range(len(ke["recs"]))]
                except Exception as ex:  # noqa
                    ke["ok"], ke["err"] = False, f"{type(ex).__name__}: {str(ex)[:100]}"
                ev.append(ke)
        if ti % (2 if ctx.quick else 4) == 1 and net.reaction_list:
            # beyond the listed properties: the UCLCHEM copy (Network.write(..., "uclchem") writes reaction by reaction with this formatter); the
            # reactions the formatter accepts are read back by the UCLCHEM reader: species with multiplicity and the window (printed in full)
            ue = {"act": "UclchemCopy", "written": [], "same_species": [], "same_window": [], "err": "", "detail": []}
            for x in net.reaction_list:
                okw = sp = wn = False
                try:
                    line = f"{x:uclchem}"
                    okw = True
                    (d / "u.ucl").write_text(line + "\n")
                    back = Network(filelist=str(d / "u.ucl"), fileformats="uclchem").reaction_list
                    if len(back) == 1:
                        y = back[0]
                        sp = sorted(s_.name for s_ in x.reactants) == sorted(s_.name for s_ in y.reactants) and \
                            sorted(s_.name for s_ in x.products) == sorted(s_.name for s_ in y.products)
                        wn = float(x.temp_min) == float(y.temp_min) and float(x.temp_max) == float(y.temp_max)
                        if not (sp and wn) and len(ue["detail"]) < 3:
                            ue["detail"].append(f"{[s_.name for s_ in x.reactants]} -> {[s_.name for s_ in x.products]} [{x.temp_min}, {x.temp_max}) type {x.reaction_type.name} "
                                                f"written `{line}` read back {[s_.name for s_ in y.reactants]} -> {[s_.name for s_ in y.products]} [{y.temp_min}, {y.temp_max})")
                    elif len(ue["detail"]) < 3:
                        ue["detail"].append(f"`{line}` read back as {len(back)} reactions")
                except Exception as ex:  # noqa
                    ue["err"] = ue["err"] or f"{type(ex).__name__}: {str(ex)[:80]}"
                ue["written"].append(okw)
                ue["same_species"].append(sp)
                ue["same_window"].append(wn)
            ev.append(ue)
        traces.append({"tid": ti + 1, "net": header, "pr": [[k, v] for k, v in pr.items()], "ev": ev, "origin": origin})
    xt = export_cases(ctx, rng, 4 if ctx.quick else 40, len(traces))
    cov["exported_projects_rerendered_in_a_fresh_process"] = len(xt)
    traces += xt
    v = validate_traces(ctx, "Trace_RoundTrip.tla", "Trace_RoundTrip.cfg", [{k: t[k] for k in ("tid", "net", "pr", "ev")} for t in traces], "rt", chunk=800)
    cov["traces_validated_against_impl"] = len(traces)
    cov["traces_accepted"] = v["accepted"]
    cov["trace_states"] = v["states"]
    cov["rerender_comparisons"] = sum(1 for t in traces for e in t["ev"] if e["act"] == "Rerender")
    cov["krome_copies_read_back"] = sum(1 for t in traces for e in t["ev"] if e["act"] == "KromeCopy")
    kn: dict = {}
    byt = {t["tid"]: t for t in traces}
    for tid_, lst in sorted(v.get("notes", {}).items()):
        for l_, clause_ in lst:
            kn[clause_] = kn.get(clause_, 0) + 1
            if kn[clause_] <= 2:
                e_ = byt[tid_]["ev"][max(0, min(l_, len(byt[tid_]["ev"])) - 1)]
                ctx.notes.append(f"beyond the listed properties: {clause_} fails for the {'UCLCHEM' if clause_.startswith('Uclchem') else 'KROME'} copy of a "
                                 f"{byt[tid_]['origin']} network: {(e_.get('detail') if clause_ not in ('UclchemCopy:Written',) else None) or e_.get('err') or e_.get('recs', [])[:1]}")
    cov["krome_copy_mismatches_beyond_listed_properties"] = {k_: v_ for k_, v_ in kn.items() if not k_.startswith("Uclchem")}
    cov["uclchem_copies_read_back"] = sum(1 for t in traces for e in t["ev"] if e["act"] == "UclchemCopy")
    cov["uclchem_copy_reactions_written"] = sum(sum(e["written"]) for t in traces for e in t["ev"] if e["act"] == "UclchemCopy")
    cov["uclchem_copy_mismatches_beyond_listed_properties"] = {k_: v_ for k_, v_ in kn.items() if k_.startswith("Uclchem")}
    by = {t["tid"]: t for t in traces}
    for tid, rj in sorted(v["rejected"].items()):
        clause = (rj["clauses"] or ["NoEnabledAction"])[0]
        tr = by[tid]
        at = max(1, min(rj["at"], len(tr["ev"])))
        e = tr["ev"][at - 1]
        if e["act"] == "Export":
            ctx.violation(f"C18|{clause}|export", f"exported gas-grain project (binding energies {e.get('eb')}, yields {e.get('yields')}): {e.get('err', '')} differs in "
                          f"{e.get('diff')}", {"event": e, "clauses": rj["clauses"]})
            continue
        feat = f"fmt={e['fmt']},code={e['code']}" if e["act"] == "Rerender" else f"step={e['act']},origin={tr['origin'].split()[0]}"
        if e["act"] == "Read1" and "nrecog" in e.get("err", "") and any(n.startswith("G") and n[1:2].isupper() and not n.startswith("GRAIN")
                                                                         for h in tr["net"] for n in h["r"] + h["p"]):
            feat += ",surface_prefix=G"
        what = (f"re-rendered from the exported file: {e.get('rerendered')!r}  direct: {e.get('direct')!r}" if e["act"] == "Rerender"
                else f"{e['act']}: {e.get('err') or [r2 for r2 in e.get('recs', [])][:2]}")
        ctx.violation(f"C18|{clause}|{feat}", f"{tr['origin']}: {what} : {rj['clauses']}", {"origin": tr["origin"], "header": tr["net"], "event": e,
                                                                                         "clauses": rj["clauses"]})
    t = traces[0]
    cov["samples"].append({"origin": t["origin"], "header": t["net"][:2], "events": [{k: e[k] for k in e if k != "recs"} for e in t["ev"][:5]]})
    cov["rule"] = "networks read from encoded files of each format and built through the API; one table case per (format, gas-phase code)"
    cov["exhaustive"] = False
    return finish(ctx, "model_checking", cov, [
        "numeric values are compared as the texts the native format prints (10.3e / 9.2f): the model's Pr",
        "'same rate law' is decided numerically (12 parameter points, relative 1e-9) when the two emitted expressions are not the same tree",
        "grain-surface reactions are not in the export comparison (their laws depend on the dust model: C11)",
    ])

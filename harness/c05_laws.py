"""C05 — gas-phase rate coefficients follow each database's published rate law (RateLaws.tla).

(A) TLC: table totality (every code of every format mapped or refused) and tree agreement of the laws that share a type code.
(B-D) for every (format, code) x sign class of (alpha, beta, gamma) in {neg, zero, pos}^3 x magnitude class the line is encoded
independently, parsed by the real reaction class, rendered; the emitted statement is parsed strictly (operator fusion, stray
tokens rejected) and its canonical tree must EQUAL the law tree of the specification (Trace_RateLaws.tla).  A structural
mismatch is re-examined numerically against closed-form laws so that a value-preserving rewrite is never reported as a
violation (it is reported as a stale specification table instead)."""
from __future__ import annotations

import itertools
import math
import random

from common import Ctx, MachineryError, finish, import_naunet, render, require_clean_mc, run_tlc, validate_traces
import cexpr
import creader
import encoders

CODES = {"kida": [1, 2, 3, 4, 5, 6], "umist": ["AD", "CD", "CE", "CP", "CR", "DR", "IN", "MN", "NN", "PH", "RA", "REA", "RR"],
         "leeds": [1, 2, 3, 4, 5], "uclchem": ["MA", "CRP", "PHOTON", "CRPHOT"], "naunet": [100, 101, 102, 110, 111, 120]}
VALS = {"neg": [-2.5e-10, -0.5, -12.5, -3.0, -1e-05, -2e-07, -4e+20], "zero": [0.0], "pos": [2.5e-10, 0.5, 12.5, 3.0, 30450.0, 1e+300, 5e-324, 1e-05, 3e+22]}


def pair(x: float):
    return [x < 0 or (x == 0 and math.copysign(1, x) < 0), repr(abs(x))]


def printed_value(fmt, field, x):
    """the value the format's column can carry (what the encoder actually prints)"""
    if fmt in ("kida", "naunet"):
        return float(f"{x:10.3e}")
    if fmt == "leeds":
        return float({"a": f"{x:8.2E}", "b": f"{x:9.2f}", "c": f"{x:10.1f}"}[field])
    return float(repr(float(x)))


def numeric_law(fmt, code, a, b, c, sh):
    T = lambda e: e["Tgas"]
    two = lambda e: a * (T(e) / 300.0) ** b * math.exp(-c / T(e))
    ip1 = lambda e: a * b * (0.62 + 0.4767 * c * math.sqrt(300.0 / T(e)))
    ip2 = lambda e: a * b * (1 + 0.0967 * c * math.sqrt(300.0 / T(e)) + c * c * 300.0 / (10.526 * T(e)))
    crp = lambda e: a * (T(e) / 300.0) ** b * c / (1 - e["omega"])
    ph = lambda e: a * math.exp(-c * e["Av"])
    table = {
        ("kida", 1): lambda e: a * e["zeta"], ("kida", 2): ph, ("kida", 3): two, ("kida", 4): ip1, ("kida", 5): ip2,
        ("umist", "PH"): ph, ("umist", "CP"): lambda e: a, ("umist", "CR"): crp,
        ("leeds", 1): two, ("leeds", 2): lambda e: a * (e["zeta_cr"] + e["zeta_xr"]) / e["zism"],
        ("leeds", 3): lambda e: a * ((e["zeta_cr"] + e["zeta_xr"]) / e["zism"]) * (T(e) / 300.0) ** b * c / (1 - e["omega"]),
        ("leeds", 4): lambda e: e["G0"] * a * math.exp(-c * e["Av"]) * (e["__shield__"] if sh else 1.0), ("leeds", 5): lambda e: 0.0,
        ("uclchem", "MA"): two, ("uclchem", "CRP"): lambda e: a * e["zeta"] / e["zism"],
        ("uclchem", "CRPHOT"): lambda e: a * (e["zeta"] / e["zism"]) * (T(e) / 300.0) ** b * c / (1 - e["omega"]),
        ("uclchem", "PHOTON"): (lambda e: 2.0e-10 * e["G0"] * e["__shield__"] * e["__scatter__"] / 1.7) if sh == "CO" else (lambda e: e["G0"] * a * math.exp(-c * e["Av"]) / 1.7),
        ("naunet", 100): two, ("naunet", 101): lambda e: a * e["zeta"], ("naunet", 102): ph, ("naunet", 110): ip1, ("naunet", 111): ip2, ("naunet", 120): crp,
    }
    if fmt == "umist" and (fmt, code) not in table:
        return two
    return table.get((fmt, code))


def main(ctx: Ctx) -> int:
    import_naunet()
    from naunet.network import Network
    cov: dict = {"samples": []}
    r = run_tlc("MC_RateLaws.tla", "MC_RateLaws.cfg", ctx.sub("meta") / "mc", workers=2)
    require_clean_mc(r, "MC_RateLaws")
    if r["error"]:
        ctx.violation(f"C05|Design|{','.join(r['violated'])}", "TLC: rate-law table is not total or laws sharing a type code disagree", {"tlc": r["out"][-3000:]})
    cov["states"], cov["transitions"] = max(r["distinct"], 1), max(r["generated"], 1)
    rng = random.Random(ctx.seed)
    cases = []
    for fmt, codes in CODES.items():
        for code in codes:
            combos = list(itertools.product(["neg", "zero", "pos"], repeat=3))
            if ctx.quick:
                combos = rng.sample(combos, 9) + [("pos", "zero", "zero"), ("pos", "pos", "zero"), ("neg", "neg", "neg")]
            for sa, sb, sc in combos:
                for rep in range(1 if ctx.quick else 12):
                    a, b, c = rng.choice(VALS[sa]), rng.choice(VALS[sb]), rng.choice(VALS[sc])
                    if fmt == "leeds":
                        if a < 0 or abs(a) > 1e99 or (a != 0 and abs(a) < 1e-99):
                            a = abs(a) if 1e-99 < abs(a) < 1e99 else 2.5e-10
                        b = max(min(b, 99999.0), -9999.0) if abs(b) < 1e5 else 0.5
                        c = c if abs(c) < 1e7 else 12.5
                        if abs(b) < 0.005 and b != 0:
                            b = 0.5
                        if abs(c) < 0.05 and c != 0:
                            c = 12.5
                    sh = ""
                    r1 = "CH"
                    if (fmt, code) in (("kida", 2), ("umist", "PH"), ("leeds", 4), ("uclchem", "PHOTON"), ("naunet", 102)) and rng.random() < 0.5:
                        r1 = rng.choice(["C", "O", "OH"])      # atoms whose names are contained in the names of the self-shielded molecules
                    if (fmt, code) in (("leeds", 4), ("uclchem", "PHOTON")) and rng.random() < 0.4:
                        r1 = rng.choice(["H2", "CO", "N2"] if fmt == "leeds" else ["CO"])
                        sh = r1
                    cases.append({"fmt": fmt, "code": code, "a": a, "b": b, "c": c, "sh": sh, "r1": r1})
    # every self-shielded photoreaction with a negative, a zero and a positive exponent coefficient (the sign classes above meet a
    # shielded molecule only by chance)
    for sh_ in ("H2", "CO", "N2"):
        for c_ in (-2.5, 0.0, 2.5):
            cases.append({"fmt": "leeds", "code": 4, "a": 2.5e-10, "b": 0.0, "c": c_, "sh": sh_, "r1": sh_})
    for c_ in (-2.5, 2.5):
        cases.append({"fmt": "uclchem", "code": "PHOTON", "a": 2.5e-10, "b": 0.0, "c": c_, "sh": "CO", "r1": "CO"})
    # whole-number coefficients large enough that their product leaves the range of a C `int` (were they ever written as integer literals)
    for c_ in (50000.0, 123456.0, -70000.0):
        cases.append({"fmt": "naunet", "code": 111, "a": 2.5e-10, "b": 2.0, "c": c_, "sh": "", "r1": "CH"})
        cases.append({"fmt": "naunet", "code": 110, "a": 2.5e-10, "b": 3.0, "c": c_, "sh": "", "r1": "CH"})
    # KIDA lines whose coefficients carry more digits than the database prints (the columns are blank-separated and read as written)
    for code_ in (1, 2, 3, 4, 5):
        cases.append({"fmt": "kida", "code": code_, "a": 4.6712345e-10, "b": -0.33333333, "c": 304.56789, "sh": "", "r1": "CH", "long": True})
    # groups of cases rendered as ONE network: every case alone, plus pairs of entries of the SAME reaction (same species, window and
    # type) with different coefficients, as merged databases and multi-fit entries have them: each k[i] must follow its own line
    groups = [[ci] for ci in range(len(cases))]
    bykey: dict = {}
    for ci, cs in enumerate(cases):
        bykey.setdefault((cs["fmt"], cs["code"], cs["r1"], cs["sh"]), []).append(ci)
    for key, lst in sorted(bykey.items(), key=lambda kv: str(kv[0])):
        distinct = [ci for ci in lst if (cases[ci]["a"], cases[ci]["b"], cases[ci]["c"]) != (cases[lst[0]]["a"], cases[lst[0]]["b"], cases[lst[0]]["c"])]
        for ci2 in distinct[: (1 if ctx.quick else 4)]:
            groups.append([lst[0], ci2])
    cov["same_reaction_pairs"] = len(groups) - len(cases)
    # second pass: the first groups again at the END of the run (same process): whatever the cases in between left behind -- memoised
    # expressions, class-level tables -- must not change what they render to
    groups += [list(g) for g in groups[:30]]
    cov["groups_rendered_again_at_the_end"] = 30
    traces = []
    mark_of = {("kida", 1): "CR", ("kida", 2): "Photon", ("umist", "CP"): "CRP", ("umist", "CR"): "CRPHOT", ("umist", "PH"): "PHOTON",
               ("leeds", 2): "CRP", ("leeds", 3): "CRPHOT", ("leeds", 4): "PHOTON"}
    for gi, grp in enumerate(groups):
        fmt = cases[grp[0]]["fmt"]
        lines = []
        for pos, ci in enumerate(grp):
            cs = cases[ci]
            code = cs["code"]
            mark = mark_of.get((fmt, code))
            rec = {"r": [cs["r1"]] + ([mark] if mark else ([] if fmt == "uclchem" and code != "MA" else ["H"])), "p": ["C", "H"], "a": cs["a"], "b": cs["b"],
                   "c": cs["c"], "tmin": -1.0, "tmax": -1.0, "idx": pos + 1, "code": code}
            if fmt == "leeds":
                rec["tmin"], rec["tmax"] = 0.0, 0.0
            ln_ = encoders.ENCODERS[fmt](rec)
            if cs.get("long"):
                for k_ in ("a", "b", "c"):
                    ln_ = ln_.replace(f"{cs[k_]:10.3e}", f" {cs[k_]!r}", 1)
            lines.append(ln_)
        f = ctx.sub("in") / f"{gi}.txt"
        f.write_text("\n".join(lines) + "\n")
        sts, refused = None, None
        try:
            net = Network(filelist=str(f), fileformats=fmt)
            out = ctx.scratch / "r" / str(gi)
            render(net, "cvode", "dense", out, templates=["src/naunet_rates.cpp.j2"])
            sts = creader.read_rates((out / "src/naunet_rates.cpp").read_text())
        except (NotImplementedError, RuntimeError, ValueError) as e:
            refused = f"{type(e).__name__}: {str(e)[:80]}"
        if sts is not None and len(sts) != len(grp):
            # a reaction without its rate statement (e.g. the statement glued onto a comment line): its coefficient is never computed
            ctx.violation(f"C05|RateStatementPerReaction|fmt={fmt}", f"{len(sts)} rate statements were emitted for {len(grp)} reactions: {lines[:2]}",
                          {"lines": lines, "statements": [st["expr"][:80] for st in sts]})
            continue
        for pos, ci in enumerate(grp):
            cs = cases[ci]
            a, b, c = (cs[k] if cs.get("long") else printed_value(fmt, k, cs[k]) for k in ("a", "b", "c"))
            obs = {"refused": False, "valid": True, "tree": ["none"], "expr": "", "err": ""}
            if refused is not None:
                obs["refused"], obs["err"] = True, refused
            else:
                obs["expr"] = sts[pos]["expr"]
                try:
                    obs["tree"] = cexpr.canon(cexpr.parse(sts[pos]["expr"]))
                except cexpr.ParseError as e:
                    obs["valid"] = False
                    obs["err"] = str(e)
            traces.append({"tid": len(traces) + 1, "fmt": fmt, "code": cs["code"], "a": pair(a), "b": pair(b), "c": pair(c), "zb": b == 0, "zc": c == 0, "sh": cs["sh"],
                           "obs": obs, "line": lines[pos], "vals": [a, b, c], "paired": len(grp) > 1})
    # the table searches of the shielding functions the Leeds photoreaction law calls (H2 / CO / N2 tables selected)
    try:
        import re as _re
        ftab = ctx.sub("in") / "shield.leeds"
        ftab.write_text("\n".join(encoders.leeds({"r": [m_, "PHOTON"], "p": ["C", "H"], "a": 2.5e-10, "b": 0.0, "c": 2.5, "tmin": 0.0, "tmax": 0.0, "idx": j_ + 1, "code": 4})
                                   for j_, m_ in enumerate(("H2", "CO", "N2"))) + "\n")
        nett = Network(filelist=str(ftab), fileformats="leeds", shielding={"H2": "L96Table", "CO": "V09Table", "N2": "L13Table"})
        outt = ctx.scratch / "r" / "shield"
        render(nett, "cvode", "dense", outt, templates=["src/naunet_physics.cpp.j2", "src/naunet_constants.cpp.j2", "include/naunet_constants.h.j2"])
        phys = creader.strip_comments((outt / "src/naunet_physics.cpp").read_text())
        sizes = {m_.group(1): int(m_.group(2)) for m_ in _re.finditer(r"\b(\w+Table\w*)\s*\[\s*(\d+)\s*\]", creader.strip_comments((outt / "src/naunet_constants.cpp").read_text()))}
        nsearch = 0
        for m_ in _re.finditer(r"for\s*\(\s*(\w+)\s*=\s*0\s*;\s*\1\s*<\s*(\d+)\s*;[^)]*\)\s*\{\s*if\s*\([^<]*<\s*(\w+)\s*\[\s*\1\s*\+\s*1\s*\]\s*\)", phys):
            arr, bound = m_.group(3), int(m_.group(2))
            if arr in sizes:
                nsearch += 1
                traces.append({"tid": len(traces) + 1, "fmt": "table", "code": 0, "a": pair(0.0), "b": pair(0.0), "c": pair(0.0), "zb": True, "zc": True, "sh": "",
                               "obs": {"refused": False, "valid": True, "tree": ["none"], "expr": "", "err": "", "bound": bound, "nodes": sizes[arr]},
                               "line": f"search over {arr}[{sizes[arr]}] runs to index < {bound}", "vals": [0.0, 0.0, 0.0], "paired": False})
        cov["shielding_table_searches_checked"] = nsearch
    except Exception as e:   # noqa
        ctx.notes.append(f"shielding table searches could not be read: {type(e).__name__}: {str(e)[:100]}")
    # derived quantities that call a helper function with arguments named exactly like the helper's parameters (lambdabar =
    # GetCharactWavelength(h2col, cocol), ...): the names must arrive in the order of the prototype
    try:
        import re as _re
        nord = 0
        for fmt_, text_, kw_ in (("uclchem", "\n".join(encoders.uclchem({"r": [m_], "p": ["C", "O"], "a": 2.5e-10, "b": 0.0, "c": 2.5, "tmin": -1.0, "tmax": -1.0, "idx": 1,
                                                                         "code": "PHOTON"}) for m_ in ("CO", "CH")) + "\n", {}),
                                  ("leeds", ftab.read_text(), {"shielding": {"H2": "L96Table", "CO": "V09Table", "N2": "L13Table"}})):
            fo = ctx.sub("in") / f"argorder.{fmt_}"
            fo.write_text(text_)
            neto = Network(filelist=str(fo), fileformats=fmt_, **kw_)
            outo = ctx.scratch / "r" / f"argorder_{fmt_}"
            render(neto, "cvode", "dense", outo, templates=["src/naunet_rates.cpp.j2", "include/naunet_physics.h.j2"])
            protos = {m_.group(1): [a_.split()[-1].lstrip("*&") for a_ in m_.group(2).split(",") if a_.strip()]
                      for m_ in _re.finditer(r"\b(?:double|realtype|int)\s+(\w+)\s*\(([^()]*)\)\s*;", creader.strip_comments((outo / "include/naunet_physics.h").read_text()))}
            for m_ in _re.finditer(r"(?:realtype|double)\s+(\w+)\s*=\s*(\w+)\s*\(([^();]*)\)\s*;", creader.strip_comments((outo / "src/naunet_rates.cpp").read_text())):
                var, fn_, args = m_.group(1), m_.group(2), [a_.strip() for a_ in m_.group(3).split(",")]
                params = protos.get(fn_)
                if params and sorted(args) == sorted(params) and len(set(args)) == len(args):
                    nord += 1
                    traces.append({"tid": len(traces) + 1, "fmt": "argorder", "code": 0, "a": pair(0.0), "b": pair(0.0), "c": pair(0.0), "zb": True, "zc": True, "sh": "",
                                   "obs": {"refused": False, "valid": True, "tree": ["none"], "expr": "", "err": "", "in_order": args == params},
                                   "line": f"{fmt_}: {var} = {fn_}({', '.join(args)}) against the prototype {fn_}({', '.join(params)})", "vals": [0.0, 0.0, 0.0],
                                   "paired": False, "argorder": True})
        cov["named_argument_orders_checked"] = nord
    except Exception as e:   # noqa
        ctx.notes.append(f"named-argument orders could not be read: {type(e).__name__}: {str(e)[:100]}")
    # the dust-extinction helper of the UCLCHEM CO photodissociation law (GetGrainScattering, after UCLCHEM's `scatter`): the generated function
    # is compiled and run on an Av x wavelength grid; which of its two fits answers is decided by the optical depth AT THE WAVELENGTH
    # (tl = Av / 1.086 * xlamda(lambda)): the single exponential below 1, the five-term sum from 1 on.  Coefficients are read from the source.
    try:
        import math as _math
        import re as _re
        import subprocess as _sp
        from common import SHIM, compile_cpp
        outs = ctx.scratch / "r" / "scatter"
        render(nett, "cvode", "dense", outs)
        body = creader.strip_comments((outs / "src/naunet_physics.cpp").read_text())
        body = body[body.index("GetGrainScattering"):]
        arrs = {m_.group(1): [float(x_) for x_ in m_.group(2).split(",")] for m_ in _re.finditer(r"double\s+(c|k)\s*\[\s*6\s*\]\s*=\s*\{([^}]*)\}", body[:1500])}
        drv = ctx.scratch / "scatter_driver.cpp"
        drv.write_text('#include <cstdio>\n#include "naunet_physics.h"\ndouble xlamda(double);\nint main() {\n'
                       '  double avs[] = {0.01, 0.05, 0.2, 0.3, 0.5, 0.8, 1.0, 1.086, 1.5, 2.0, 3.0, 10.0, 50.0};\n'
                       '  double ls[] = {913.0, 950.0, 1000.0, 1076.0, 1300.0, 1500.0, 2200.0, 5500.0, 20000.0};\n'
                       '  for (double av : avs) for (double l : ls) printf("%.17g %.17g %.17g %.17g\\n", av, l, xlamda(l), GetGrainScattering(av, l));\n  return 0;\n}\n')
        exe = ctx.scratch / "scatter_driver"
        pc = compile_cpp([outs / "src" / f_ for f_ in ("naunet_physics.cpp", "naunet_constants.cpp", "naunet_utilities.cpp")] + [drv], [SHIM / "include", outs / "include"], exe)
        if pc.returncode != 0 or set(arrs) != {"c", "k"}:
            ctx.notes.append(f"the scattering helper could not be compiled / read: {pc.stderr[-200:]}")
        else:
            nsc = 0
            close = lambda x_, y_: x_ == y_ or abs(x_ - y_) <= 1e-9 * max(abs(x_), abs(y_))
            for ln in _sp.run([str(exe)], capture_output=True, text=True, timeout=60).stdout.splitlines():
                av, lam, xl, got = (float(x_) for x_ in ln.split())
                tl = av / 1.086 * xl
                if abs(tl - 1.0) < 1e-9:
                    continue
                single = arrs["c"][0] * _math.exp(-arrs["k"][0] * tl) if arrs["k"][0] * tl < 35.0 else 0.0
                five = sum(arrs["c"][i_] * _math.exp(-arrs["k"][i_] * tl) for i_ in range(1, 6) if arrs["k"][i_] * tl < 35.0)
                nsc += 1
                traces.append({"tid": len(traces) + 1, "fmt": "scatter", "code": 0, "a": pair(0.0), "b": pair(0.0), "c": pair(0.0), "zb": True, "zc": True, "sh": "",
                               "obs": {"refused": False, "valid": True, "tree": ["none"], "expr": "", "err": "", "below": tl < 1.0, "single": close(got, single),
                                       "five": close(got, five)},
                               "line": f"GetGrainScattering(Av={av}, lambda={lam}) = {got!r}; depth at the wavelength {tl!r}: single exponential {single!r}, five-term sum {five!r}",
                               "vals": [0.0, 0.0, 0.0], "paired": False, "scatter": True})
            cov["scattering_helper_points_checked"] = nsc
    except Exception as e:   # noqa
        ctx.notes.append(f"the scattering helper could not be checked: {type(e).__name__}: {str(e)[:100]}")
    v = validate_traces(ctx, "Trace_RateLaws.tla", "Trace_RateLaws.cfg",
                        [{k: t[k] for k in ("tid", "fmt", "code", "a", "b", "c", "zb", "zc", "sh", "obs")} for t in traces], "laws", chunk=2000)
    cov["traces_validated_against_impl"] = len(traces)
    cov["traces_accepted"] = v["accepted"]
    cov["trace_states"] = v["states"]
    cov["format_code_pairs"] = sum(len(x) for x in CODES.values())
    by = {t["tid"]: t for t in traces}
    stale = []
    for tid, rj in sorted(v["rejected"].items()):
        clause = (rj["clauses"] or ["NoEnabledAction"])[0]
        tr = by[tid]
        a, b, c = tr["vals"]
        signs = "".join("n" if x < 0 else "z" if x == 0 else "p" for x in (a, b, c))
        if clause == "Law":
            fn = numeric_law(tr["fmt"], tr["code"], a, b, c, tr["sh"])
            agree = None
            if fn is not None:
                agree = True
                ast = cexpr.parse(tr["obs"]["expr"])
                for k in range(12):
                    env = {"Tgas": 10.0 + 37.0 * k, "Av": 0.3 + 0.7 * k, "zeta": 1.3e-17 * (1 + k), "omega": 0.3 + 0.02 * k, "G0": 1.0 + k,
                           "zeta_cr": 1.1e-17 * (k + 1), "zeta_xr": 0.2e-17 * k, "zism": 1.3e-17, "h2col": 1e21, "cocol": 1e16, "n2col": 1e16,
                           "lambdabar": 1000.0 + k, "__shield__": 0.37 + 0.01 * k, "__scatter__": 0.21 + 0.01 * k, "IDX_COI": 1, "IDX_H2I": 2, "IDX_N2I": 3}
                    funcs = {"GetShieldingFactor": lambda *x, e=env: e["__shield__"], "GetGrainScattering": lambda *x, e=env: e["__scatter__"]}
                    try:
                        got, want = cexpr.evaluate(ast, env, funcs), fn(env)
                    except (OverflowError, ZeroDivisionError, ValueError):
                        continue
                    except KeyError:      # the emitted expression reads a quantity the law does not depend on
                        agree = False
                        break
                    if not (got == want or abs(got - want) <= 1e-12 * max(abs(got), abs(want)) or (math.isinf(got) and math.isinf(want))):
                        agree = False
                        break
            if agree:
                stale.append((tr["fmt"], tr["code"], tr["obs"]["expr"]))
                continue
        ctx.violation(f"C05|{clause}|fmt={tr['fmt']},code={tr['code']},signs={signs}",
                      f"line {tr['line']!r} -> emitted {tr['obs']['expr']!r} {tr['obs']['err']}: {rj['clauses']}",
                      {"line": tr["line"], "fmt": tr["fmt"], "code": tr["code"], "coefficients": tr["vals"], "observed": tr["obs"], "clauses": rj["clauses"]})
    if stale and not ctx.violations:
        raise MachineryError(f"emitted expressions are value-equal to the law but structurally different from RateLaws.tla (update the table): {stale[:3]}")
    cov["samples"].append({"line": traces[0]["line"], "expr": traces[0]["obs"]["expr"], "tree": traces[0]["obs"]["tree"]})
    cov["rule"] = "cases = (format, code) x sign classes of (alpha, beta, gamma) x magnitude classes (ordinary, integer-valued, 1e+300, 5e-324)"
    cov["exhaustive"] = not ctx.quick
    return finish(ctx, "model_checking", cov, [
        "the law trees in RateLaws.tla are my transcription of the published laws (KIDA formulae 1-5, UMIST RATE12, Leeds/Walsh and UCLCHEM "
        "gas-phase types), written in the operand order the generator uses; a value-equal reordering is reported as a stale table (exit 2), "
        "never as a violation",
        "coefficients are compared as sign + magnitude text of the value the input column carries",
    ])

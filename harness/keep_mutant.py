#!/usr/bin/env python3
"""keep_mutant.py <Cxx> <i> '<confirm RESULT line>'  — copies a confirmed seeded change into /verif/seeded/<Cxx>-<i>/"""
import json, os, re, shutil, sys
from pathlib import Path
pid, i, confirm = sys.argv[1], sys.argv[2], sys.argv[3]
src = Path(os.environ.get("WT_ROOT", "/tmp/wt")) / pid / "_out"
dst = Path(f"/verif/seeded/{pid}-{os.environ.get('ROUND', '')}{i}")
dst.mkdir(parents=True, exist_ok=True)
shutil.copy(src / f"mutant{i}.diff", dst / "patch.diff")
for f in src.iterdir():
    m = re.match(r"(mutant|demo|meta)(\d+)\.", f.name)
    if m:
        if m.group(2) == i and m.group(1) == "demo":
            shutil.copy(f, dst / f.name)
        continue
    if f.name in ("baseline_tests.txt",) or f.suffix in (".log", ".xml") or f.name.startswith("__pycache__"):
        continue
    if f.is_dir():
        shutil.copytree(f, dst / f.name, dirs_exist_ok=True, ignore=shutil.ignore_patterns("__pycache__", "*.o", "*.out", "a.out"))
    elif f.stat().st_size < 200_000:
        shutil.copy(f, dst / f.name)
meta = json.loads((src / f"meta{i}.json").read_text())
meta["breaks_property"] = pid
meta["confirmed_by_me"] = confirm
meta["demo"] = next((p.name for p in dst.iterdir() if p.name.startswith(f"demo{i}.")), None)
meta["how_to_run"] = f"in a scratch worktree of /repo: /venv/bin/python <this dir>/{meta['demo']} (exit 0 clean, non-zero with patch.diff applied); run from the worktree root"
(dst / "meta.json").write_text(json.dumps(meta, indent=1))
print("kept", dst)

"""Strict reader for the C/C++ statements naunet's templates emit (the observation function of layer L2).

It accepts exactly the shapes the generator is supposed to produce and raises ReadError for anything else, so a
corrupted token (`--`, `y*[*I*D*X`, a broken line wrap) is a violation, never silently skipped.
Output: signed monomials over integer slots with ONE coefficient symbol each (k[i] | kh[i] | kc[i] | an opaque
parenthesised user factor)."""
from __future__ import annotations

import re


class ReadError(Exception):
    pass


TOKEN = re.compile(r"\s*(?:(\d+\.\d*(?:[eE][+-]?\d+)?|\.\d+(?:[eE][+-]?\d+)?|\d+(?:[eE][+-]?\d+)?)|([A-Za-z_]\w*)|(--|\+\+|&&|\|\||[<>=!]=|[-+*/()\[\]=;,<>?:{}]))")


def strip_comments(text: str) -> str:
    text = re.sub(r"/\*.*?\*/", " ", text, flags=re.S)
    text = re.sub(r"//[^\n]*", " ", text)
    return text


def tokenize(s: str) -> list[tuple[str, str]]:
    out, pos = [], 0
    s = s.rstrip()
    while pos < len(s):
        m = TOKEN.match(s, pos)
        if not m or m.end() == pos:
            if s[pos:].strip() == "":
                break
            raise ReadError(f"unexpected character {s[pos:pos + 12]!r} in {s[:80]!r}")
        if m.group(1) is not None:
            out.append(("num", m.group(1)))
        elif m.group(2) is not None:
            out.append(("id", m.group(2)))
        else:
            if m.group(3) in ("--", "++"):
                raise ReadError(f"operator fusion {m.group(3)!r} in {s[:120]!r}")
            out.append(("op", m.group(3)))
        pos = m.end()
    return out


def parse_macros(text: str) -> dict[str, int]:
    """#define NAME value  — integers and the few arithmetic forms of naunet_macros.h"""
    raw: dict[str, str] = {}
    for m in re.finditer(r"^[ \t]*#define[ \t]+(\w+)[ \t]+(.+?)[ \t]*$", strip_comments(text), re.M):
        raw.setdefault(m.group(1) + "#" + str(len([k for k in raw if k.split("#")[0] == m.group(1)])), m.group(2))
    vals: dict[str, int] = {}
    dup: list[str] = []
    plain: dict[str, str] = {}
    for k, v in raw.items():
        name = k.split("#")[0]
        if name in plain:
            dup.append(name)
        else:
            plain[name] = v
    for name, v in plain.items():
        if re.fullmatch(r"-?\d+", v):
            vals[name] = int(v)
    if "NHEATPROCS" in vals and "NCOOLPROCS" in vals:
        vals["THERMAL"] = 1 if (vals["NHEATPROCS"] or vals["NCOOLPROCS"]) else 0
        if "NSPECIES" in vals:
            tot = vals["NSPECIES"] + vals["THERMAL"]
            vals["NEQUATIONS"] = tot if tot else 1
            if vals["THERMAL"]:
                vals["IDX_TGAS"] = vals["NSPECIES"]
    vals["__dups__"] = dup  # type: ignore
    # a macro whose replacement text is an expression must be one parenthesised group (or it changes meaning next to * and /)
    def one_group(v):
        v = v.strip()
        if not v.startswith("("):
            return False
        depth = 0
        for i, ch in enumerate(v):
            depth += ch == "("
            depth -= ch == ")"
            if depth == 0:
                return i == len(v) - 1
        return False
    vals["__unparenthesised__"] = sorted(n for n, v in plain.items() if re.search(r"[-+*/|&<>]|\s", v.strip()) and not one_group(v))  # type: ignore
    return vals


def batch_strides(text: str) -> dict:
    """`int yistart = cur * NEQUATIONS;` style offsets of the batched GPU kernels: {offset name: stride macro text}"""
    return {m.group(1): m.group(2).strip() for m in re.finditer(r"\bint\s+(\w+start)\s*=\s*cur\s*\*\s*([^;]+);", strip_comments(text))}


def batched_matrix_sites(text: str) -> list:
    """the solver class of the batched GPU back-end (naunet.cu): every statement that (re)creates a block-CSR matrix
    `X = SUNMatrix_cuSparse_NewBlockCSR(...)` and whether `InitJac(X)` -- the only place row pointers and column indices reach the
    matrix -- follows before the next creation or the end of the function.  -> [(function, matrix expression, structure uploaded)]"""
    t = strip_comments(text)
    out = []
    for m in re.finditer(r"\bint\s+Naunet::(\w+)\s*\([^)]*\)\s*\{", t):
        i = m.end() - 1
        depth, j = 0, i
        while j < len(t):
            depth += {"{": 1, "}": -1}.get(t[j], 0)
            if depth == 0:
                break
            j += 1
        body = t[i:j]
        sites = [(mm.start(), mm.group(1).strip()) for mm in re.finditer(r"([\w\[\]\.\->]+)\s*=\s*SUNMatrix_cuSparse_NewBlockCSR\s*\(", body)]
        for n, (pos, var) in enumerate(sites):
            end = sites[n + 1][0] if n + 1 < len(sites) else len(body)
            out.append((m.group(1), var, bool(re.search(r"\bInitJac\s*\(\s*" + re.escape(var) + r"\s*\)", body[pos:end]))))
    return out


def batch_context(text: str) -> dict:
    """the batched GPU kernels (`__global__ void XKernel(..., NaunetData *d_udata, int nsystem)`): does every system work on ITS OWN slice?
    own_params: the kernel takes `&d_udata[cur]` and hands exactly that pointer to every Eval*Rates call (and reads its parameters
    through it); own_state: the abundance pointer handed to those calls is `y + <offset of cur>`.  -> {kernel name: {...}}"""
    t = strip_comments(text)
    out = {}
    for m in re.finditer(r"__global__\s+void\s+(\w+)\s*\(", t):
        i = t.index("{", m.end())
        depth, j = 0, i
        while j < len(t):
            depth += {"{": 1, "}": -1}.get(t[j], 0)
            if depth == 0:
                break
            j += 1
        body = t[i:j]
        own = re.search(r"NaunetData\s*\*\s*(\w+)\s*=\s*&\s*d_udata\s*\[\s*cur\s*\]\s*;", body)
        ycur = re.search(r"realtype\s*\*\s*(\w+)\s*=\s*y\s*\+\s*(\w+)\s*;", body)
        calls = re.findall(r"\bEval\w*Rates\s*\(\s*(\w+)\s*,\s*([^,]+?)\s*,\s*([^)]+?)\s*\)", body)
        reads = re.findall(r"=\s*(\w+)\s*->\s*\w+\s*;", body)
        loop = re.search(r"for\s*\(\s*int\s+cur\b", body)
        kdecl = [mm.start() for mm in re.finditer(r"\brealtype\s+k[ch]?\s*\[[^\]]*\]\s*=\s*\{\s*0(?:\.0*)?\s*\}\s*;", body)]
        out[m.group(1)] = {
            # the rate arrays are cleared for EVERY system (inside the loop over the systems a thread works on): EvalRates writes only the
            # coefficients whose window is open
            "k_cleared_per_system": bool(loop) and bool(kdecl) and all(p_ > loop.start() for p_ in kdecl),
            "calls": len(calls),
            "own_params": bool(own) and all(c[2] == own.group(1) for c in calls) and all(r_ == own.group(1) for r_ in reads),
            "own_state": bool(ycur) and all(c[1] == ycur.group(1) for c in calls),
        }
    return out


class SumParser:
    """sum := [+|-] product ((+|-) product)* ; product := factor (* factor)*"""

    def __init__(self, toks, macros, yname=("y", "y_cur")):
        self.t, self.i, self.m, self.yname = toks, 0, macros, yname
        self.max_sub: dict[str, int] = {}

    def peek(self):
        return self.t[self.i] if self.i < len(self.t) else ("eof", "")

    def eat(self, kind=None, val=None):
        tk = self.peek()
        if (kind and tk[0] != kind) or (val is not None and tk[1] != val):
            raise ReadError(f"expected {val or kind}, got {tk} at token {self.i} of {' '.join(x[1] for x in self.t)[:160]!r}")
        self.i += 1
        return tk

    def index(self) -> int:
        """[ INT | IDX_name | name + IDX_name ]"""
        self.eat("op", "[")
        tk = self.eat()
        if tk[0] == "id" and self.peek() == ("op", "+"):      # yistart + IDX_x / jistart + n
            self.eat()
            tk = self.eat()
        if tk[0] == "num":
            if not re.fullmatch(r"\d+", tk[1]):
                raise ReadError(f"non-integer subscript {tk[1]}")
            v = int(tk[1])
        elif tk[0] == "id":
            if tk[1] not in self.m:
                raise ReadError(f"subscript macro {tk[1]} is not defined in naunet_macros.h")
            v = self.m[tk[1]]
        else:
            raise ReadError(f"bad subscript {tk}")
        self.eat("op", "]")
        return v

    def opaque(self) -> str:
        """( balanced ... ) returned as normalised text"""
        self.eat("op", "(")
        depth, parts = 1, []
        while depth:
            tk = self.eat()
            if tk[0] == "eof":
                raise ReadError("unbalanced parenthesis")
            if tk == ("op", "("):
                depth += 1
            elif tk == ("op", ")"):
                depth -= 1
                if depth == 0:
                    break
            parts.append(tk[1])
        return " ".join(parts)

    def product(self):
        coef, slots, zero = None, [], False
        while True:
            tk = self.peek()
            if tk[0] == "num":
                self.eat()
                if float(tk[1]) == 0.0 and coef is None and not slots:
                    zero = True
                else:
                    raise ReadError(f"unexpected numeric factor {tk[1]}")
            elif tk[0] == "id":
                name = self.eat()[1]
                if self.peek() != ("op", "["):
                    raise ReadError(f"identifier {name} is not subscripted")
                ix = self.index()
                self.max_sub[name] = max(self.max_sub.get(name, -1), ix)
                if name in self.yname:
                    slots.append(ix)
                elif name in ("k", "kh", "kc"):
                    if coef is not None:
                        raise ReadError("two coefficient symbols in one term")
                    coef = (name, ix)
                else:
                    raise ReadError(f"unexpected array {name}")
            elif tk == ("op", "("):
                txt = self.opaque()
                if coef is not None:
                    raise ReadError("two coefficient symbols in one term")
                coef = ("f", txt)
            else:
                raise ReadError(f"unexpected token {tk} in product")
            if self.peek() == ("op", "*"):
                self.eat()
                continue
            break
        if zero:
            if coef or slots:
                raise ReadError("0.0 multiplied into a term")
            return None
        if coef is None:
            raise ReadError("term without a rate coefficient")
        return (coef, sorted(slots))

    def sum(self, until=("eof",)):
        terms = []
        sign = 1
        if self.peek() in (("op", "+"), ("op", "-")):
            sign = -1 if self.eat()[1] == "-" else 1
        while True:
            p = self.product()
            if p is not None:
                terms.append((sign, p[0], p[1]))
            tk = self.peek()
            if tk in (("op", "+"), ("op", "-")):
                sign = -1 if self.eat()[1] == "-" else 1
                continue
            break
        return terms


def parse_rhs(expr: str, macros) -> tuple[list, bool, dict]:
    """-> (terms, wrapped, max subscripts).  wrapped: `(gamma - 1.0) * ( sum ) / kerg / npar`"""
    toks = tokenize(expr)
    head = [("op", "("), ("id", "gamma"), ("op", "-"), ("num", "1.0"), ("op", ")"), ("op", "*"), ("op", "(")]
    tail = [("op", ")"), ("op", "/"), ("id", "kerg"), ("op", "/"), ("id", "npar")]
    wrapped = False
    if toks[:len(head)] == head:
        if toks[-len(tail):] != tail:
            raise ReadError(f"thermal wrapper not closed by ') / kerg / npar': {expr[-60:]!r}")
        toks = toks[len(head):-len(tail)]
        wrapped = True
    p = SumParser(toks, macros)
    terms = p.sum()
    if p.peek()[0] != "eof":
        raise ReadError(f"trailing tokens {p.t[p.i:p.i + 4]} in {expr[:120]!r}")
    return terms, wrapped, p.max_sub


def _int_or_macro(tok: str, macros) -> int:
    tok = tok.strip()
    if re.fullmatch(r"\d+", tok):
        return int(tok)
    m = re.fullmatch(r"\w+\s*\+\s*(\w+)", tok)
    if m:
        tok = m.group(1)
        if re.fullmatch(r"\d+", tok):
            return int(tok)
    if tok in macros:
        return macros[tok]
    raise ReadError(f"subscript {tok!r} is neither an integer nor a defined macro")


def read_fex(text: str, macros) -> dict:
    """ydot[...] = ...;  -> {"eqs": {slot: (terms, wrapped)}, "dups": [...], "maxsub": {...}}"""
    text = strip_comments(text)
    eqs, dups, maxsub = {}, [], {}
    for m in re.finditer(r"\bydot\s*\[([^\]]+)\]\s*=([^;]*);", text):
        slot = _int_or_macro(m.group(1), macros)
        terms, wrapped, ms = parse_rhs(m.group(2), macros)
        if slot in eqs:
            dups.append(slot)
        eqs[slot] = (terms, wrapped)
        for k, v in ms.items():
            maxsub[k] = max(maxsub.get(k, -1), v)
        maxsub["ydot"] = max(maxsub.get("ydot", -1), slot)
    return {"eqs": eqs, "dups": dups, "maxsub": maxsub}


def read_jac(text: str, macros, kind: str) -> dict:
    """kind: dense (IJth) | sparse (rowptrs/colvals/data statements) | cusparse (initialisers + data[jistart+n]) | odeint (j(r,c))"""
    text = strip_comments(text)
    cells, dups, maxsub = {}, [], {}
    out = {"cells": cells, "dups": dups, "maxsub": maxsub}

    def put(rc, expr):
        terms, wrapped, ms = parse_rhs(expr, macros)
        if rc in cells:
            dups.append(list(rc))
        cells[rc] = (terms, wrapped)
        for k, v in ms.items():
            maxsub[k] = max(maxsub.get(k, -1), v)

    if kind == "dense":
        for m in re.finditer(r"\bIJth\s*\(\s*jmatrix\s*,([^,]+),([^)]+)\)\s*=([^;]*);", text):
            put((_int_or_macro(m.group(1), macros), _int_or_macro(m.group(2), macros)), m.group(3))
    elif kind == "odeint":
        for m in re.finditer(r"(?<![\w.])j\s*\(([^,()]+),([^)]+)\)\s*=([^;]*);", text):
            put((_int_or_macro(m.group(1), macros), _int_or_macro(m.group(2), macros)), m.group(3))
    else:
        rowptr, colval, data = {}, {}, {}
        if kind == "sparse":
            for m in re.finditer(r"\browptrs\s*\[\s*(\d+)\s*\]\s*=\s*(-?\d+)\s*;", text):
                rowptr[int(m.group(1))] = int(m.group(2))
            for m in re.finditer(r"\bcolvals\s*\[\s*(\d+)\s*\]\s*=\s*(-?\d+)\s*;", text):
                colval[int(m.group(1))] = int(m.group(2))
            pat = r"\bdata\s*\[\s*(\d+)\s*\]\s*=([^;]*);"
        else:
            m = re.search(r"\bint\s+rowptrs\s*\[[^\]]*\]\s*=\s*\{([^}]*)\}", text)
            n = re.search(r"\bint\s+colvals\s*\[[^\]]*\]\s*=\s*\{([^}]*)\}", text)
            if not m or not n:
                raise ReadError("cusparse InitJac initialisers not found")
            rp = [x.strip() for x in m.group(1).split(",") if x.strip()]
            cv = [x.strip() for x in n.group(1).split(",") if x.strip()]
            for lst in (rp, cv):
                for x in lst:
                    if not re.fullmatch(r"-?\d+", x):
                        raise ReadError(f"non-integer CSR initialiser {x!r}")
            rowptr = {i: int(x) for i, x in enumerate(rp)}
            colval = {i: int(x) for i, x in enumerate(cv)}
            pat = r"\bdata\s*\[\s*jistart\s*\+\s*(\d+)\s*\]\s*=([^;]*);"
        for m in re.finditer(pat, text):
            data[int(m.group(1))] = m.group(2)
        out["rowptr"] = [rowptr.get(i) for i in range((max(rowptr) + 1) if rowptr else 0)]
        out["colval"] = [colval.get(i) for i in range((max(colval) + 1) if colval else 0)]
        out["ndata"] = (max(data) + 1) if data else 0
        out["data_holes"] = [i for i in range(out["ndata"]) if i not in data]
        # decode (row, col) of every data index from the arrays themselves
        rp = out["rowptr"]
        for di, expr in sorted(data.items()):
            row = None
            for r in range(len(rp) - 1):
                if rp[r] is not None and rp[r + 1] is not None and rp[r] <= di < rp[r + 1]:
                    row = r
                    break
            col = colval.get(di)
            if row is None or col is None:
                out.setdefault("undecodable", []).append(di)
                parse_rhs(expr, macros)
                continue
            put((row, col), expr)
    return out


GUARD = re.compile(r"^\s*Tgas\s*(>=|<=|>|<)\s*([-+0-9.eE]+)\s*(?:&&\s*Tgas\s*(>=|<=|>|<)\s*([-+0-9.eE]+)\s*)?$")


def read_rates(text: str, sym: str = "k", begin: str = "EvalRates", end: str = "EvalHeatingRates") -> list[dict]:
    """statements of one Eval*Rates function: [{"i": index, "guard": None | {"lo","lo_op","hi","hi_op"}, "expr": text}]"""
    text = strip_comments(text)
    a = text.find(begin + "(")
    b = text.find(end + "(", a + 1) if end else -1
    body = text[a:b if b > 0 else None]
    out = []
    pat = re.compile(r"(?:if\s*\((?P<cond>[^;{}]*)\)\s*\{\s*)?(?<![\w.])" + re.escape(sym) +
                     r"\s*\[\s*(?P<i>\d+)\s*\]\s*=(?!=)(?P<expr>[^;]*);(?P<close>\s*\})?", re.S)
    for m in pat.finditer(body):
        g = None
        if m.group("cond") is not None:
            if not m.group("close"):
                raise ReadError(f"guarded assignment of {sym}[{m.group('i')}] is not closed by '}}'")
            gm = GUARD.match(" ".join(m.group("cond").split()))
            if not gm:
                raise ReadError(f"unreadable temperature guard {m.group('cond')!r}")
            g = {}
            for op, val in ((gm.group(1), gm.group(2)), (gm.group(3), gm.group(4))):
                if op is None:
                    continue
                side = "lo" if op in (">=", ">") else "hi"
                if side in g:
                    raise ReadError(f"two bounds on the same side in guard {m.group('cond')!r}")
                g[side], g[side + "_op"] = float(val), op
        elif m.group("close"):
            raise ReadError(f"stray '}}' after {sym}[{m.group('i')}]")
        out.append({"i": int(m.group("i")), "guard": g, "expr": " ".join(m.group("expr").split())})
    return out

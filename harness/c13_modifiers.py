"""C13 — rate modifiers (Rates.tla via c06_rates) and ODE modifiers (OdeGen.tla via c01_odegen) change exactly what was targeted, and
both survive the path through the project configuration file (ConfigRoundTrip.tla via c20_config, modifier tables only)."""
import c01_odegen
import c06_rates
import c20_config
from common import Ctx, finish


def main(ctx: Ctx) -> int:
    # both sub-drivers call finish(); run them on sub-contexts and merge
    import json
    from common import EVID
    subs = []
    for mod in (c06_rates, c01_odegen, c20_config):
        sub = Ctx("C13", ctx.tier, ctx.seed)
        c20_config.MODIFIERS_ONLY = mod is c20_config
        real_finish = mod.finish
        captured = {}

        def fake_finish(c, level, coverage, assumptions, captured=captured):
            captured.update(level=level, coverage=coverage, assumptions=assumptions)
            return 0
        mod.finish = fake_finish
        try:
            mod.main(sub)
        finally:
            mod.finish = real_finish
        if mod is c20_config:
            # of the configuration round trip only the two modifier tables are this property's: init -> TOML -> what reaches Network(...)
            for v_ in sub.violations:
                parts = v_["sig"].split("|")
                if len(parts) >= 2 and parts[1] in ("rate_modifier", "ode_modifier"):
                    ctx.violations.append(dict(v_, sig="|".join(["C13", "Config:" + parts[1]] + parts[2:])))
        else:
            ctx.violations.extend(sub.violations)
        subs.append(captured)
    cov = {"samples": [], "states": 0, "transitions": 0, "traces_validated_against_impl": 0}
    for name, c in zip(("rate_modifier", "ode_modifier", "configuration_path"), subs):
        cc = c["coverage"]
        cov["states"] += cc.get("states", 0)
        cov["transitions"] += cc.get("transitions", 0)
        cov["traces_validated_against_impl"] += cc.get("traces_validated_against_impl", 0)
        cov["samples"] += cc.get("samples", [])[:1]
        cov[name] = {k: v for k, v in cc.items() if k not in ("samples",)}
    cov["exhaustive"] = False
    return finish(ctx, "model_checking", cov, subs[0]["assumptions"] + subs[1]["assumptions"] + subs[2]["assumptions"])

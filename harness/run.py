#!/venv/bin/python
"""./check <property> [--tier quick|thorough]  — dispatches to the per-property harness."""
import argparse
import importlib
import os
import sys
import traceback
from pathlib import Path

sys.path.insert(0, str(Path(__file__).resolve().parent))
from common import Ctx, MachineryError  # noqa: E402

MODULES = {
    "C01": "c01_odegen",
    "C02": "c01_odegen",
    "C03": "c01_odegen",
    "C04": "c01_odegen",
    "C05": "c05_laws",
    "C06": "c06_rates",
    "C07": "c07_formats",
    "C08": "c08_species",
    "C09": "c09_index",
    "C10": "c10_symbols",
    "C11": "c11_grains",
    "C12": "c12_expr",
    "C13": "c13_modifiers",
    "C14": "c14_network",
    "C15": "c14_network",
    "C16": "c16_renorm",
    "C17": "c17_globals",
    "C18": "c18_roundtrip",
    "C19": "c19_solve",
    "C20": "c20_config",
}


def main():
    ap = argparse.ArgumentParser()
    ap.add_argument("pid")
    ap.add_argument("--tier", default=os.environ.get("VERIF_TIER", "quick"), choices=["quick", "thorough"])
    ap.add_argument("--replay", default=None)
    a = ap.parse_args()
    seed = int(os.environ.get("VERIF_SEED", "0"))
    if a.pid not in MODULES:
        print(f"unknown property {a.pid}", file=sys.stderr)
        return 2
    ctx = Ctx(a.pid, a.tier, seed)
    try:
        mod = importlib.import_module(MODULES[a.pid])
        if a.replay:
            return mod.replay(ctx, a.replay) if hasattr(mod, "replay") else 2
        return mod.main(ctx)
    except MachineryError as e:
        print(f"MACHINERY-ERROR {a.pid}: {e}", file=sys.stderr)
        return partial(ctx, f"machinery error after these violations were found: {str(e)[:300]}")
    except Exception:
        traceback.print_exc()
        return partial(ctx, "unexpected exception in the harness after these violations were found")


def partial(ctx, why: str) -> int:
    """A machinery failure must not swallow violations that were already established with a concrete witness: they are reported
    (exit 1) if any of them is new; otherwise the run is a machinery failure (exit 2)."""
    from common import finish, load_findings
    known, _ = load_findings()
    if any(v["sig"] not in known.get(ctx.pid, {}) for v in ctx.violations):
        rc = finish(ctx, "model_checking", {"partial_run": True, "why": why, "exhaustive": False}, [why])
        return rc or 2
    return 2


if __name__ == "__main__":
    sys.exit(main())

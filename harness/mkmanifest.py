#!/usr/bin/env python3
"""Regenerates /verif/MANIFEST.json from the table below (kept in one place so it is always valid)."""
import json
from pathlib import Path

V = Path(__file__).resolve().parent.parent
props = [json.loads(l) for l in (V / "properties.jsonl").read_text().splitlines() if l.strip()]

_ODE_NOTE = ("the strict C reader is trusted for the statement shapes it accepts; name->slot binding goes through Species.alias and the "
             "emitted IDX_ macros; rate coefficients are symbols held fixed; cusparse output is read as text only")
_ODE_TECH = ("TLA+ spec OdeGen.tla model-checked with TLC over all small networks; TLC-chosen and random networks rendered by the real "
             "generator for dense/sparse/cusparse/odeint, read back with a strict C reader and validated event by event by Trace_OdeGen.tla "
             "(conformance, observe, structure and run-time traces: the compiled cvode-dense and odeint right-hand sides / Jacobians are "
             "evaluated at the same states against API stand-ins and compared)")
CHECKS = {
    "C11": dict(level="model_checking", design_ref="DESIGN.md §4 C11, §11",
        technique="TLA+ spec GrainLaws.tla (law tree or refusal for every (dust model, reaction type); binding-energy lookup as a small "
                  "state machine) checked with TLC for totality; grain / surface reactions of every type encoded, read and passed to "
                  "every real dust model; emitted expressions parsed strictly and compared by TLC in Trace_GrainLaws.tla",
        text="Structural identity of the emitted expression with the law tree built from the reacting species' own mass number, binding "
             "energy (explicit > user table > RATE12 table), yield, charge class and the grain's group-suffixed symbols means equality for "
             "all physical parameters; 5 models x 9 types x species x groups are covered, requests a model does not implement must be "
             "refused, reads / updates of the binding energy on one object must follow the lookup order (values to 1/1000 K, charged ices, the "
             "constant the generated code defines), and the grain density each population's rates use must be that population's own (hh93) or "
             "a run-time parameter (rr07).",
        note="law trees are my transcription of HH93 and of UCLCHEM v1.3's RR07 routines in the generator's operand order (papers not "
             "available offline): where I cannot vouch for a constant independently the tree pins the current behaviour"),
    "C20": dict(level="model_checking", design_ref="DESIGN.md §4 C20, §11, §12",
        technique="TLA+ spec ConfigRoundTrip.tla (two entries, InitParse | DirectWrite, -> Content -> RenderRead over token shapes) model-checked with TLC; real "
                  "BaseConfiguration(...).content + `naunet render --force` runs (the Python entry, numeric rate coefficients given as numbers), `naunet example` run "
                  "for real over an older network file, and real "
                  "`naunet init ... --render` runs with the written TOML and the constructor arguments of Network / TemplateLoader "
                  "captured and judged by Trace_ConfigRoundTrip.tla; rendered tree compared with the equivalent API rendering; summary table vs "
                  "generated headers; bundled examples -> configuration; TLA+ spec Project.tla (project directory over init / new (blank project) / edit / render / "
                  "patch / re-init / Network.export with and without overwrite) model-checked, TLC-simulated histories replayed through the real "
                  "commands and API and validated by Trace_Project.tla",
        text="TLC checks RoundTripId for all option vectors with <= 2 tokens per option over the shapes plain / padded / inner blank / "
             "empty; every real run (four project kinds incl. binding energies, yields, shielding, rate and ODE modifiers, cooling, "
             "upper-case elements with replacement; three solver choices) must write exactly the normalised request into the TOML, hand "
             "exactly it to Network(...) / TemplateLoader(...), and produce sources byte-identical to the API rendering.",
        note="a data-flow pipeline: TLC's part is the shapes, the acceptance/normalisation rule and the field-wise judgement; strings stay in "
             "the driver"),
    "C10": dict(level="model_checking", design_ref="DESIGN.md §4 C10, §11",
        technique="TLA+ spec Symbols.tla (register / unregister / ordered merge over the component list, Closed predicate) model-checked "
                  "with TLC; registries of the real component objects and the declarations / identifier uses of every emitted unit judged "
                  "by Trace_Symbols.tla; g++ -fsyntax-only against the API stand-ins as second observation",
        text="TLC checks the registry and merge semantics for all 4-step histories over two components; for every rendered project "
             "(six formats and mixtures, hh93 / hh93i / rr07 / rr07x incl. two grain groups, dense / sparse / rosenbrock4, shielding "
             "tables, cooling) the declarations of NaunetData, EvalRates, EvalHeating/CoolingRates, Fex and Jac must be exactly the "
             "merged registry, declared once, every identifier of every derived quantity, rate, ODE and Jacobian statement declared "
             "before use, and the compiler must report no undeclared or redefined name.",
        note="registries read from component._symbols; globals of a unit = macros + extern constants + helper functions of the rendered "
             "headers + C math"),
    "C12": dict(level="model_checking", design_ref="DESIGN.md §4 C12, §11",
        technique="TLA+ spec Expr.tla (Fortran expression trees, Translate to the canonical C tree, integer evaluation of both) "
                  "model-checked with TLC; TLC-chosen and generated trees printed as minimal-parenthesis Fortran, translated by the real "
                  "KROMEReaction, parsed back and compared with Translate(t) by TLC in Trace_Expr.tla; bundled KROME rates compared "
                  "numerically with their Fortran value",
        text="TLC checks EvalC(Translate(t)) = EvalF(t) for all 42k trees of depth <= 2 (and that left-associated ** and a negative "
             "literal base are caught); for every printed tree the translator's output must be valid C and structurally equal to the "
             "specification's translation - precedence, right-associativity of **, d/e exponents, intrinsic calls, user variables and "
             "abundance references - or be rejected; all rate expressions of the bundled KROME files keep their value at 8 temperatures.",
        note="my own minimal-parenthesis printer; Python's ** as the Fortran oracle for bundled expressions; rejection is allowed"),
    "C16": dict(level="model_checking", design_ref="DESIGN.md §4 C16, §11, §12",
        technique="TLA+ spec Renorm.tla (coefficient tables, Coupling/Additive, integer lemma by Cramer's rule, SetReference/Renorm/perturb "
                  "state machine) model-checked with TLC; emitted tables of both back-ends parsed and compared by TLC; the generated "
                  "Renorm compiled against the SUNDIALS stand-in and driven through call sequences, judged by Trace_Renorm.tla",
        text="TLC proves on exact integers (2 elements, 4 species, all abundance/reference choices of the bound) that with Coupling and "
             "Additive the renormalised element totals are Hn*ref and the map is the identity when the ratios match, and that the stored "
             "reference survives any call sequence; the emitted coefficient tables must equal the specification's tables for networks "
             "with intended compositions, and the compiled Renorm must restore the ratios, leave electrons alone, stay finite and be the "
             "identity on an already normalised vector across sequences with repeated calls.",
        note="intended compositions / mass numbers of the species pool; stand-in dense LU; ratios compared to 1e-9"),
    "C05": dict(level="model_checking", design_ref="DESIGN.md §4 C05, §11",
        technique="TLA+ spec RateLaws.tla (law of every (format, code) as an expression tree over symbolic parameters) checked with TLC "
                  "for totality and cross-format agreement; every (format, code) x coefficient sign/magnitude class encoded, parsed and "
                  "rendered by the real code; the emitted C expression parsed strictly and its canonical tree compared by TLC in "
                  "Trace_RateLaws.tla",
        text="Structural identity of the emitted expression with the law tree means equal value for ALL temperatures, extinctions, "
             "ionisation rates and coefficient values; the strict parser rejects operator fusion and stray tokens (valid C); all 34 "
             "(format, code) pairs x {neg, zero, pos}^3 x magnitude classes incl. 1e+300 and 5e-324 are covered (exhaustive over the sign "
             "classes in the thorough tier); every emitted reaction has its rate statement, and the table searches of the shielding functions "
             "the photoreaction laws call reach the last cell of their axis; the dust-scattering helper of the UCLCHEM CO law is compiled and run on a grid, "
             "its fit chosen by the optical depth at the wavelength.",
        note="law trees are my transcription of the published laws in the generator's operand order; a structural mismatch is re-examined "
             "numerically against closed-form laws: value-equal => stale table (exit 2), else VIOLATION"),
    "C18": dict(level="model_checking", design_ref="DESIGN.md §4 C18, §11, §12",
        technique="TLA+ spec RoundTrip.tla (write / read / edit / write / read with an abstract printing function) model-checked with TLC; "
                  "real networks from all formats and the API cycled through the native format, files decoded by an independent "
                  "reader, exported networks (gas-grain, grain-charging, thermal) re-read and their rate statements compared with the direct rendering; judged by "
                  "Trace_RoundTrip.tla",
        text="TLC checks ReadWriteId, SecondCycleIdempotent and EditsAreWritten for all idempotent printing functions over a small value "
             "domain; every real cycle must produce the records / networks the specification produces (species with multiplicity, "
             "coefficients and window at printed precision, type code, index, source tag, byte-identical second file), API edits made "
             "in between must reach the next file, and each rate statement of the re-read network must equal the direct one or the "
             "re-rendering must be refused.",
        note="'same rate law' is decided numerically at 12 parameter points when the two expressions are not the same tree; grain-surface "
             "laws are left to C11"),
    "C07": dict(level="model_checking", design_ref="DESIGN.md §4 C07, §11",
        technique="TLA+ spec Formats.tla (reader as a state machine over line classes + marker filter + code->type tables) model-checked "
                  "with TLC; files written by independent encoders of the six layouts, read by the real readers, judged by "
                  "Trace_Formats.tla",
        text="TLC checks OnePerDataLine / OrderPreserved / NoPseudoSpecies for all files of <= 4 lines over the line classes; every "
             "encoded file (all type codes, marker tokens, 0-5 products, signed/exponent numbers, wide indices, blank / comment / "
             "directive lines, mid-file @format changes) must be decoded to the reactions the line machine yields, field by field.",
        note="column-exact decoding rests on my transcription of the six layouts (encode->decode identity); TLC decides the line machine, "
             "the code tables and the comparison"),
    "C09": dict(level="model_checking", design_ref="DESIGN.md §4 C09, §11, §12",
        technique="TLA+ spec Index.tla (alias construction, (connectivity, name) order, artefact views) model-checked with TLC; networks over "
                  "a pool of species with known attributes (incl. the upper-case convention with and without replacement) rendered; identifier "
                  "tables of five artefacts read back and judged by Trace_Index.tla; TLA+ spec PatchSpecies.tla (field types and species count "
                  "of the simulation-code patch) model-checked, real patch renderings validated by Trace_PatchSpecies.tla",
        text="TLC checks AliasLegal / AliasInjective / Bijection / ViewsAgree for all small species sets of a hazard-rich universe; for "
             "every rendered network the order must be the (connectivity, name) order with independently computed connectivity, and the "
             "identifiers of the C macros, Python index constants, Python lists, configuration summary and Enzo table must be legal, "
             "distinct, map onto 0..N-1 and equal the specification's alias of the intended attributes.",
        note="species attributes are the intended ones of the pool; configuration summary read from NetworkConfiguration"),
    "C08": dict(level="model_checking", design_ref="DESIGN.md §4 C08, §11",
        technique="TLA+ spec SpeciesName.tla (the parser as a state machine over character sequences + the declarative composition of a "
                  "token sequence) model-checked with TLC; TLC-chosen, random, garbage and bundled names parsed by the real Species and "
                  "re-parsed by TLC in Trace_SpeciesName.tla",
        text="TLC checks that the longest-first match-and-mask parser recovers the intended composition of every canonical name of <= 2 "
             "tokens over hazard-rich symbol lists x prefix x charge (two tables); for every real Species(name) TLC recomputes the parse "
             "and compares element counts, phase/group, grain/group, charge, is-atom and mass number, the intended composition and gas "
             "counterpart for canonical names, and rejection of names with a foreign character.",
        note="pseudo-element patterns treated as literals; mass numbers read independently from the repository's tables"),
    "C06": dict(level="model_checking", design_ref="DESIGN.md §4 C06, §11, §12",
        technique="TLA+ spec Rates.tla (window guard + zero-initialised k[] + override) model-checked with TLC over all window shapes and "
                  "temperatures; files of six formats encoded with every window spelling, read and rendered by the real code; emitted "
                  "guards parsed strictly and judged by Trace_Rates.tla at boundary probe temperatures; the compiled generated Fex called at a "
                  "sequence of temperatures in one process (run-time traces); the batched GPU kernels read as text (each system evaluates "
                  "its rates from its own parameter record, state slice and freshly cleared rate arrays: Batch event); APA_Rates.tla: the window semantics for every integer "
                  "temperature and cut point with Apalache",
        text="TLC checks OutsideIsZero / InsideIsLaw / NoWindowAlwaysActive / Partition (adjacent windows: exactly one active at every "
             "temperature incl. the cut points) on an integer axis; every emitted rate statement's guard must mean Tmin <= T < Tmax of the "
             "DECLARED window at T-1, T, T+1 of both bounds, 0 and a huge T, and every consumer must zero-initialise a non-static k[].",
        note="modifier-overridden reactions are judged by C13; temperatures scaled by 100; zero-initialisation observed textually"),
    "C13": dict(level="model_checking", design_ref="DESIGN.md §4 C13, §11, §12",
        technique="TLA+ specs Rates.tla (Override / re-index rule) and OdeGen.tla (Modifier action) model-checked with TLC; encoded "
                  "networks with index maps and modifier sets rendered by the real code and judged by Trace_Rates.tla / Trace_OdeGen.tla; "
                  "TLA+ spec ConfigRoundTrip.tla (rate_modifier / ode_modifier as table options) with the real init -> TOML -> render stages of "
                  "the projects that carry modifiers judged by Trace_ConfigRoundTrip.tla",
        text="TLC checks OnlyTargetsChanged over all index maps (absent/present/shared/all -1) x key sets, and the modifier delta of the "
             "ODE accumulation; each emitted rate statement must be overridden iff its (re-)index is a key, with that key's text, and "
             "each ODE-modifier term must be + (factor) * prod(deps) on the named species with the exact derivative terms.",
        note="of the configuration round trip only the two modifier tables are charged to this property; the rest of it, and the numeric-zero "
             "modifier of Project.tla's description 3, are C20's"),
    "C17": dict(level="model_checking", design_ref="DESIGN.md §4 C17, §11, §12",
        technique="TLA+ spec Globals.tla (installed-context model of the process-global tables) model-checked with TLC; TLC-simulated "
                  "interleavings of operations on two networks replayed each in one fresh Python process; every render compared with "
                  "a fresh-process render of that network's own description under three hash seeds; judged by Trace_Globals.tla",
        text="TLC explores all interleavings (depth 7) of New/Parse/Edit/Render on two networks for three context assignments and checks "
             "NonInterference; the interleavings are replayed on real networks (custom upper-case lists, ortho/para lists, default lists, "
             "KROME directives, aborting reads) and TLC requires: whenever the model says network n only ever saw its own context, its "
             "rendered tree equals the fresh-process tree, repeated renders are identical and hash seeds do not matter.",
        note="a fresh process rendering the projection of a network's own mutating operations defines 'the network description'"),
    "C01": dict(level="model_checking", design_ref="DESIGN.md §4 C01, §11", technique=_ODE_TECH, note=_ODE_NOTE,
        text="TLC checks RhsIsMassAction/UnreactiveIsZero on the accumulation algorithm for every network in the bound; for every rendered "
             "network and back-end each reaction's emitted terms must equal, as a polynomial over slots with symbolic rate coefficients, "
             "the delta of the specification's Reaction/Heat/Cool action, and the structural facts (one statement per equation, thermal "
             "wrapper) are checked at Finish."),
    "C02": dict(level="model_checking", design_ref="DESIGN.md §4 C02, §11", technique=_ODE_TECH, note=_ODE_NOTE,
        text="TLC checks JacIsDerivative/OmittedIsZero with the symbolic derivative operator D for every network in the bound; emitted "
             "Jacobian terms are compared per reaction/modifier with the specification's delta, and in a second 'observe' pass TLC "
             "evaluates jac = D(rhs) and omitted = 0 on the EMITTED right-hand side alone."),
    "C03": dict(level="model_checking", design_ref="DESIGN.md §4 C03, §11, §12", technique=_ODE_TECH +
                "; TLA+ spec Lifecycle.tla (Init/Reset/Solve/Finalize of the generated solver class) model-checked, real life-cycle histories of the "
                "compiled class (stand-in decodes the Jacobian by the layout the matrix was declared with) validated by Trace_Lifecycle.tla", note=_ODE_NOTE,
        text="The matrix as the linear solver reads it, after every legal history of Init/Reset/Solve/Finalize up to a length bound, must have the "
             "layout the generated Jacobian routine fills and hold the dense variant's cells and values.  TLC checks the CSR construction (well-formed, cells = touched cells) for every network in the bound; for every rendered "
             "network TLC evaluates CsrWellFormed on the emitted rowptrs/colvals, equality of the CSR cells with the assigned cells, "
             "macro sizes, every subscript against the declared sizes (incl. rate assignments) and the pattern file; the cell sets of "
             "the four back-ends must agree."),
    "C04": dict(level="model_checking", design_ref="DESIGN.md §4 C04, §11", technique=_ODE_TECH, note=_ODE_NOTE +
                "; element/charge weights are the INTENDED compositions of the species pool, not what the parser reports",
        text="TLC checks Conservation for all balanced small networks and all weight vectors; for rendered balanced real-species networks "
             "(electrons under three spellings, ortho/para, isotopologues, ices) TLC evaluates conservation of every element and of "
             "charge on the emitted right-hand side, and the generated GetElementAbund table is compared with the intended counts."),
    "C14": dict(
        level="model_checking", design_ref="DESIGN.md §4 C14, §11",
        technique="TLA+ spec NetworkEdit.tla model-checked with TLC over all bounded edit histories; TLC-simulated histories replayed on real "
                  "Network objects; recorded API histories (random, targeted, `naunet extend`) validated by Trace_NetworkEdit.tla, each "
                  "recorded state also carrying the real object's answers to where_species / where_reaction (specification queries); TLA+ spec "
                  "ExtendCmd.tla (the command's pipeline as a phase machine over NetworkEdit) model-checked for every input file and option "
                  "combination in the bound, real command runs (input file written by an independent encoder, output file read back by an "
                  "independent reader) validated by Trace_ExtendCmd.tla",
        text="TLC checks CacheConsistent / AllowedRespected / SkippedDisallowed / NothingLost after every action of every history of the "
             "bounded universe; the recorder wraps the public Network entry points and every real call (spec-driven, random long histories, "
             "CLI runs) must be the step the specification takes, with all invariants evaluated after each step.  For the command, TLC checks "
             "PipelineResult (the edited list is exactly the input reactions that fit the keep-list, mention no removed species and do not "
             "repeat an earlier survivor) and every real run must take the phase the options dictate with the arguments they dictate, and "
             "write exactly the final list.",
        note="species classes are those of the real Species.__eq__; reaction objects are not shared between list positions"),
    "C15": dict(
        level="model_checking", design_ref="DESIGN.md §4 C15, §11",
        technique="TLA+ spec NetworkEdit.tla (FindDup/RemoveDup, coded first-seen table vs declarative definition) model-checked with TLC; "
                  "real find_duplicate_reaction runs validated by Trace_NetworkEdit.tla",
        text="TLC compares the coded first-seen hash table with the declarative definition (equivalent to an earlier reaction, first member "
             "of every class) for all lists of the bounded universe in the four modes, incl. the UNKNOWN-typed wildcard universe; every real "
             "report is checked against the model and against the declarative definition by TLC.",
        note="hash keys of reactions are modelled as the multisets of species classes (the repaired __hash__)"),
    "C19": dict(
        level="model_checking", design_ref="DESIGN.md §4 C19, §11, §12",
        technique="TLA+ spec Solve.tla/SolveOdeint.tla model-checked with TLC; TLC-simulated behaviours replayed as fault scripts "
                  "into the compiled generated Solve; recorded API-call traces validated by Trace_Solve.tla; APA_Solve.tla: inductive "
                  "invariant of Solve.tla for every requested interval discharged with Apalache",
        text="TLC explores every fault sequence of the recovery ladder (5 levels, all flags, all partial progresses in ticks) and checks "
             "ExactSpan/NoOvershoot/FailOnBadFlag/InitialLogged + termination; the real generated naunet.cpp (cvode dense+sparse, odeint, "
             "python wrappers) is compiled against a scripted integrator stand-in and (i) driven along TLC's behaviours, (ii) driven by "
             "random/targeted fault scripts whose logged API calls are validated step by step against the specification; projects with "
             "a temperature equation and budgets installed by Reset are included, and the drivers are built with -fsanitize=bounds (a "
             "subscript outside a declared array size stops the run and is reported).",
        note="CVODE, Boost.Odeint and pybind11 are stand-ins implementing the documented call contracts only; flag classes as coded"),
}

NOT_YET = "not built yet in this round of work; the design for it is in DESIGN.md §4"

checks, na = [], []
for p in props:
    pid = p["id"]
    c = CHECKS.get(pid)
    if not c:
        na.append({"property_id": pid, "reason": NOT_YET})
        continue
    checks.append({
        "property_id": pid,
        "quick_cmd": f"./check {pid} --tier quick",
        "thorough_cmd": f"./check {pid} --tier thorough",
        "evidence_file": f"/verif/evidence/{pid}.json",
        "replay_cmd_template": f"./check {pid} --replay {{path}}",
        "engine": "tlc+harness",
        "level_claimed": {"category": c["level"], "text": c["text"], "design_ref": c["design_ref"]},
        "level_note": c["note"],
        "technique": c["technique"],
    })

m = {
    "version": 1,
    "setup_cmd": "./setup.sh",
    "hooks": {
        "guard": "NAUNET_VERIF",
        "enable": "no source hooks are needed: naunet is a sequential library whose abstract state is reachable from outside; the "
                  "recorder wraps public entry points from /verif when NAUNET_VERIF=1 and the C++ API stand-ins log every call",
        "baseline_off_cmd": "cd /repo && /venv/bin/python -m pytest -ra -q -p no:cacheprovider --timeout=900 --continue-on-collection-errors",
        "source_commits": [],
        "add_only": True,
    },
    "engines": [{"name": "tlc+harness", "path": "/verif/check", "serves_properties": [c["property_id"] for c in checks],
                 "kind_free_text": "TLA+ specifications in /verif/spec checked by TLC; python drivers in /verif/harness replay TLC behaviours "
                                   "into the real code and validate recorded traces with TLC trace specifications"}],
    "checks": checks,
    "not_applicable": na,
    "notes": "see DESIGN.md; known_findings.txt lists recorded and fixed findings",
}
(V / "MANIFEST.json").write_text(json.dumps(m, indent=1) + "\n")
print(f"{len(checks)} checks, {len(na)} not_applicable")
